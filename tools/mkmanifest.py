#!/usr/bin/env python3
"""Regenerates /verif/MANIFEST.json from the table below (kept in one place so the
manifest stays valid while checks are added)."""
import json, os, subprocess

VERIF = os.path.dirname(os.path.dirname(os.path.abspath(__file__)))

# id -> (technique, level text, level note, design ref)
CHECKS = {
    "C08": ("structural oracle over real patch plans on exhaustively enumerated + edit-script-derived layout pairs (tagged storage)",
            "Runs the real build_state_storage_patch_plan/apply_state_storage_patch_plan on every ordered pair of layouts up to a node bound and on edit-script pairs, and checks every clause of the property on the returned plan and on uniquely tagged migrated storage. Exhaustive within the bound, sampled beyond it; nothing is modelled.",
            "Trusts the harness' own prefix-sum layout walk and tree-inclusion checker; u64 sizes stand in for StateType.", "DESIGN.md §3 C08"),
    "C13": ("structural oracle over the values returned by the real tokenize / preparse / parse_cst on exhaustively enumerated lexeme strings, the corpus with all its prefixes/suffixes and token-level mutants, and random Unicode text",
            "Runs the real parser::tokenize, parser::preparse and parser::parse_cst on every string over a ~100-lexeme table up to length 3 (quick) / 4 (thorough) with every separator choice, on every string of parser-structural tokens up to length 5 / 6, on every corpus file with its char-boundary prefixes and suffixes and token-level mutants, and on random Unicode-laden text; for each text it checks on the returned values that the tokens tile the input (contiguous, ordered, char boundaries, final zero-width Eof, concatenation == input), that the GreenNode token leaves are exactly the non-trivia tokens once and in order, and that every trivia token sits in exactly one trivia-map entry of the adjacent syntax token. Exhaustive within the stated bounds, sampled beyond; nothing is modelled.",
            "Trusts the oracle's own trivia classification (4 kinds) and leaf walk; texts on which the code under test panics are counted as undecided (C04's subject). One known finding (file-leading trivia up to a line break is attached to no token) is matched by exact signature.", "DESIGN.md §3 C13"),
}
PENDING = {}

def main():
    props = [json.loads(l) for l in open(os.path.join(VERIF, "properties.jsonl"))]
    commits = subprocess.run(["git", "-C", "/repo", "log", "--format=%H %s"], capture_output=True, text=True).stdout.splitlines()
    hook_commits = [c.split()[0] for c in commits if " verif-hooks:" in c]
    checks, na = [], []
    for p in props:
        pid = p["id"]
        if pid in CHECKS:
            tech, text, note, ref = CHECKS[pid]
            checks.append({
                "property_id": pid,
                "quick_cmd": f"./check {pid} quick",
                "thorough_cmd": f"./check {pid} thorough",
                "evidence_file": f"/verif/evidence/{pid}.json",
                "replay_cmd_template": f"./check {pid} --replay {{path}}",
                "engine": "mmv",
                "level_claimed": {"category": "exploration", "text": text, "design_ref": ref},
                "level_note": note,
                "technique": tech,
            })
        else:
            na.append({"property_id": pid, "reason": PENDING.get(pid, "check not built yet in this round (runtime monitor planned in DESIGN.md §3); not claimed until it exists")})
    m = {
        "version": 1,
        "setup_cmd": "./check build",
        "hooks": {
            "guard": "cargo feature `verif-hooks` (crates mimium-lang, mimium-cli; default off)",
            "enable": "the harness crate /verif/harness depends on /repo's crates by path with features=[\"verif-hooks\"]; ./check rebuilds it from /repo's working tree before every run",
            "baseline_off_cmd": "cd /repo && cargo test --workspace --no-fail-fast --offline",
            "source_commits": hook_commits,
            "add_only": True,
        },
        "engines": [{"name": "mmv", "path": "/verif/harness", "serves_properties": sorted(CHECKS),
                     "kind_free_text": "Rust worker binary (generators, reference interpreter, runners on the repo's public API + hooks, per-property monitors) driven by /verif/check (python3 supervisor: sharding, crash/hang attribution, evidence, known findings)"}],
        "checks": checks,
        "not_applicable": na,
        "notes": "All checks: runtime monitoring of the real code (hook assertions, trace checkers, differential and structural oracles, sanitizers). Verdicts are three-valued (exit 0 held on what was observed / 1 violation / 2 inconclusive). Known findings live in /verif/KNOWN_FINDINGS.txt.",
    }
    json.dump(m, open(os.path.join(VERIF, "MANIFEST.json"), "w"), indent=1)
    print(f"{len(checks)} checks, {len(na)} not claimed")

main()
