#!/usr/bin/env python3
"""Regenerates /verif/MANIFEST.json from the table below (kept in one place so the
manifest stays valid while checks are added)."""
import json, os, subprocess

VERIF = os.path.dirname(os.path.dirname(os.path.abspath(__file__)))

# id -> (technique, level text, level note, design ref)
CHECKS = {
    "C15": ("differential oracle over compilations: artefact hashes (bytecode listing, WASM bytes, state layout, outputs) back to back, before and after random compilation histories (also histories of projects whose external modules share names, and of compilations that fail: macro-stage panic, rejected text), and in fresh processes",
            "Each program is compiled repeatedly in one process (also after up to 50 other programs) and in 4-8 fresh processes with their own hash seeds; the four artefacts named by the property are hashed and must be identical everywhere.",
            "FNV-1a hash + length stand in for byte equality; a fresh process gets fresh RandomState keys.", "DESIGN.md §3 C15"),
    "C12": ("counter-equality monitor at quiescent points (Machine.closures / Machine.heap after sample W+N vs W+2N) + handle-validity hooks, over generated closure-heavy programs, shipped sources and mutations",
            "Each program runs W+2N samples on the VM (and WASM for the record); the numbers of live closures and heap objects after W+N and W+2N samples must be equal, and every retain/release/load/store through a handle that is no longer live, or closure dereference through an invalid key, is flagged by cfg-guarded hooks (slot-map versions decide staleness exactly).",
            "Steady state within W = N samples; the four recorded leak classes (closure as argument, closure returned from a call, boxed variants, rescheduled tasks) are kept out of general exploration by generator quarantines and a list of shipped files.", "DESIGN.md §3 C12"),
    "C13": ("structural oracle over the values returned by the real tokenize / preparse / parse_cst on exhaustively enumerated lexeme strings, the corpus with all its prefixes/suffixes and token-level mutants, and random Unicode text",
            "Runs the real parser::tokenize, parser::preparse and parser::parse_cst on every string over a ~100-lexeme table up to length 3 (quick) / 4 (thorough) with every separator choice, on every string of parser-structural tokens up to length 5 / 6, on every corpus file with its char-boundary prefixes and suffixes and token-level mutants, and on random Unicode-laden text; for each text it checks on the returned values that the tokens tile the input (contiguous, ordered, char boundaries, final zero-width Eof, concatenation == input), that the GreenNode token leaves are exactly the non-trivia tokens once and in order, and that every trivia token sits in exactly one trivia-map entry of the adjacent syntax token. Exhaustive within the stated bounds, sampled beyond; nothing is modelled.",
            "Trusts the oracle's own trivia classification (4 kinds) and leaf walk; texts on which the code under test panics are counted as undecided (C04's subject). One known finding (file-leading trivia up to a line break is attached to no token) is matched by exact signature.", "DESIGN.md §3 C13"),
    "C14": ("oracle over real formatter runs: re-parse with the real parser, span-free AST comparison, comment-sequence and fixed-point checks on corpus files, their layout/comment mutations and generated programs at 24 (width, indent) configurations",
            "Runs the real mimium_fmt::pretty_print_cst on every shipped .mmm file that parses, on layout/comment mutations of them and on generated programs with randomised layout, at widths {1,8,20,40,50,80,120,200} x indents {2,4,8}; the output is re-parsed with the real parse_program/parse_to_expr and compared with the input (parse errors, span-insensitive tree equality, comment texts in order), and formatted again (fixed point). Sampled, not exhaustive; nothing is modelled.",
            "Trusts the harness' own tree view of Program/Expr/Type/Pattern (spans and interned ids dropped) and the real tokenizer for comment extraction. 23 known formatter defects (KNOWN_FINDINGS.txt, scope=sig) are matched by exact signature; at a configuration whose output does not parse the AST and idempotence clauses are not evaluated.", "DESIGN.md §3 C14"),
    "C11": ("model-based oracle with unique power-of-two task weights: per-sample accumulator comparison of both runtimes against a multiset model",
            "Generated task sets (global scope / from dsp / from running tasks / self-rescheduling chains, fractional and equal times, up to 2000 pending, three insertion orders) are run on VM and WASM; every sample's accumulators must equal a 20-line model in which each task runs exactly once before dsp of sample floor(t). Unique weights turn a missing, early or duplicated run into one f64 mismatch.",
            "Effects commute so same-sample order is free; WASM is judged only on task sets outside the two recorded WASM findings (closures allocated in the per-tick arena, more than 40 tasks from global scope).", "DESIGN.md §3 C11"),
    "C07": ("model-based trace oracle: per-channel Rust models of voice templates with unmatchable state shapes, edit histories (insert/delete/replace/nest/constant/edit of a voice body that leaves one of its call sites untouched/compile error; one or several edits per swap) with hot swaps on both runtimes",
            "Every channel of every sample after every swap is compared bitwise with an independent model of its voice whose state survives a swap exactly when the property says it must; histories of 1-4 edits at dense early and random later swap times, failed compiles injected between samples.",
            "Voice templates are used at most once per program and survivors are never reordered, so the expected continuation is unambiguous; the models are validated against the uninterrupted run of every case first.", "DESIGN.md §3 C07"),
    "C06": ("differential oracle: swapped run vs uninterrupted run of the same runtime, all split points 0..8(24) + random, 1-4 consecutive swaps, VM payload and the CLI's WASM preparation path; generated programs, the enumerated family in which every state word is audible, programs whose global initialiser seeds the state storage, hand-written swap-safe programs (array-valued and sum-typed feedback cells)",
            "For generated stateful programs every split point in a dense initial range plus random later ones is exercised on both runtimes: n samples, 1-4 hot swaps to a fresh compilation of the same source through the same preparation code the CLI uses, m more samples; the stream must equal the uninterrupted run bit for bit.",
            "dsp inputs are a function of the sample index; programs keep signal state in self/mem/delay only (as the property states).", "DESIGN.md §3 C06"),
    "C05": ("online trace checker over hooked state operations (VM instructions + WASM host functions) against the cells of the published skeleton; cursor and VM/WASM state-word comparison after every sample",
            "Every Get/Set/Mem/Delay state operation of both runtimes is recorded by cfg-guarded hooks and matched against the published layout (address, size, kind), walked independently by the harness and cross-checked against path_to_address; the cursor must return to 0 after each dsp call and both runtimes must hold identical words after every sample. Workload: generated stateful call trees and all shipped sources.",
            "Trusts the hooks (add-only, reviewed) and the harness' prefix-sum walk; state in if arms is generated since the branch-layout repair (regression witnesses under findings/core/fixed); WASM closure storages grow lazily and are not judged.", "DESIGN.md §3 C05"),
    "C01": ("differential oracle VM vs WASM over generated + shipped + mutated programs (outputs, accept/reject, state words), hostile dsp inputs",
            "Runs every case on both back ends through the CLI's own code path and compares accept/reject, channel counts, every output word bitwise, return codes and flat state words after every sample; cases come from a typed program generator (all features, NaN/inf/-0/subnormal inputs), the shipped sources and operator/constant mutations of them. Held on what was observed; disagreement classes already triaged are listed as known findings and kept out of general exploration by named generator quarantines.",
            "Trusts the harness runners (same call sequence as mimium-cli::run_file) and the dynamic quarantine predicate evaluated by the reference interpreter.", "DESIGN.md §3 C01"),
    "C02": ("reference-interpreter oracle: generated well-typed core programs run on VM and WASM and compared bitwise with an independent executable semantics; witnesses minimised by a G-AST shrinker",
            "An independent interpreter over the generator's own AST (per-textual-call-site zero-initialised state, call by value, left to right) is the executable statement of the property; both back ends must reproduce its output stream bit for bit on thousands of generated programs and input streams.",
            "Trusts the reference interpreter (harness/src/refsem, ~450 lines, shares no code with the compiler) and Rust f64 arithmetic; lambdas/function values are stateless by construction; situations the statement leaves open (NaN as truth value, delay time outside 1..n-1) are detected on the reference execution and not judged.", "DESIGN.md §3 C02"),
    "C03": ("process-outcome + hook-assertion monitor: type-checked programs (generated, near-miss mutants, shipped, mutated) compiled and run on both back ends with bounds assertions at the VM's unchecked access sites and a logical instruction budget; thorough adds an AddressSanitizer stage (whole worker incl. wasmtime) and a Miri stage (VM back end, tiny programs)",
            "Every case is compiled for VM and WASM and runs main + n dsp calls in a supervised worker with cfg-guarded assertions before every unchecked state/global/upvalue/closure/delay-size access; panics, aborts (attributed by the supervisor), step-budget overruns, WASM traps, invalid modules and wrong dsp word counts refute the property. Sanitizer reruns (valgrind / ASan) of the same workload are available through tools/.",
            "Observes only the hooked sites and whatever panics; WASM memory safety is wasmtime's sandbox; n <= 64 dsp calls in quick.", "DESIGN.md §3 C03"),
    "C08": ("structural oracle over real patch plans on exhaustively enumerated + edit-script-derived layout pairs (tagged storage)",
            "Runs the real build_state_storage_patch_plan/apply_state_storage_patch_plan on every ordered pair of layouts up to a node bound and on edit-script pairs, and checks every clause of the property on the returned plan and on uniquely tagged migrated storage. Exhaustive within the bound, sampled beyond it; nothing is modelled.",
            "Trusts the harness' own prefix-sum layout walk and tree-inclusion checker; u64 sizes stand in for StateType.", "DESIGN.md §3 C08"),
    "C20": ("round-trip oracle over the real FFI encoders/decoders (ffi_serde value and macro-argument paths, hand-written serde of Value and Type, TypeNodeId) on exhaustively enumerated and random values/types, with a structural comparator and refusal checks; every representable value also crosses the host side of the dynamic-plugin macro bridge (DynPluginMacroInfo) around an in-process identity macro",
            "Executes serialize_value/deserialize_value, serialize_macro_args/deserialize_macro_args and bincode over `impl Serialize/Deserialize for Value`, `for Type` and TypeNodeId of the repository on every value of depth <= 2 / width <= 2 over 14 boundary leaves (NaN payloads, -0.0, inf, subnormal, empty/non-ASCII/NUL/64 KiB strings, code), every depth-3 constructor chain, every type of depth <= 2 / width <= 2 over 9 leaves and every depth-3 type-constructor chain, plus random deeper/wider artefacts; compares what was decoded with what was encoded (floats by bits, strings by bytes, ordered record keys, u64 tags, expression/type identity) and requires an Err for values that cannot cross, in every nesting context of depth <= 2. Exhaustive within the stated bounds, sampled beyond; nothing is modelled.",
            "Trusts the harness' structural comparator; host and plugin share the interner (as plugin/loader.rs arranges), so ids are compared by key first; bincode is the only wire format exercised; Value::ErrorV (known finding, altered to Unit) is excluded from general exploration by the quarantine errorv-leaf and replayed as a witness; Miri only on demand (tools/c20_miri.sh).", "DESIGN.md §3 C20"),
}
CHECKS["C04"] = (
    "outcome + span oracle over the real front end and both compile entry points on exhaustively enumerated lexeme sequences, nesting ladders, corpus prefixes/suffixes, token mutations and Unicode splices; every text runs in a sandboxed child on a 2 MiB stack",
    "Calls parser::tokenize/preparse/parse_cst/parse_to_expr, mirgen::typecheck_with_module_info, the language server's analyze_source and Context::emit_bytecode/emit_wasm (contexts built by ExecContext) on every generated text and observes the outcome: panic (caught, signature = file + message head), stack overflow (SIGSEGV handler at the guard page of the 2 MiB thread, class decided by a rerun with 256 MiB), runaway allocation (death at the 1.5 GiB address-space limit and again, with a larger peak, at twice the limit), hang (30 s in one phase, confirmed alone with 120 s) and the byte range of every diagnostic label against the text. Exhaustive for all lexeme sequences up to the stated lengths and all ladders up to 64 levels; sampled beyond (mutations, Unicode, cut points of expensive files).",
    "Trusts the harness' child supervision (status file written before each phase, wait4 resource usage) for attributing crashes; 'has syntax or type errors' is decided by the front end's own diagnostics; plugin set = scheduler (+ audio driver on the VM context), not MIDI/sampler/GUI.",
    "DESIGN.md §3 C04",
)
CHECKS["C09"] = (
    "metamorphic / differential oracle: staged program vs its hand expansion, both printed from one description (text form table x staging contexts, typed G-AST programs with staging markers, macro-stage arithmetic), compiled and run by the real compiler on VM and WASM; lifted numbers compared by bits with the reference interpreter",
    "Every core expression form (67 text rows: literals, applications, lambdas, let patterns, letrec, if, sequencing, assignment, tuples, arrays, records, self, match, pipes, state) is placed in 17 staging contexts ($(`e), m!(args) and $(m(args)) with free locals passed as code, macro-stage let-bound code spliced 1-3 times, code through macro-stage functions / closures, numeric recursion building code) and every pair is run; random typed core programs get 1-5 nested staging markers (the above plus unrolled sums, x^n lambdas, n-fold application, lifted literals) and are printed as staged text and as expansion; blocks of 8 macro-stage arithmetic expressions (0.1+0.2, 1/3, 1e-7, 2^53+1, -0.0, inf, NaN, subnormal, MAX ...) are lifted in nine spellings. Accept/reject and every output bit of staged vs expansion must agree per back end; each lifted number must carry the bits of the macro-stage value. Because the compiler quotes the whole program when one staging construct is present, every form of the generated programs passes through the code combinators. Sampled beyond the exhaustive form x context table; nothing is modelled except macro-stage f64 arithmetic (reference interpreter).",
    "Trusts the G-AST printer, the marker expansion (`expand`) and the reference interpreter's f64 arithmetic; VM is never compared with WASM here. Two known findings (record pattern and `match` in a program that is quoted) are replayed as witnesses and kept out of general exploration by the quarantines record-pattern-in-quote (record patterns rewritten to field accesses) and match-in-quote. Generated programs whose expansion needs more than 60 000 reference-interpreter steps for its first two samples are not run (about 1 %).",
    "DESIGN.md §3 C09",
)
CHECKS["C16"] = (
    "metamorphic oracle: original vs transformed program (consistent renaming to fresh / compiler-like / case-variant names, redundant parentheses, layout and comments inside brackets, agreeing annotations) on both back ends",
    "Each generated core program is transformed at the AST level (renaming of every user identifier and record field, full annotation with the generator's own types, pseudo-random redundant parentheses) or at the text level (whitespace, comments and line breaks after ( [ , inside brackets; also applied to every shipped source); original and transformed text are compiled and run on VM and WASM with identical inputs and must agree on accept/reject and on every output bit.",
    "Trusts the G-AST printer and renamer (names never collide with keywords/builtins); the comparison is per back end, so back-end disagreements (C01) do not leak in.",
    "DESIGN.md §3 C16",
)
CHECKS["C19"] = (
    "history oracle over concurrent executions: K threads released on a barrier compile and run jobs, each thread's rendered diagnostics / output hashes are compared with the same job run alone (fresh process + twice in-process); cfg-guarded interner hook logs lock-acquisition order and yields after unlocks; ThreadSanitizer build of the same workload on demand",
    "Each case is a schedule of 2-16 threads x 1-3 compile+run jobs (shipped sources with macros/modules/type declarations, generated programs, ill-typed mutants and broken texts, identical and distinct sources, VM and WASM, a long-running machine next to compilations), repeated 2-3 times with different yield seeds; outcomes must equal the alone outcomes, no thread may die, the interner must not be poisoned, and a schedule that does not finish is confirmed by the supervisor re-running it alone. Evidence lists the lock handovers and the distinct lock-acquisition orders actually observed.",
    "Only the interleavings observed are covered (hundreds of thousands of interner lock handovers per quick run); independent diagnostics are compared as a multiset because their order follows per-thread hash seeds even without concurrency; jobs that kill a process alone make the schedule inconclusive.",
    "DESIGN.md §3 C19",
)
CHECKS["C17"] = (
    "model-based oracle over real compilations and runs: random inline module trees in which every definition returns its own constant, every admissible reference (absolute / relative path, bare name, use, use {..}, use *, re-export, each under a local binding) placed alone in a probe function, judged by an independent conservative resolver model",
    "Each case is a generated module tree (<= 9 modules, nesting <= 3, random pub on functions and modules, namesakes in several modules, use / use {..} / use * / pub use chains with absolute and relative paths, module-level lets) plus up to 28 references drawn from all references the tree admits, spread over the model's classes (route x what is private x referencing position). The program is compiled by the real compiler through the CLI's code path and run on the VM (1 case in 4 also on WASM): a reference the model calls private-from-outside must produce diagnostics; a legal one must be accepted and evaluate to the constant of the definition its path denotes; a local let / parameter / lambda parameter must win over an imported namesake. Verdicts come from single-reference programs (must-accept references are first tried in batches of 8, one output channel each) and every witness is shrunk. Sampled, not exhaustive.",
    "Trusts the ~300-line resolver model (visibility = declared pub; outside = neither in the member's module nor nested in it, the rule convert_qualified_names.rs documents); the model abstains (records the outcome, no verdict) wherever the statement does not fix the answer: a first segment naming both a top-level and a child module, a short name imported twice or by two mechanisms or by any `use` in another module (scope of `use`), import vs top-level function, glob re-exports, enclosing-module vs top-level namesakes, text order; acceptance is not demanded for bare names found in enclosing modules, relative paths to re-exports and relative glob paths. Four known findings (module visibility ignored, re-export of a private function, module-level let is global, top-level function shadows a module's own function) are matched by exact signature (scope=sig).",
    "DESIGN.md §3 C17",
)
CHECKS["C10"] = (
    "metamorphic oracle (alpha-renaming of the binders inside macro bodies) over complete staged programs on both back ends, plus the generator's hand expansion of its own templates to tell which member of a pair is wrong",
    "Every case is a pair of complete programs that differ only in the name of the binders inside the quoted code of their macro definitions (colliding with a name of the macro user / renamed to a fresh name); both are compiled (each on a fresh thread, so the __dtN temporaries are reproducible) and run on VM and WASM and must agree on accept/reject and every output bit per back end; templates are linear in the spliced value, so the value under lexical scoping is known and a pair that agrees on a wrong value on every back end is caught too. All tag combinations (8 binder forms x 6 positions of the splice x 2 directions x 5 name sources x 4 kinds of user entity, about 1 100) plus random argument expressions, nesting and use sites. Sampled, not exhaustive; nothing is modelled beyond the arithmetic of the templates.",
    "Violation signatures carry the class (capturing binder form / scope relation / direction / which member is wrong); the 22 classes that fail on the unchanged tree (capture in scope, binders outliving their block, names of live __dtN temporaries) are known findings matched by exact signature, every other class must hold. Shapes kept out: match in quoted code (refused by the tree, observed as such), letrec-body splice of a user function (diverges), nested uses of a let-like macro inside if arms / blocks / lambda calls, and the shapes of the core quarantines capture-of-destructured-variable and if-inside-aggregate-literal.",
    "DESIGN.md §3 C10",
)
CHECKS["C18"] = (
    "differential oracle VM vs the Rust source emitted by Context::emit_rust, compiled with rustc and executed: fixed operator tables, generated core programs, every shipped source; outcome of emit/rustc/run and every output word",
    "Each case runs on the VM through the CLI's code path; the same text goes through Context::emit_rust on a plugin-free ExecContext, gets a main modelled on rust_codegen_test.rs (host supplies now = sample index and samplerate = 48000 and answers every external call with an error; call_main if present; call_dsp per sample with that sample's input words; every output word printed as hex bits), is compiled with plain `rustc --edition=2024 -C opt-level=0` and run. Refuting events: emit_rust = Ok and rustc rejects the source; the binary exits non-zero or dies by a signal; a sample has another number of output words; any output word differs bitwise (NaN == NaN) from the VM's. emit_rust = Err is a refusal and fine; a panic inside emit_rust and programs the VM refuses are counted, not judged. Workload: 6 hand-written operator tables (operator x operand-class grids, delay times, state, upvalues, function values, arrays), 64 (quick) / 1500 (thorough) generated core programs with seeded inputs incl. NaN/inf/-0.0, every shipped .mmm of lib/, examples/, tests/mmm (incl. every fixture rust_codegen_test.rs runs); 16 rustc processes in parallel.",
    "Trusts rustc on PATH and the shared libm; timeouts, SIGKILL and exhaustion of the binary's 1 GiB address space are inconclusive; six known findings (math builtins left to the host, mem/delay/array operands that are projections, the `..` default-argument form) are recorded with witnesses; the corresponding shapes are rewritten in generated programs / four shipped files are skipped by name so that the rest is still compared.",
    "DESIGN.md §3 C18",
)
PENDING = {}

def main():
    props = [json.loads(l) for l in open(os.path.join(VERIF, "properties.jsonl"))]
    commits = subprocess.run(["git", "-C", "/repo", "log", "--format=%H %s"], capture_output=True, text=True).stdout.splitlines()
    hook_commits = [c.split()[0] for c in commits if " verif-hooks:" in c]
    checks, na = [], []
    for p in props:
        pid = p["id"]
        if pid in CHECKS:
            tech, text, note, ref = CHECKS[pid]
            checks.append({
                "property_id": pid,
                "quick_cmd": f"./check {pid} quick",
                "thorough_cmd": f"./check {pid} thorough",
                "evidence_file": f"/verif/evidence/{pid}.json",
                "replay_cmd_template": f"./check {pid} --replay {{path}}",
                "engine": "mmv",
                "level_claimed": {"category": "exploration", "text": text, "design_ref": ref},
                "level_note": note,
                "technique": tech,
            })
        else:
            na.append({"property_id": pid, "reason": PENDING.get(pid, "check not built yet in this round (runtime monitor planned in DESIGN.md §3); not claimed until it exists")})
    m = {
        "version": 1,
        "setup_cmd": "./check build",
        "hooks": {
            "guard": "cargo feature `verif-hooks` (crates mimium-lang, mimium-cli; default off)",
            "enable": "the harness crate /verif/harness depends on /repo's crates by path with features=[\"verif-hooks\"]; ./check rebuilds it from /repo's working tree before every run",
            "baseline_off_cmd": "cd /repo && cargo test --workspace --no-fail-fast --offline",
            "source_commits": hook_commits,
            "add_only": True,
        },
        "engines": [{"name": "mmv", "path": "/verif/harness", "serves_properties": sorted(CHECKS),
                     "kind_free_text": "Rust worker binary (generators, reference interpreter, runners on the repo's public API + hooks, per-property monitors) driven by /verif/check (python3 supervisor: sharding, crash/hang attribution, evidence, known findings)"}],
        "checks": checks,
        "not_applicable": na,
        "notes": "All checks: runtime monitoring of the real code (hook assertions, trace checkers, differential and structural oracles, sanitizers). Verdicts are three-valued (exit 0 held on what was observed / 1 violation / 2 inconclusive). Known findings live in /verif/KNOWN_FINDINGS.txt.",
    }
    json.dump(m, open(os.path.join(VERIF, "MANIFEST.json"), "w"), indent=1)
    print(f"{len(checks)} checks, {len(na)} not claimed")

main()
