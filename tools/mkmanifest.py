#!/usr/bin/env python3
"""Regenerates /verif/MANIFEST.json from the table below (kept in one place so the
manifest stays valid while checks are added)."""
import json, os, subprocess

VERIF = os.path.dirname(os.path.dirname(os.path.abspath(__file__)))

# id -> (technique, level text, level note, design ref)
CHECKS = {
    "C08": ("structural oracle over real patch plans on exhaustively enumerated + edit-script-derived layout pairs (tagged storage)",
            "Runs the real build_state_storage_patch_plan/apply_state_storage_patch_plan on every ordered pair of layouts up to a node bound and on edit-script pairs, and checks every clause of the property on the returned plan and on uniquely tagged migrated storage. Exhaustive within the bound, sampled beyond it; nothing is modelled.",
            "Trusts the harness' own prefix-sum layout walk and tree-inclusion checker; u64 sizes stand in for StateType.", "DESIGN.md §3 C08"),
}
CHECKS["C04"] = (
    "outcome + span oracle over the real front end and both compile entry points on exhaustively enumerated lexeme sequences, nesting ladders, corpus prefixes/suffixes, token mutations and Unicode splices; every text runs in a sandboxed child on a 2 MiB stack",
    "Calls parser::tokenize/preparse/parse_cst/parse_to_expr, mirgen::typecheck_with_module_info, the language server's analyze_source and Context::emit_bytecode/emit_wasm (contexts built by ExecContext) on every generated text and observes the outcome: panic (caught, signature = file + message head), stack overflow (SIGSEGV handler at the guard page of the 2 MiB thread, class decided by a rerun with 256 MiB), runaway allocation (death at the 1.5 GiB address-space limit and again, with a larger peak, at twice the limit), hang (30 s in one phase, confirmed alone with 120 s) and the byte range of every diagnostic label against the text. Exhaustive for all lexeme sequences up to the stated lengths and all ladders up to 64 levels; sampled beyond (mutations, Unicode, cut points of expensive files).",
    "Trusts the harness' child supervision (status file written before each phase, wait4 resource usage) for attributing crashes; 'has syntax or type errors' is decided by the front end's own diagnostics; plugin set = scheduler (+ audio driver on the VM context), not MIDI/sampler/GUI.",
    "DESIGN.md §3 C04",
)
PENDING = {}

def main():
    props = [json.loads(l) for l in open(os.path.join(VERIF, "properties.jsonl"))]
    commits = subprocess.run(["git", "-C", "/repo", "log", "--format=%H %s"], capture_output=True, text=True).stdout.splitlines()
    hook_commits = [c.split()[0] for c in commits if " verif-hooks:" in c]
    checks, na = [], []
    for p in props:
        pid = p["id"]
        if pid in CHECKS:
            tech, text, note, ref = CHECKS[pid]
            checks.append({
                "property_id": pid,
                "quick_cmd": f"./check {pid} quick",
                "thorough_cmd": f"./check {pid} thorough",
                "evidence_file": f"/verif/evidence/{pid}.json",
                "replay_cmd_template": f"./check {pid} --replay {{path}}",
                "engine": "mmv",
                "level_claimed": {"category": "exploration", "text": text, "design_ref": ref},
                "level_note": note,
                "technique": tech,
            })
        else:
            na.append({"property_id": pid, "reason": PENDING.get(pid, "check not built yet in this round (runtime monitor planned in DESIGN.md §3); not claimed until it exists")})
    m = {
        "version": 1,
        "setup_cmd": "./check build",
        "hooks": {
            "guard": "cargo feature `verif-hooks` (crates mimium-lang, mimium-cli; default off)",
            "enable": "the harness crate /verif/harness depends on /repo's crates by path with features=[\"verif-hooks\"]; ./check rebuilds it from /repo's working tree before every run",
            "baseline_off_cmd": "cd /repo && cargo test --workspace --no-fail-fast --offline",
            "source_commits": hook_commits,
            "add_only": True,
        },
        "engines": [{"name": "mmv", "path": "/verif/harness", "serves_properties": sorted(CHECKS),
                     "kind_free_text": "Rust worker binary (generators, reference interpreter, runners on the repo's public API + hooks, per-property monitors) driven by /verif/check (python3 supervisor: sharding, crash/hang attribution, evidence, known findings)"}],
        "checks": checks,
        "not_applicable": na,
        "notes": "All checks: runtime monitoring of the real code (hook assertions, trace checkers, differential and structural oracles, sanitizers). Verdicts are three-valued (exit 0 held on what was observed / 1 violation / 2 inconclusive). Known findings live in /verif/KNOWN_FINDINGS.txt.",
    }
    json.dump(m, open(os.path.join(VERIF, "MANIFEST.json"), "w"), indent=1)
    print(f"{len(checks)} checks, {len(na)} not claimed")

main()
