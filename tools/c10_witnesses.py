#!/usr/bin/env python3
"""Developer tool for C10: runs `./check C10 quick` with kept worker logs, picks for every
violation signature the smallest case (enumerated tag combination, user name, local variable
preferred), stores it as findings/C10/<slug>.json and prints the `known:` lines for
KNOWN_FINDINGS.txt. Only used when the set of recorded hygiene findings is (re)built by hand."""
import glob, json, os, re, subprocess, sys

VERIF = os.path.dirname(os.path.dirname(os.path.abspath(__file__)))


def slug(sig):
    s = sig.split(": ", 1)
    body = s[1].replace("macro-captures-user", "down").replace("user-captures-macro", "up").replace("/colliding-wrong", "")
    body = body.replace("+", "_over_")
    kind = "agree_" if s[0].startswith("pair-agrees") else ("temp_" if s[0].startswith("desugar") else "")
    return kind + re.sub(r"[^a-z0-9]+", "_", body.lower()).strip("_")


def describe(sig, case, detail):
    cls = case["class"]
    form, rel, direction = cls.split("/")
    name = case["tags"]["name"]
    m = re.search(r"\[vm\] colliding: (.*?) \| renamed: (.*?) \| lexical scoping gives ([-0-9.e]+)", detail)
    obs = f"VM: colliding {m.group(1)}; renamed {m.group(2)}; lexical scoping {m.group(3)}" if m else ""
    obs = obs.replace('"', "'")
    if rel == "live-desugar-temporary-name":
        what = (f"the staging pass destructures nested tuple patterns in quoted code through temporaries named __dt0, __dt1, ... "
                f"(translate_staging::fresh_desugar_name) that are ordinary identifiers: a {form} macro whose own binder / whose user's variable "
                f"is called {name} is captured by the temporary ({direction})")
    elif rel == "in-scope":
        if direction.startswith("macro"):
            what = (f"a {form} binder in a macro's quoted body captures the same-named name ({name}) in the code spliced into its scope: "
                    f"stage-1 variables are rebuilt from their name strings (code_var / code_let / code_lam*), no renaming")
        else:
            what = (f"a {form} binder the macro user writes around code handed over by a macro captures the macro's own variable of the same name ({name})")
    elif rel in ("after-binder-block", "after-expansion"):
        where = "the rest of the macro body after the binder's block was closed" if rel == "after-binder-block" else "the user's code after the expansion"
        what = (f"a {form} binder inside an expanded block stays visible in {where}: mirgen's Expr::Block opens no scope in valenv "
                f"(typing does), so `let y = {{ let t = 10.0  t * 2.0 }}  y + t` reads the inner t even without macros; "
                f"with macros the macro's {name} replaces the user's {name} ({direction})")
    else:
        what = f"{cls}"
    return f"{what}. {obs}"


def main():
    env = dict(os.environ, MMV_KEEP="1")
    p = subprocess.run([os.path.join(VERIF, "check"), "C10", "quick"], env=env, stdout=subprocess.PIPE, text=True)
    runs = sorted(glob.glob(os.path.join(VERIF, "replays", "run", "C10-*")), key=os.path.getmtime)
    rundir = runs[-1]
    best = {}
    for f in glob.glob(os.path.join(rundir, "w*.jsonl")):
        for line in open(f):
            try:
                e = json.loads(line)
            except Exception:
                continue
            if e.get("ev") != "violation":
                continue
            c = e["case"]
            t = c["tags"]
            telling = not ((t["form"].startswith("let+") and t["position"] == "no-user-name-involved") or (t["form"] == "nested-tuple-let" and t["position"] == "splice-in-binder-body"))
            score = ("temporary" in c["class"] and telling, t["name_source"] != "user-name" and "temporary" not in c["class"], t["user_entity"] not in ("local-variable", "none") and "user-code" not in t["user_entity"],
                     t.get("via") == "Hof", len(c["colliding"]), e["idx"])
            if e["sig"] not in best or score < best[e["sig"]][0]:
                best[e["sig"]] = (score, e)
    os.makedirs(os.path.join(VERIF, "findings", "C10"), exist_ok=True)
    lines = []
    for sig in sorted(best):
        e = best[sig][1]
        sl = slug(sig)
        path = os.path.join("findings", "C10", sl + ".json")
        json.dump({"property": "C10", "sig": sig, "detail": e["detail"], "case": e["case"]}, open(os.path.join(VERIF, path), "w"), indent=1)
        lines.append(f'known: property=C10 id=C10-{sl.replace("_", "-")} sig="{sig}" scope=sig witness={path} :: {describe(sig, e["case"], e["detail"])}')
    print("\n".join(lines))
    subprocess.run(["rm", "-rf", rundir])


if __name__ == "__main__":
    main()
