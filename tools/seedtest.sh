#!/bin/sh
# Run checks against a seeded change without touching /repo's working tree:
#   tools/seedtest.sh <seeded dir with patch.diff> <PROP> [<PROP> ...]
# The patch is applied to a scratch worktree of /repo's HEAD (outside /repo and /verif),
# the checks run with MMV_REPO pointing at it (same code path as `git -C /repo apply`
# followed by the MANIFEST command), and the worktree is reset afterwards.
# Output: <seeded dir>/result-<PROP>.txt ; prints one line per property: CAUGHT / MISSED / INCONCLUSIVE.
set -u
D=$(cd "$1" && pwd); shift
W=${SEEDTEST_WORKTREE:-/tmp/seedtest}
V=$(cd "$(dirname "$0")/.." && pwd)
if [ ! -d "$W/.git" ] && [ ! -f "$W/.git" ]; then
  git -C /repo worktree add --detach "$W" HEAD >/dev/null 2>&1 || { echo "cannot create $W"; exit 2; }
fi
git -C "$W" checkout -q --detach "$(git -C /repo rev-parse HEAD)" 2>/dev/null
git -C "$W" checkout -q -- . ; git -C "$W" clean -fdq -e target
# patch.diff is relative to the commit the seeding agent saw; when a later repair in /repo touches the
# same lines, patch-rebased.diff carries the same change onto the current HEAD
if ! git -C "$W" apply "$D/patch.diff" 2>/dev/null; then
  if [ -f "$D/patch-rebased.diff" ] && git -C "$W" apply "$D/patch-rebased.diff"; then :; else echo "PATCH-DOES-NOT-APPLY $D"; exit 2; fi
fi
for P in "$@"; do
  ( cd "$V" && MMV_REPO="$W" VERIF_SEED=${VERIF_SEED:-1} ./check "$P" ${SEEDTEST_TIER:-quick} ) > "$D/result-$P.txt" 2>&1
  rc=$?
  if [ $rc -eq 1 ] && grep -q "^VIOLATION property=$P" "$D/result-$P.txt"; then
    echo "CAUGHT $P $(basename "$D"): $(grep -m1 '^  sig:' "$D/result-$P.txt" | cut -c1-160)"
  elif [ $rc -eq 0 ]; then
    echo "MISSED $P $(basename "$D")"
  else
    echo "INCONCLUSIVE($rc) $P $(basename "$D"): $(tail -1 "$D/result-$P.txt" | cut -c1-160)"
  fi
done
git -C "$W" checkout -q -- . ; git -C "$W" clean -fdq -e target
