#!/bin/sh
# C20 under Miri (nightly toolchain, offline): replays the explicit small cases
# corpus/C20/miri_*.json through the real encoders/decoders inside the Miri interpreter.
# Not part of ./check: it needs its own build of the whole dependency tree (~2 min, into
# <verif>/target-miri). Exit status 0 = Miri saw no undefined behaviour and the oracle
# reported no violation on any case.
VERIF=$(cd "$(dirname "$0")/.." && pwd)
[ -f "$VERIF/harness/Cargo.toml" ] || "$VERIF/check" build >/dev/null || exit 2
cd "$VERIF/harness" || exit 2
status=0
for f in "$VERIF"/corpus/C20/miri_*.json; do
    out=$(mktemp)
    start=$(date +%s)
    CARGO_TARGET_DIR="$VERIF/target-miri" MIRIFLAGS="-Zmiri-disable-isolation" MMV_VERBOSE=1 \
        cargo +nightly miri run --offline --quiet --manifest-path Cargo.toml -- \
        C20 --replay "$f" --out "$out" 2>"$out.err"
    rc=$?
    viol=$(grep -c '"ev":"violation"' "$out")
    ended=$(grep -c '"ev":"end"' "$out")
    echo "$(basename "$f"): miri exit=$rc case_completed=$ended violations=$viol $(( $(date +%s) - start ))s"
    if [ "$rc" != 0 ] || [ "$viol" != 0 ] || [ "$ended" = 0 ]; then
        status=1
        grep -v '^warning' "$out.err" | grep -E "error|Undefined|UB|panicked" -A12 | head -60
        grep '"ev":"violation"' "$out" | head -3
    fi
    rm -f "$out" "$out.err"
done
exit $status
