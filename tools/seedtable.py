#!/usr/bin/env python3
"""Markdown rows for DESIGN.md section 9 from seeded/*/meta.json and seeded/*/result-*.txt:
   tools/seedtable.py [<glob of seed dir names, default *>]
One row per seeded change: which checks were run against it, what each reported."""
import glob, json, os, re, sys
V = os.path.dirname(os.path.dirname(os.path.abspath(__file__)))
pat = sys.argv[1] if len(sys.argv) > 1 else "*"
for d in sorted(glob.glob(os.path.join(V, "seeded", pat))):
    name = os.path.basename(d)
    try:
        m = json.load(open(os.path.join(d, "meta.json")))
    except Exception:
        continue
    res = []
    for r in sorted(glob.glob(os.path.join(d, "result-*.txt"))):
        p = re.search(r"result-(C\d\d)", r).group(1)
        txt = open(r, errors="replace").read()
        if re.search(r"^VIOLATION property=" + p, txt, re.M):
            sig = re.search(r"^  sig: (.*)$", txt, re.M)
            res.append(f"{p} caught: `{(sig.group(1) if sig else '?')[:110]}`")
        elif "INCONCLUSIVE" in txt:
            res.append(f"{p} inconclusive")
        elif txt.strip():
            res.append(f"{p} **missed**")
        else:
            res.append(f"{p} (no output)")
    mech = m.get("mechanism", "").replace("|", "/")
    mech = mech[:int(os.environ.get("MECH_LEN","200"))] + ("…" if len(mech) > int(os.environ.get("MECH_LEN","200")) else "")
    print(f"| {name} | {mech} | {'; '.join(res)} |")
