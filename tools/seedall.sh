#!/bin/sh
# Run every seeded change against its own property's quick check (two scratch worktrees in parallel):
#   tools/seedall.sh [outfile]
# Each line of the result: CAUGHT / MISSED / INCONCLUSIVE / PATCH-DOES-NOT-APPLY <property> <seed dir>
V=$(cd "$(dirname "$0")/.." && pwd)
OUT=${1:-/tmp/seedall.log}
: > "$OUT"
ls -d "$V"/seeded/C*/ | sort > /tmp/seedall.list
split -n l/2 /tmp/seedall.list /tmp/seedall.part.
i=0
for part in /tmp/seedall.part.*; do
  i=$((i+1))
  ( while read d; do
      p=$(basename "$d" | cut -c1-3)
      extra=""
      # seeds that belong to a neighbouring property's check as well
      case "$(basename "$d")" in C19-2-*) extra="C15";; C02-3-*) extra="C05";; esac
      W=/tmp/seedtest; [ "$i" = 2 ] && W=/tmp/seedtest2
      SEEDTEST_WORKTREE=$W "$V/tools/seedtest.sh" "$d" $p $extra
    done < "$part" ) >> "$OUT" 2>&1 &
done
wait
sort -k3 "$OUT" -o "$OUT"
echo "caught: $(grep -c '^CAUGHT' "$OUT")  missed: $(grep -c '^MISSED' "$OUT")  other: $(grep -vc '^CAUGHT\|^MISSED' "$OUT")"
