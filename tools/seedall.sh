#!/bin/sh
# Run seeded changes against their own property's quick check (three scratch worktrees in parallel):
#   tools/seedall.sh [outfile] [glob of seed dir names, default C*]
# Each line of the result: CAUGHT / MISSED / INCONCLUSIVE / PATCH-DOES-NOT-APPLY <property> <seed dir>
V=$(cd "$(dirname "$0")/.." && pwd)
OUT=${1:-/tmp/seedall.log}
PAT=${2:-C*}
: > "$OUT"
ls -d "$V"/seeded/$PAT/ | sort > /tmp/seedall.list
split -n l/3 /tmp/seedall.list /tmp/seedall.part.
i=0
for part in /tmp/seedall.part.*; do
  ( while read d; do
      p=$(basename "$d" | cut -c1-3)
      extra=""
      # seeds that belong to a neighbouring property's check as well
      case "$(basename "$d")" in C19-2-*|C19-6-*) extra="C15";; C02-5-*) extra="C01";; esac
      SEEDTEST_WORKTREE=/tmp/seedtest$i "$V/tools/seedtest.sh" "$d" $p $extra
    done < "$part" ) >> "$OUT" 2>&1 &
  i=$((i+1))
done
wait
sort -k3 "$OUT" -o "$OUT"
echo "caught: $(grep -c '^CAUGHT' "$OUT")  missed: $(grep -c '^MISSED' "$OUT")  other: $(grep -vc '^CAUGHT\|^MISSED' "$OUT")"
