#!/usr/bin/env python3
"""dev helper: replay every witness under findings/core with C01, C02, C03 (no quarantines) and print the signatures"""
import glob, json, os, subprocess, sys, tempfile
props = sys.argv[1:] or ["C01", "C02", "C03"]
b = "/verif/target/release/mmv"
for f in sorted(glob.glob("/verif/findings/core/*.json")):
    print("==", os.path.basename(f))
    for p in props:
        out = tempfile.mktemp()
        r = subprocess.run([b, p, "--replay", f, "--out", out], stdout=subprocess.DEVNULL, stderr=subprocess.DEVNULL)
        sigs = []
        if os.path.exists(out):
            for l in open(out):
                try: e = json.loads(l)
                except Exception: continue
                if e.get("ev") == "violation": sigs.append((e["sig"], str(e.get("detail"))[:160].replace("\n", " ")))
                if e.get("ev") == "inconclusive": sigs.append(("INCONCLUSIVE", e.get("why")))
            os.unlink(out)
        if r.returncode != 0: sigs.append((f"exit {r.returncode}", ""))
        for s, d in sigs:
            print(f"   {p}: {s}\n        {d}")
        if not sigs: print(f"   {p}: -")
