#!/bin/sh
# Confirm that a seeded change compiles and keeps the repository's own test suite green:
#   tools/confirm_seed.sh <seeded dir with patch.diff>
# Uses a scratch worktree of /repo's HEAD (outside /repo and /verif) with its own target dir;
# writes <dir>/tests-confirm.txt and prints TESTS-PASS / TESTS-FAIL.
set -u
D=$(cd "$1" && pwd)
W=${SEEDCONFIRM_WORKTREE:-/tmp/seedconfirm}
if [ ! -d "$W/.git" ] && [ ! -f "$W/.git" ]; then
  git -C /repo worktree add --detach "$W" HEAD >/dev/null 2>&1 || { echo "cannot create $W"; exit 2; }
fi
git -C "$W" checkout -q --detach "$(git -C /repo rev-parse HEAD)" 2>/dev/null
git -C "$W" checkout -q -- . ; git -C "$W" clean -fdq -e target
if ! git -C "$W" apply "$D/patch.diff"; then echo "PATCH-DOES-NOT-APPLY $D"; exit 2; fi
( cd "$W" && CARGO_PROFILE_DEV_DEBUG=0 CARGO_PROFILE_TEST_DEBUG=0 CARGO_NET_OFFLINE=true cargo nextest run --workspace --no-fail-fast --offline --test-threads ${SEEDCONFIRM_THREADS:-8} 2>&1 | tail -15 ) > "$D/tests-confirm.txt" 2>&1
git -C "$W" checkout -q -- . ; git -C "$W" clean -fdq -e target
if grep -q "358 tests run: 358 passed" "$D/tests-confirm.txt"; then echo "TESTS-PASS $(basename "$D")"; else echo "TESTS-FAIL $(basename "$D"): $(grep -m1 'tests run' "$D/tests-confirm.txt")"; fi
