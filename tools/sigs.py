#!/usr/bin/env python3
"""dev helper: summarise violation signatures in kept worker logs (MMV_KEEP=1)"""
import sys, json, glob, collections
files = glob.glob('/verif/replays/run/*/*.jsonl') if len(sys.argv) < 2 else sys.argv[1:]
c = collections.Counter(); ex = {}
for f in files:
    for l in open(f, errors='replace'):
        try: e = json.loads(l)
        except Exception: continue
        if e.get('ev') == 'violation':
            s = e['sig']; c[s] += 1
            src = (e.get('case') or {}).get('src') or ''
            if s not in ex or len(src) < len(ex[s][1]): ex[s] = (e.get('detail'), src, e.get('idx'))
for s, n in c.most_common():
    print(f"--- {n}x {s}\n    idx={ex[s][2]} detail: {str(ex[s][0])[:600]}")
    if '-v' in sys.argv or True:
        print("    shortest src:\n" + "\n".join("      " + x for x in ex[s][1].splitlines()[:60]))
