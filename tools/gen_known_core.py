#!/usr/bin/env python3
"""Maintainer tool (not run by checks): replays the witnesses under findings/core with the given
properties and rewrites the generated block of KNOWN_FINDINGS.txt from what they produce now.
A witness that no longer produces a signature simply yields no line."""
import glob, json, os, subprocess, sys, tempfile, re
VERIF = "/verif"
b = VERIF + "/target/release/mmv"
CLASSES = {
 # witness file stem -> (quarantine name, what fails)
 "if_in_tuple_later_element": ("if-inside-aggregate-literal", "an if-expression inside a tuple/record literal: MIR generation emits the aggregate's Alloc into the block before the branch; the bytecode generator panics ('value reg(N) not found' / 'Unexpected inst: Alloc'), the WASM module computes with a zeroed first element: (1.0, if (now > 0.5) 2.0 else 3.0)"),
 "if_in_tuple_first_element": ("if-inside-aggregate-literal", "same defect, if as the first tuple element: (if (now > 0.5) 2.0 else 3.0, 1.0)"),
 "if_in_record_field": ("if-inside-aggregate-literal", "same defect in a record literal: {p = if (c) 2.0 else 3.0, q = 1.0}"),
 "if_in_global_tuple": ("if-inside-aggregate-literal", "same defect at global scope: let g = (1.0, if (1.0) 2.0 else 3.0)"),
 "modulo_non_integer": ("modulo", "% is fmod on the VM and a - trunc(a/b)*b in the WASM code: 1.0 % 0.3 is 0.10000000000000003 vs 0.10000000000000009"),
 "modulo_negative_zero": ("modulo", "% on WASM loses the sign of a zero result: (0.0 - 1.0) % 1.0 is -0.0 on the VM, 0.0 on WASM"),
 "default_args_dotdot": ("default-args-dotdot", "f({a = 1.0, ..}) ignores the declared default of the omitted parameter (b = 0 instead of 3.0) on both back ends, while f({a = 1.0}) applies it"),
 "default_args_dotdot_pipe": ("default-args-dotdot,corpus:imcomplete_record.mmm", "{a=1,b=5, ..} |> add3 (tests/mmm/imcomplete_record.mmm): default c = 5.0 ignored on the VM (6 instead of 11), invalid WASM module ('expected f64 but nothing on stack')"),
 "samplerate_global_init": ("samplerate-in-global-init", "samplerate read during global initialisation is 44100 on WASM (RuntimeState default; Driver::init sets the rate only after main has run, as in the CLI) and 48000 on the VM"),
 "self_type_unresolved": ("self-type-unresolved", "fn s(){ self } whose return type stays unresolved reaches mir::StateType::from and hits todo!() instead of a diagnostic"),
 "projection_from_self": ("projection-from-self", "self.0 on a function with an annotated tuple return type is rejected ('Index access for non-tuple variable'): the type of self is not known when the projection is checked"),
 "if_arm_bare_projection": ("bare-projection-result", "if (c) { g.0 } else { 7.0 } yields 0.0 on WASM when the else arm is taken (the Phi takes the pointer type of the GetElement in the then arm)"),
 "self_fn_returns_projection": ("bare-projection-result", "a function that uses self and returns a bare tuple/record projection compiles to an invalid WASM module ('expected f64, found i64' at ReturnFeed)"),
 "assign_through_nested_lambda_vm_panic": ("assign-through-nested-lambda", "assignment to a local captured through two lambda levels panics on the VM ('dest is out of bounds' in SetUpValue)"),
 "assign_nested_lambda_escaping": ("assign-through-nested-lambda", "v = v + (|x| { v = 1.0; g })(v) inside an escaped closure: the VM reads v after the nested lambda assigned it (2.0 instead of 1.3)"),
 "not_builtin": ("not-builtin", "not(x) has no WASM import: the call resolves to a plugin trampoline without handler and always yields 0.0"),
 "capture_of_destructured_variable": ("capture-of-destructured-variable", "a lambda capturing a variable bound by a tuple pattern reads an address instead of the value on WASM (5.18e-321 instead of 2.0)"),
 "capture_of_aggregate_parameter_reentrant": ("capture-of-aggregate-parameter", "a lambda that captures a tuple/record-typed parameter of its function reads the argument of a later, re-entrant call of that function on WASM (the closure keeps the address of the caller's argument area): pf4(|x| pf4(.., (1.0, 2.0)), (1.5, 2.5)) yields 4.0 instead of 6.0"),
 "capture_of_parameter_after_aggregate_parameter": ("capture-of-parameter-after-aggregate-parameter", "VM: a lambda capturing a parameter that follows a tuple/record parameter reads the wrong stack word when an earlier sibling lambda with at least as many parameters exists: bytecodegen resolves the captured Argument(i) in the sibling's register map (pos = i instead of the word offset), so fn sf1(a2:(float,float,float), a3){ let l = |p, q| 1.0  (|x| a3)(1.0) } returns a2.1"),
 "global_closure_aliased_and_captured_twice": ("closure-valued-global-as-value", "VM: a closure held in a global (let g = mk()) that dsp binds to a local (let h = g) captured by two sibling lambdas is released at the end of the sample although the global still refers to it: the next sample calls a freed closure ('Invalid indirect callable'); WASM is unaffected"),
 "assign_after_sibling_closure_closed": ("assign-to-variable-captured-by-another-closure", "VM: a local captured by one closure and assigned through another: once the first closure has been closed (it went out of scope / was passed on) the upvalue is a copy, and the enclosing function keeps reading the stale stack slot (1.0 instead of 2.5); same root cause as assign-in-closure-passed-as-argument"),
 "assign_in_closure_passed_as_argument": ("assign-in-closure-passed-as-argument", "a closure passed as an argument that assigns a captured local: the assignment is lost on the VM (upvalue closed by copy when passed), visible on WASM"),
 "stateful_call_in_branch_one_arm": ("stateful-call-in-branch", "a stateful call in only one arm of an if: the VM's state cursor leaves the dsp storage (hook: Get at pos=len), the WASM runtime silently grows its storage"),
 "stateful_call_in_branch": ("stateful-call-in-branch", "state cells inside if arms: both arms overlay the same cells and pending cursor pushes leak between arms (mirgen Expr::If, 'todo: state offset for branches'); the state cursor leaves the storage (hook: Mem at pos=len, cursor underflow)"),
}
for _n, _t in [("composition.mmm", "stage-0 VM"), ("mininotation.mmm", "stage-0 VM"), ("noise.mmm", "stage-0 VM"), ("pattern.mmm", "stage-0 VM")]:
    CLASSES[_n] = ("corpus:" + _n, f"compiling the shipped library file lib/{_n} as the root source panics inside the macro-stage VM (Machine::get_stack_range: 'range end index N out of range for slice of length N') instead of answering with a result or diagnostics")
CLASSES["drive.mmm"] = ("corpus:drive.mmm", "compiling the shipped library file lib/drive.mmm as the root source panics in the type checker ('Qualified Var should be removed in the previous step', typing.rs) instead of answering with a result or diagnostics")
props = sys.argv[1:] or ["C01", "C02", "C03", "C05"]
lines = []
for f in sorted(glob.glob(VERIF + "/findings/core/*.json")) + sorted(glob.glob(VERIF + "/findings/corpus/*.json")):
    stem = os.path.basename(f)[:-5]
    rel = os.path.relpath(f, VERIF)
    if stem not in CLASSES:
        print("no class text for", stem, file=sys.stderr); continue
    q, text = CLASSES[stem]
    for p in props:
        out = tempfile.mktemp()
        subprocess.run([b, p, "--replay", f, "--out", out], stdout=subprocess.DEVNULL, stderr=subprocess.DEVNULL)
        sigs = []
        if os.path.exists(out):
            for l in open(out):
                try: e = json.loads(l)
                except Exception: continue
                if e.get("ev") == "violation" and e["sig"] not in sigs: sigs.append(e["sig"])
            os.unlink(out)
        for i, s in enumerate(sigs):
            s1 = s.replace('"', "'")
            assert '"' not in s1
            ident = f"{p}-{stem.replace('_','-').replace('.mmm','')}" + (f"-{i+1}" if len(sigs) > 1 else "")
            lines.append(f'known: property={p} id={ident} sig="{s}" quarantine={q} witness={rel} :: {text}')
path = VERIF + "/KNOWN_FINDINGS.txt"
s = open(path).read()
B, E = "# BEGIN core-language witnesses (generated by tools/gen_known_core.py)\n", "# END core-language witnesses\n"
block = B + "\n".join(lines) + "\n" + E
if B in s:
    s = s[:s.index(B)] + block + s[s.index(E) + len(E):]
else:
    s = s.rstrip("\n") + "\n\n" + block
open(path, "w").write(s)
print(len(lines), "lines")
