#!/usr/bin/env python3
"""Write the prompt for a seeding sub-agent: tools/mkseedprompt.py <PROP> <round> [n_changes]
The prompt contains only the text of the property (from properties.jsonl), the rules of the
exercise and one-line mechanisms of changes already tried for that property (so that a new
round differs from the earlier ones). Nothing about /verif's checks is included.
Output: /tmp/seedprompts/<PROP>-r<round>.txt ; worktree /tmp/seed<round>-<PROP>, results /tmp/seeded-out<round>/<PROP>/
"""
import json, sys, os, glob
V = os.path.dirname(os.path.dirname(os.path.abspath(__file__)))
prop, rnd = sys.argv[1], sys.argv[2]
n = int(sys.argv[3]) if len(sys.argv) > 3 else 2
P = None
for l in open(os.path.join(V, "properties.jsonl")):
    d = json.loads(l)
    if d["id"] == prop:
        P = d
assert P
wt = f"/tmp/seed{rnd}-{prop}"
out = f"/tmp/seeded-out{rnd}/{prop}"
tried = []
for m in sorted(glob.glob(os.path.join(V, "seeded", prop + "-*", "meta.json"))):
    try:
        tried.append(json.load(open(m)).get("mechanism", ""))
    except Exception:
        pass
anchors = ", ".join(P["anchors"]["files"])
mech = "; ".join(f"{m['name']} ({m['where']})" for m in P.get("mechanism", []))
state = "; ".join(f"{s['name']}: {s['meaning']} ({s['where']})" for s in P["anchors"].get("state", []))
txt = f"""You are a software engineer helping to evaluate a verification effort by "seeding" realistic bugs. You have a private git worktree of the Rust project mimium-rs (a statically typed functional language for sound: parser, type inference, MIR, bytecode VM and WASM back ends) at {wt} . Work ONLY inside {wt} and write results to {out}/ . Do not read, list or use anything under /verif or /repo (other people work there), and do not use any other /tmp directory than those two.

Here is a semantic property the project is supposed to satisfy:

--- PROPERTY {prop}: {P['title']}
{P['statement']}
Quantified over: {P['quantifier']['text']}
Why the unit tests cannot settle it: {P['why_tests_cant']}
Relevant code (anchors): {anchors}
State: {state}
Mechanisms: {mech}
---

Task: produce {n} DIFFERENT realistic code changes, each of which BREAKS this property while the project still compiles and its existing test suite still passes. "Realistic" = the kind of mistake a developer could plausibly make in a refactor, optimisation or feature addition in the anchored code: an off-by-one, a wrong comparison operator, a dropped case, swapped arguments, a missing update of a second copy of some state, a stale cache, an early return, a wrong default, a fast path that is taken too often. Not sabotage (no `if input == magic`), not a change in test code, and not a change that makes every program fail (the existing tests must still pass - that is the point: unit tests do not notice it).

IMPORTANT - subtlety requirement: ask yourself "would ordinary use expose this at once?" If yes, pick something else. Each change must need something SPECIFIC to manifest: a particular multi-step sequence of operations or history, an unusual but legal input shape (deep nesting, a specific combination of two language features, a boundary size such as exactly 2^k or > 255 of something, an empty or one-element aggregate, a value like -0.0 / NaN / subnormal), a particular timing / interleaving / crash or failure at a particular point, or two cooperating sites that each look fine alone. Prefer changes deep in less-travelled code paths of the anchored files over the first obvious function. The {n} changes must differ from each other in location and mechanism.
"""
if tried:
    txt += "\nChanges that were ALREADY tried for this property in an earlier round - do NOT repeat these or close variants of them (different file region and different mechanism, please):\n"
    for t in tried:
        txt += f"  - {t}\n"
txt += f"""
Do not touch code under `#[cfg(feature = "verif-hooks")]` or the file crates/lib/mimium-lang/src/verif.rs (instrumentation, not product code).

For each change i (1..{n}) create the directory {out}/<i>-<short-slug>/ containing:
  * patch.diff - `git diff` against HEAD of the worktree (must apply cleanly with `git apply` to a clean checkout of the same commit);
  * demonstration.md - a concrete input (a mimium program, input samples, a sequence of API calls or of source edits...) and what is observed WITHOUT the change vs WITH the change, showing that the property is violated with the change and holds without it. Execute it for real (e.g. a small throw-away Rust test/example inside the worktree that calls the library, or the command line tool `cargo run -p mimium-cli -- <file.mmm> --output-format csv --times N` - look at crates/bin/mimium-cli for the options, WASM backend is the default, the VM is selected by `--backend vm`), and paste the actual outputs. Include the exact demo program/test source as separate files in the directory so that it can be re-run;
  * meta.json - {{"property": "{prop}", "slug": ..., "files_changed": [...], "mechanism": one sentence, "needs_to_manifest": one sentence saying what specific input/sequence/timing is needed, "why_tests_pass": one sentence, "demonstrated": true/false, "tests_pass": true/false, "test_command": ...}}.
After writing the patch for change i, verify: (a) it compiles; (b) the existing test suite passes with it: run `cargo nextest run --workspace --no-fail-fast --test-threads 4 --offline` (fallback `cargo test --workspace --no-fail-fast --offline`) in the worktree - all tests must pass (there are 358; the first build takes several minutes; no network is available, always pass --offline); if a test fails, pick a different change. (c) the demonstration fails with the change and passes without it. Then `git checkout -- .` (and delete throw-away files) before starting the next change, so every patch is relative to the clean HEAD.
When all changes are done: make sure the worktree is clean (`git status`), delete the build output (`rm -rf {wt}/target`) and finish with a short report listing the changes (slug, file, one-line mechanism, what it needs to manifest, demonstrated yes/no, tests pass yes/no). The machine is shared and busy: builds are slow, be patient, never kill processes you did not start, and use at most 4 parallel jobs (`--build-jobs 4` for nextest, `-j 4` for cargo build/test) for cargo builds. Disk space is scarce: run `export CARGO_PROFILE_DEV_DEBUG=0 CARGO_PROFILE_TEST_DEBUG=0` in every shell before any cargo command (builds without debug info are several times smaller), build nothing in release mode, and do not create additional copies of the worktree.
"""
os.makedirs("/tmp/seedprompts", exist_ok=True)
fn = f"/tmp/seedprompts/{prop}-r{rnd}.txt"
open(fn, "w").write(txt)
print(fn, wt, out)
