#!/bin/sh
# Import the changes a seeding agent left in <outdir>/<i>-<slug>/ as seeded/<PROP>-<n>-<slug>/,
# confirm each (patch applies to /repo's HEAD, repository test suite stays green: tools/confirm_seed.sh)
# and run the property's quick check against it (tools/seedtest.sh):
#   tools/import_seed.sh <PROP> <outdir> [<slot>]       slot selects the scratch worktrees (parallel imports)
set -u
P=$1; SRC=$2; SLOT=${3:-0}
V=$(cd "$(dirname "$0")/.." && pwd)
for d in "$SRC"/*/; do
  [ -f "$d/patch.diff" ] || continue
  slug=$(basename "$d" | sed 's/^[0-9]*-//')
  if ls -d "$V"/seeded/$P-*-"$slug" >/dev/null 2>&1; then echo "ALREADY $P $slug"; continue; fi
  n=$(ls -d "$V"/seeded/$P-* 2>/dev/null | sed "s/.*\/$P-\([0-9]*\)-.*/\1/" | sort -n | tail -1); n=$((${n:-0}+1))
  T="$V/seeded/$P-$n-$slug"
  mkdir -p "$T"; cp -r "$d"/. "$T"/
  rm -rf "$T/target"
  SEEDCONFIRM_WORKTREE=/tmp/seedconfirm$SLOT "$V/tools/confirm_seed.sh" "$T"
  SEEDTEST_WORKTREE=/tmp/seedtest$SLOT "$V/tools/seedtest.sh" "$T" $P
done
