#!/bin/sh
# dev helper: build the harness quietly, show only errors/warnings of the harness itself
cd /verif/harness && sed "s#@REPO@#/repo#g" Cargo.toml.in > Cargo.toml && CARGO_TARGET_DIR=${CARGO_TARGET_DIR:-/verif/target} cargo build --release --offline --message-format short 2>&1 | grep -E "^(src/|error)|Finished|could not compile" | grep -v "^warning" | head -${1:-60}
