//! Reference interpreter for the G-AST: the executable statement of property C02
//! (call-by-value, left-to-right, per-textual-call-site zero-initialised state).
//! Shares no code with the compiler or runtimes under test.

use crate::gens::core::*;
use std::cell::RefCell;
use std::collections::{BTreeSet, HashMap, VecDeque};
use std::rc::Rc;

#[derive(Clone)]
pub enum V {
    F(f64),
    Tup(Vec<V>),
    Rec(Vec<(String, V)>),
    Clo(Rc<Clo>),
    Fn(String),
}

pub struct Clo {
    params: Vec<Param>,
    body: Block,
    env: Env,
}

type Cell = Rc<RefCell<V>>;

#[derive(Clone)]
pub struct Env(Option<Rc<EnvNode>>);
pub struct EnvNode {
    name: String,
    cell: Cell,
    next: Env,
}
impl Env {
    fn empty() -> Env {
        Env(None)
    }
    fn bind(&self, name: &str, v: V) -> Env {
        Env(Some(Rc::new(EnvNode { name: name.to_string(), cell: Rc::new(RefCell::new(v)), next: self.clone() })))
    }
    fn lookup(&self, name: &str) -> Option<Cell> {
        let mut cur = self;
        while let Some(n) = &cur.0 {
            if n.name == name {
                return Some(n.cell.clone());
            }
            cur = &n.next;
        }
        None
    }
}

enum StCell {
    Feed(V),
    Mem(f64),
    /// most recent input first
    Delay(VecDeque<f64>),
}

#[derive(Debug)]
pub enum RefError {
    Steps,
    Internal(String),
}

pub struct Frame {
    path: Vec<u32>,
    self_val: Option<V>,
}

pub struct Interp<'p> {
    prog: &'p Program,
    genv: Env,
    state: HashMap<Vec<u32>, StCell>,
    pub now: u64,
    pub samplerate: f64,
    steps: u64,
    pub max_steps: u64,
    /// shapes of evaluation on which the statement of C02 is silent or on which the
    /// two back ends are known to differ (dynamic quarantine predicates)
    pub flags: BTreeSet<&'static str>,
    /// names of the named functions with a live activation (innermost last)
    active: Vec<String>,
    /// state cells touched in the last sample: (path, kind)
    pub touched: u64,
}

fn zero(t: &Ty) -> V {
    match t {
        Ty::F => V::F(0.0),
        Ty::Tup(v) => V::Tup(v.iter().map(zero).collect()),
        Ty::Rec(v) => V::Rec(v.iter().map(|(n, t)| (n.clone(), zero(t))).collect()),
        Ty::Fun(..) => V::F(0.0),
    }
}

pub fn flatten(v: &V, out: &mut Vec<f64>) {
    match v {
        V::F(x) => out.push(*x),
        V::Tup(vs) => vs.iter().for_each(|x| flatten(x, out)),
        V::Rec(vs) => vs.iter().for_each(|(_, x)| flatten(x, out)),
        _ => out.push(f64::NAN),
    }
}

impl<'p> Interp<'p> {
    pub fn new(prog: &'p Program) -> Result<Self, RefError> {
        let mut it = Interp {
            prog,
            genv: Env::empty(),
            state: HashMap::new(),
            now: 0,
            samplerate: 48000.0,
            steps: 0,
            max_steps: 2_000_000,
            flags: BTreeSet::new(),
            active: vec![],
            touched: 0,
        };
        // global initialisation, in textual order
        for (n, _t, e) in prog.pre_globals.iter().chain(prog.globals.iter()) {
            let mut fr = Frame { path: vec![u32::MAX], self_val: None };
            let env = it.genv.clone();
            let v = it.eval(e, &env, &mut fr)?;
            it.genv = it.genv.bind(n, v);
        }
        Ok(it)
    }

    fn f(&self, v: V) -> Result<f64, RefError> {
        match v {
            V::F(x) => Ok(x),
            _ => Err(RefError::Internal("expected float".into())),
        }
    }

    fn truth(&mut self, c: f64) -> bool {
        if c.is_nan() {
            self.flags.insert("nan_condition");
        }
        c > 0.0
    }

    fn call_named(&mut self, name: &str, args: Vec<(Option<String>, V)>, path: Vec<u32>) -> Result<V, RefError> {
        let f = self.prog.find_fn(name).ok_or_else(|| RefError::Internal(format!("no fn {name}")))?;
        let mut env = self.genv.clone();
        let positional = args.iter().all(|a| a.0.is_none());
        if positional {
            if args.len() != f.params.len() {
                return Err(RefError::Internal(format!("arity {name}")));
            }
            for (p, (_, v)) in f.params.iter().zip(args.into_iter()) {
                env = env.bind(&p.name, v);
            }
        } else {
            for p in &f.params {
                let given = args.iter().find(|a| a.0.as_deref() == Some(p.name.as_str()));
                let v = match (given, p.default) {
                    (Some((_, v)), _) => v.clone(),
                    (None, Some(d)) => V::F(d),
                    (None, None) => return Err(RefError::Internal(format!("missing arg {}", p.name))),
                };
                env = env.bind(&p.name, v);
            }
        }
        let mut key = path.clone();
        key.push(0);
        let self_val = match self.state.get(&key) {
            Some(StCell::Feed(v)) => v.clone(),
            _ => zero(&f.ret),
        };
        let mut fr = Frame { path, self_val: Some(self_val) };
        // dynamic quarantine predicate: a function with a tuple/record parameter entered while one of
        // its activations is still live (the WASM code generator keeps such parameters in one place)
        if f.params.iter().any(|p| matches!(p.ty, Ty::Tup(_) | Ty::Rec(_))) && self.active.iter().any(|n| n == name) {
            self.flags.insert("reentrant_call_with_aggregate_parameter");
        }
        self.active.push(name.to_string());
        let r = self.block(&f.body, &env, &mut fr);
        self.active.pop();
        let r = r?;
        if f.ret.is_data() {
            self.state.insert(key, StCell::Feed(r.clone()));
        }
        Ok(r)
    }

    fn call_value(&mut self, f: V, args: Vec<V>, fr: &mut Frame) -> Result<V, RefError> {
        match f {
            V::Clo(c) => {
                if c.params.len() != args.len() {
                    return Err(RefError::Internal("closure arity".into()));
                }
                let mut env = c.env.clone();
                for (p, v) in c.params.iter().zip(args.into_iter()) {
                    env = env.bind(&p.name, v);
                }
                // lambdas are stateless by construction; they run in the caller's frame
                let mut inner = Frame { path: fr.path.clone(), self_val: None };
                self.block(&c.body, &env, &mut inner)
            }
            V::Fn(name) => {
                let mut p = fr.path.clone();
                p.push(u32::MAX - 1);
                self.call_named(&name, args.into_iter().map(|v| (None, v)).collect(), p)
            }
            _ => Err(RefError::Internal("call of non-function".into())),
        }
    }

    pub fn block(&mut self, b: &Block, env: &Env, fr: &mut Frame) -> Result<V, RefError> {
        let mut env = env.clone();
        for s in &b.stmts {
            match s {
                Stmt::Let(p, _, e) => {
                    let v = self.eval(e, &env, fr)?;
                    env = Self::bind_pat(p, v, env)?;
                }
                Stmt::Assign(n, e) => {
                    let v = self.eval(e, &env, fr)?;
                    let cell = env.lookup(n).ok_or_else(|| RefError::Internal(format!("assign to unbound {n}")))?;
                    *cell.borrow_mut() = v;
                }
            }
        }
        self.eval(&b.result, &env, fr)
    }

    fn bind_pat(p: &Pat, v: V, env: Env) -> Result<Env, RefError> {
        match (p, v) {
            (Pat::Var(n), v) => Ok(env.bind(n, v)),
            (Pat::Tup(ps), V::Tup(vs)) if ps.len() == vs.len() => {
                let mut env = env;
                for (p, v) in ps.iter().zip(vs.into_iter()) {
                    env = Self::bind_pat(p, v, env)?;
                }
                Ok(env)
            }
            (Pat::Rec(fs), V::Rec(vs)) => {
                let mut env = env;
                for (f, b) in fs {
                    let v = vs.iter().find(|(n, _)| n == f).ok_or_else(|| RefError::Internal("record pattern".into()))?;
                    env = env.bind(b, v.1.clone());
                }
                Ok(env)
            }
            _ => Err(RefError::Internal("pattern mismatch".into())),
        }
    }

    pub fn eval(&mut self, e: &E, env: &Env, fr: &mut Frame) -> Result<V, RefError> {
        self.steps += 1;
        if self.steps > self.max_steps {
            return Err(RefError::Steps);
        }
        Ok(match e {
            E::Num(v, _) => V::F(*v),
            E::Var(n) => match env.lookup(n) {
                Some(c) => c.borrow().clone(),
                None => match self.genv.lookup(n) {
                    Some(c) => c.borrow().clone(),
                    None => return Err(RefError::Internal(format!("unbound {n}"))),
                },
            },
            E::Bin(op, a, b) => {
                let x = self.eval(a, env, fr)?;
                let x = self.f(x)?;
                let y = self.eval(b, env, fr)?;
                let y = self.f(y)?;
                let bf = |c: bool| if c { 1.0 } else { 0.0 };
                V::F(match op {
                    BinOp::Add => x + y,
                    BinOp::Sub => x - y,
                    BinOp::Mul => x * y,
                    BinOp::Div => x / y,
                    BinOp::Mod => {
                        if x.fract() != 0.0 || y.fract() != 0.0 || !x.is_finite() || !y.is_finite() || y == 0.0 || x.abs() > 1e15 {
                            self.flags.insert("modulo_non_integer_operand");
                        }
                        x % y
                    }
                    BinOp::Pow => x.powf(y),
                    BinOp::Lt => bf(x < y),
                    BinOp::Le => bf(x <= y),
                    BinOp::Gt => bf(x > y),
                    BinOp::Ge => bf(x >= y),
                    BinOp::Eq => bf(x == y),
                    BinOp::Ne => bf(x != y),
                    BinOp::And | BinOp::Or => {
                        if !(x >= 0.0) || !(y >= 0.0) {
                            self.flags.insert("logic_on_negative_or_nan_operand");
                        }
                        if *op == BinOp::And { bf(x > 0.0 && y > 0.0) } else { bf(x > 0.0 || y > 0.0) }
                    }
                })
            }
            E::Neg(a) => {
                // unary minus is defined by the language as `0.0 - x` (so -(+0.0) is +0.0)
                let x = self.eval(a, env, fr)?;
                V::F(0.0 - self.f(x)?)
            }
            E::Not(a) => {
                let x = self.eval(a, env, fr)?;
                let x = self.f(x)?;
                // `not` is the builtin function x == 0 -> 1, else 0 (NaN -> 0)
                V::F(if x == 0.0 { 1.0 } else { 0.0 })
            }
            E::Builtin(n, args) => {
                let mut xs = vec![];
                for a in args {
                    let v = self.eval(a, env, fr)?;
                    xs.push(self.f(v)?);
                }
                V::F(match (n.as_str(), xs.as_slice()) {
                    ("sin", [x]) => x.sin(),
                    ("cos", [x]) => x.cos(),
                    ("abs", [x]) => x.abs(),
                    ("sqrt", [x]) => x.sqrt(),
                    ("floor", [x]) => x.floor(),
                    ("ceil", [x]) => x.ceil(),
                    ("round", [x]) => x.round(),
                    ("tanh", [x]) => x.tanh(),
                    ("atan", [x]) => x.atan(),
                    ("log", [x]) => x.ln(),
                    ("min", [x, y]) => x.min(*y),
                    ("max", [x, y]) => x.max(*y),
                    _ => return Err(RefError::Internal(format!("builtin {n}"))),
                })
            }
            E::CallFn { name, args, style, site } => {
                let mut path = fr.path.clone();
                path.push(*site);
                let mut vals = vec![];
                match (style, args.first()) {
                    (CallStyle::Positional, _) => {
                        for a in args {
                            vals.push((None, self.eval(a, env, fr)?));
                        }
                    }
                    (_, Some(E::Record(fs))) => {
                        for (n, a) in fs {
                            vals.push((Some(n.clone()), self.eval(a, env, fr)?));
                        }
                        if fs.is_empty() {
                            // all defaults: force the named-binding path
                            vals.push((Some(String::new()), V::F(0.0)));
                        }
                    }
                    _ => return Err(RefError::Internal("call style".into())),
                }
                self.call_named(name, vals, path)?
            }
            E::PipeFn { arg, name, site } => {
                let mut path = fr.path.clone();
                path.push(*site);
                let v = self.eval(arg, env, fr)?;
                self.call_named(name, vec![(None, v)], path)?
            }
            E::CallVal(f, args) => {
                let fv = self.eval(f, env, fr)?;
                let mut vals = vec![];
                for a in args {
                    vals.push(self.eval(a, env, fr)?);
                }
                self.call_value(fv, vals, fr)?
            }
            E::PipeVal(arg, f) => {
                let v = self.eval(arg, env, fr)?;
                let fv = self.eval(f, env, fr)?;
                self.call_value(fv, vec![v], fr)?
            }
            E::If(c, a, b) => {
                let cv = self.eval(c, env, fr)?;
                let cv = self.f(cv)?;
                if self.truth(cv) { self.eval(a, env, fr)? } else { self.eval(b, env, fr)? }
            }
            E::Tuple(es) => {
                let mut vs = vec![];
                for x in es {
                    vs.push(self.eval(x, env, fr)?);
                }
                V::Tup(vs)
            }
            E::Proj(t, i) => match self.eval(t, env, fr)? {
                V::Tup(vs) if *i < vs.len() => vs[*i].clone(),
                _ => return Err(RefError::Internal("projection".into())),
            },
            E::Record(fs) => {
                let mut vs = vec![];
                for (n, x) in fs {
                    vs.push((n.clone(), self.eval(x, env, fr)?));
                }
                V::Rec(vs)
            }
            E::Field(r, f) => match self.eval(r, env, fr)? {
                V::Rec(vs) => vs.iter().find(|(n, _)| n == f).map(|x| x.1.clone()).ok_or_else(|| RefError::Internal("field".into()))?,
                _ => return Err(RefError::Internal("field of non-record".into())),
            },
            E::Lambda(ps, body) => V::Clo(Rc::new(Clo { params: ps.clone(), body: (**body).clone(), env: env.clone() })),
            E::FnRef(n) => V::Fn(n.clone()),
            E::Block(b) => self.block(b, env, fr)?,
            E::SelfE => fr.self_val.clone().ok_or_else(|| RefError::Internal("self outside function".into()))?,
            E::Mem(a, site) => {
                let v = self.eval(a, env, fr)?;
                let v = self.f(v)?;
                let mut key = fr.path.clone();
                key.push(*site);
                self.touched += 1;
                let old = match self.state.insert(key, StCell::Mem(v)) {
                    Some(StCell::Mem(o)) => o,
                    _ => 0.0,
                };
                V::F(old)
            }
            E::Delay(n, x, t, site) => {
                let xv = self.eval(x, env, fr)?;
                let xv = self.f(xv)?;
                let tv = self.eval(t, env, fr)?;
                let tv = self.f(tv)?;
                if !(tv >= 1.0 && tv <= (*n as f64 - 1.0)) {
                    self.flags.insert("delay_time_outside_1_to_n_minus_1");
                }
                let d = tv.clamp(0.0, *n as f64 - 1.0).floor() as usize;
                let mut key = fr.path.clone();
                key.push(*site);
                self.touched += 1;
                let hist = match self.state.entry(key).or_insert_with(|| StCell::Delay(VecDeque::new())) {
                    StCell::Delay(h) => h,
                    _ => return Err(RefError::Internal("delay cell kind".into())),
                };
                // x from d samples earlier (d >= 1); d == 0 is outside the stated range
                let res = if d == 0 {
                    hist.get(*n as usize - 1).copied().unwrap_or(0.0)
                } else {
                    hist.get(d - 1).copied().unwrap_or(0.0)
                };
                hist.push_front(xv);
                hist.truncate(*n as usize);
                V::F(res)
            }
            E::Now => V::F(self.now as f64),
            E::SampleRate => V::F(self.samplerate),
        })
    }

    /// One dsp call; `input` are the dsp parameters' words.
    pub fn tick(&mut self, input: &[f64]) -> Result<Vec<f64>, RefError> {
        self.steps = 0;
        let dsp = &self.prog.dsp;
        let mut args = vec![];
        let mut k = 0;
        fn build(t: &Ty, input: &[f64], k: &mut usize) -> V {
            match t {
                Ty::F => {
                    let v = input.get(*k).copied().unwrap_or(0.0);
                    *k += 1;
                    V::F(v)
                }
                Ty::Tup(ts) => V::Tup(ts.iter().map(|t| build(t, input, k)).collect()),
                Ty::Rec(ts) => V::Rec(ts.iter().map(|(n, t)| (n.clone(), build(t, input, k))).collect()),
                Ty::Fun(..) => V::F(0.0),
            }
        }
        for p in &dsp.params {
            args.push((None, build(&p.ty, input, &mut k)));
        }
        let r = self.call_named("dsp", args, vec![])?;
        self.now += 1;
        let mut out = vec![];
        flatten(&r, &mut out);
        Ok(out)
    }
}

/// Does the program need more than `budget` evaluation steps in one of its first `n` ticks?
/// (Generated programs with exponential call trees through nested higher-order functions.)
pub fn is_heavy(prog: &Program, n: usize, budget: u64) -> bool {
    let Ok(mut it) = Interp::new(prog) else { return false };
    it.max_steps = budget;
    let ich: usize = prog.dsp.params.iter().map(|p| p.ty.words()).sum();
    let inbuf = vec![0.5; ich];
    for _ in 0..n {
        match it.tick(&inbuf) {
            Err(RefError::Steps) => return true,
            Err(_) => return false,
            Ok(_) => {}
        }
    }
    false
}

/// `is_heavy` over a whole run with the case's own inputs (a program can be light for two samples
/// of constant input and heavy later, when `now` or an input opens a branch)
pub fn is_heavy_run(prog: &Program, n: usize, budget: u64, input: &dyn Fn(usize, usize) -> f64) -> bool {
    let Ok(mut it) = Interp::new(prog) else { return false };
    it.max_steps = budget;
    let ich: usize = prog.dsp.params.iter().map(|p| p.ty.words()).sum();
    let mut inbuf = vec![0.0; ich];
    for t in 0..n {
        for (k, v) in inbuf.iter_mut().enumerate() {
            *v = input(t, k);
        }
        match it.tick(&inbuf) {
            Err(RefError::Steps) => return true,
            Err(_) => return false,
            Ok(_) => {}
        }
    }
    false
}

/// Run `n` samples; returns flattened [sample][channel] outputs and the flags tripped.
pub fn run(prog: &Program, n: usize, input: &dyn Fn(usize, usize) -> f64) -> Result<(Vec<f64>, BTreeSet<&'static str>), RefError> {
    let mut it = Interp::new(prog)?;
    let ich: usize = prog.dsp.params.iter().map(|p| p.ty.words()).sum();
    let mut out = vec![];
    let mut inbuf = vec![0.0; ich];
    for t in 0..n {
        for c in 0..ich {
            inbuf[c] = input(t, c);
        }
        out.extend(it.tick(&inbuf)?);
    }
    Ok((out, it.flags))
}
