//! C06 — hot-swapping an unchanged program is inaudible: run n samples, swap in a
//! fresh compilation of the same source (the CLI's preparation path on WASM), run m
//! more, and compare with the uninterrupted run of the same runtime.

use super::progcase::{Case, feat_for, input_fn, report};
use super::{drive, replay_one};
use crate::gens::core::generate;
use crate::run::{Backend, BuildError, Session};
use crate::util::{Args, Out, Rng, bits_eq, f64s_to_json};
use serde_json::{Value, json};

/// `n` of the case is the tail length m; splits are derived from `input_seed`.
fn splits(c: &Case, thorough: bool) -> Vec<(usize, usize)> {
    // (split point, number of consecutive swaps at that point)
    let mut r = Rng::new(c.input_seed ^ 0x5eed);
    let mut v: Vec<(usize, usize)> = vec![];
    let dense = if thorough { 25 } else { 9 };
    for n in 0..dense {
        v.push((n, 1));
    }
    for _ in 0..(if thorough { 6 } else { 3 }) {
        v.push((r.below(200), 1 + r.below(4)));
    }
    if let Some(s) = c.split {
        v = vec![(s.0, s.1)];
    }
    v
}

pub struct Checked {
    pub violations: Vec<(String, String)>,
    pub swaps: u64,
    pub samples_compared: u64,
    pub ran: bool,
    pub stateful_cells: usize,
    pub failing_split: Option<(usize, usize)>,
}

fn run_uninterrupted(b: Backend, c: &Case, total: usize) -> Result<Vec<f64>, String> {
    let inp = input_fn(c.input_seed, c.finite_inputs);
    let mut s = Session::build(b, &c.src, false, None).map_err(|e| e.short())?;
    let ich = s.io.input as usize;
    let mut out = vec![];
    let mut inbuf = vec![0.0; ich];
    for t in 0..total {
        for (k, v) in inbuf.iter_mut().enumerate() {
            *v = inp(t, k);
        }
        out.extend(s.step(&inbuf).map_err(|p| format!("panic {} @ {}", p.msg, p.loc))?.out);
    }
    Ok(out)
}

pub fn check(c: &Case, thorough: bool) -> Checked {
    let mut res = Checked { violations: vec![], swaps: 0, samples_compared: 0, ran: false, stateful_cells: 0, failing_split: None };
    let m = c.n;
    let sp = splits(c, thorough);
    let max_n = sp.iter().map(|s| s.0).max().unwrap_or(0);
    let inp = input_fn(c.input_seed, c.finite_inputs);
    // programs whose global initialiser calls a stateful function abort on the VM before the first
    // sample (recorded finding C03-stateful-call-in-global-init): those run on the WASM runtime only
    let wasm_only = c.origin.as_deref().is_some_and(|o| o.starts_with("template:main-seeded"));
    // a hand-written program may name the recorded defect class that keeps it from the WASM runtime
    // (`// @quarantine-wasm: <class>`); the line only has an effect while that class is listed in KNOWN_FINDINGS.txt
    let vm_only = c.src.lines().filter_map(|l| l.trim().strip_prefix("// @quarantine-wasm:")).any(|q| crate::util::q(q.trim()));
    for b in [Backend::Vm, Backend::Wasm] {
        if wasm_only && b == Backend::Vm || vm_only && b == Backend::Wasm {
            continue;
        }
        let Ok(base) = run_uninterrupted(b, c, max_n + m) else { continue };
        for (n, k) in &sp {
            let mut s = match Session::build(b, &c.src, false, None) {
                Ok(s) => s,
                Err(_) => break,
            };
            let ich = s.io.input as usize;
            let och = s.io.output as usize;
            if let Some(sk) = &s.skeleton {
                res.stateful_cells = res.stateful_cells.max(sk.total_size() as usize);
            }
            let mut inbuf = vec![0.0; ich];
            let mut got = vec![];
            let mut failed = false;
            for t in 0..(n + m) {
                if t == *n {
                    for j in 0..*k {
                        match s.hot_swap(&c.src) {
                            Ok(true) => res.swaps += 1,
                            Ok(false) => {
                                res.violations.push((format!("try-hot-swap-refused/{}", b.name()), format!("split {n}, swap {j}")));
                                failed = true;
                            }
                            Err(BuildError::Panicked(ph, p)) => {
                                res.violations.push((format!("{}/{ph}/{}", p.sig(), b.name()), format!("split {n}, swap {j}: {} @ {}", p.msg, p.loc)));
                                failed = true;
                            }
                            Err(e) => {
                                res.violations.push((format!("swap-preparation-failed/{}", b.name()), format!("split {n}: {}", e.short())));
                                failed = true;
                            }
                        }
                        if failed {
                            break;
                        }
                    }
                    if failed {
                        break;
                    }
                }
                for (kk, v) in inbuf.iter_mut().enumerate() {
                    *v = inp(t, kk);
                }
                match s.step(&inbuf) {
                    Ok(st) => got.extend(st.out),
                    Err(p) => {
                        res.violations.push((format!("{}/dsp-after-swap/{}", p.sig(), b.name()), format!("split {n}: sample {t}: {} @ {}", p.msg, p.loc)));
                        failed = true;
                        break;
                    }
                }
            }
            if failed {
                res.failing_split = Some((*n, *k));
                break;
            }
            res.ran = true;
            let want = &base[..(n + m) * och];
            res.samples_compared += got.len() as u64;
            if let Some(i) = (0..want.len().min(got.len())).find(|&i| !bits_eq(want[i], got[i])) {
                let ch = och.max(1);
                let lo = i.saturating_sub(2 * ch);
                let when = if i / ch < *n { "before the swap (harness nondeterminism?)" } else { "after the swap" };
                res.violations.push((
                    format!("output-differs-from-uninterrupted-run/{}", b.name()),
                    format!(
                        "split n={n} swaps={k}: sample {} channel {} ({when}): swapped = {:?} uninterrupted = {:?}; window swapped {} uninterrupted {}",
                        i / ch, i % ch, got[i], want[i], f64s_to_json(&got[lo..=i]), f64s_to_json(&want[lo..=i])
                    ),
                ));
                res.failing_split = Some((*n, *k));
                break;
            }
        }
    }
    res.violations.dedup_by(|a, b| a.0 == b.0);
    res
}

fn exec_with(args: &Args) -> impl Fn(&Case, usize, &mut Out) -> bool + '_ {
    move |c, idx, out| {
        let th = args.thorough();
        let r = check(c, th);
        out.count("swaps_performed", r.swaps);
        out.count("samples_compared", r.samples_compared);
        for f in c.prog.iter().flat_map(|p| p.features.iter()) {
            out.count(&format!("feature:{f}"), 1);
        }
        // minimisation keeps the failing split fixed
        let found = r.violations.clone();
        let mut c2 = c.clone();
        if c2.split.is_none() {
            c2.split = r.failing_split;
        }
        report(out, idx, &c2, &found, &|t| check(t, th).violations);
        r.ran && r.stateful_cells > 0
    }
}

pub fn gen_case(args: &Args, rng: &mut Rng) -> Case {
    let mut feat = feat_for(args, rng);
    // signal state lives in self/mem/delay reachable from dsp; globals are constant after main
    feat.escaping_closures = false;
    let prog = generate(rng, feat);
    let src = prog.print();
    Case {
        src,
        n: *rng.pick(&[8usize, 16, 40]),
        input_seed: rng.next(),
        finite_inputs: true,
        prog: Some(prog),
        expect: None,
        scheduler: false,
        path: None,
        origin: None,
        split: None,
    }
}

pub fn meta(args: &Args) -> Value {
    json!({
        "level": "exploration",
        "rule": "generated programs whose signal state lives in self/mem/delay cells (no escaping closures; globals constant after main; `now` used). For each program and each runtime: one uninterrupted run, then for every split point n in 0..8 (0..24 thorough) and a few random n < 200 a fresh session runs n samples, hot-swaps 1-4 times to a fresh compilation of the same source (VM: ProgramPayload::VmProgram; WASM: mimium-cli's prewarm + patch-plan preparation, ProgramPayload::WasmModule) and runs m more samples; all n+m samples must equal the uninterrupted run bitwise. Non-trivial = swaps happened and the dsp layout has at least one state word; distinct = hash of program + parameters.",
        "assumptions": ["dsp inputs are a deterministic function of the sample index", "the CLI's swap preparation is reached through the cfg-guarded verif_prepare_wasm_swap"],
        "floor": {"quick": 20, "thorough": 800},
        "case_timeout_s": 60,
        "hang_is_violation": false,
        "crash_is_violation": false,
        "budget": args.cases(120, 4000),
    })
}

/// Programs whose global initialiser calls a stateful function, so that the state storage already
/// holds non-zero words when the first sample runs, and whose cells return to exactly 0.0 every few
/// samples while they run: a swap at such a sample must carry the zero over (not the initialiser's value).
pub fn main_seeded_programs() -> Vec<(String, String)> {
    let mut v = vec![];
    for (i, inc) in ["0.25", "0.5", "0.125"].iter().enumerate() {
        v.push((format!("phasor{i}"), format!("fn phasor(inc){{\n  (self + inc) % 1.0\n}}\nlet start = phasor({inc})\nfn dsp(){{\n  phasor({inc}) + start * 0.0\n}}\n")));
    }
    v.push(("mem".into(), "fn gate(x){ mem(x) }\nlet s = gate(5.0)\nfn dsp(){\n  gate(now % 3.0) * 10.0 + s * 0.0 + now\n}\n".into()));
    v.push(("delay".into(), "fn d(x){ delay(4, x, 2.0) }\nlet s = d(7.0)\nfn dsp(){\n  d(now % 2.0) * 10.0 + s * 0.0 + now\n}\n".into()));
    v.push(("flip".into(), "fn flip(){ 1.0 - self }\nlet s = flip()\nfn dsp(){\n  flip() * 10.0 + s * 0.0 + now\n}\n".into()));
    v.push(("pair".into(), "fn pair(x)->(float,float){\n  let (a, b) = self\n  (b, x)\n}\nlet (p, q) = pair(3.0)\nfn dsp(){\n  let (a, b) = pair(now % 2.0)\n  a + b * 10.0 + (p + q) * 0.0\n}\n".into()));
    v.push(("two-sites".into(), "fn cnt(){ (self + 1.0) % 4.0 }\nfn flip(){ 1.0 - self }\nlet s = cnt() + flip() + cnt()\nfn dsp(){\n  cnt() + flip() * 10.0 + cnt() * 100.0 + s * 0.0\n}\n".into()));
    v
}

/// hand-written programs marked `@swap-safe` (state only in self/mem/delay cells reachable from dsp)
fn swap_safe_programs() -> Vec<(String, String)> {
    let mut v = vec![];
    if let Ok(rd) = std::fs::read_dir(super::c01::verif_dir().join("corpus/programs")) {
        let mut fs: Vec<_> = rd.filter_map(|e| e.ok()).map(|e| e.path()).filter(|p| p.extension().is_some_and(|x| x == "mmm")).collect();
        fs.sort();
        for f in fs {
            if let Ok(src) = std::fs::read_to_string(&f) {
                if src.contains("@swap-safe") {
                    v.push((f.file_name().unwrap().to_string_lossy().to_string(), src));
                }
            }
        }
    }
    v
}

pub fn run(args: &Args, out: &mut Out) {
    let progs = swap_safe_programs();
    // the enumerated family "every state word is audible" (every third member in the quick tier)
    let fam: Vec<Case> = super::progcase::family_cases().into_iter().enumerate().filter(|(i, _)| args.thorough() || i % 3 == (args.seed % 3) as usize).map(|(_, c)| c).collect();
    let ngen = args.cases(120, 4000) + progs.len();
    let seeded = main_seeded_programs();
    let total = ngen + fam.len() + seeded.len();
    let exec = exec_with(args);
    drive(
        args,
        out,
        total,
        |idx, rng| {
            if idx >= ngen + fam.len() {
                let (tag, src) = seeded.get(idx - ngen - fam.len())?.clone();
                return Some(Case {
                    src,
                    n: 12,
                    input_seed: rng.next(),
                    finite_inputs: true,
                    prog: None,
                    expect: None,
                    scheduler: false,
                    path: None,
                    origin: Some(format!("template:main-seeded/{tag}")),
                    split: None,
                });
            }
            if idx >= ngen {
                let mut c = fam.get(idx - ngen).cloned()?;
                c.input_seed = rng.next();
                return Some(c);
            }
            if idx < progs.len() {
                return Some(Case {
                    src: progs[idx].1.clone(),
                    n: 24,
                    input_seed: rng.next(),
                    finite_inputs: true,
                    prog: None,
                    expect: None,
                    scheduler: false,
                    path: None,
                    origin: Some(format!("corpus:{}", progs[idx].0)),
                    split: None,
                });
            }
            let mut c = gen_case(args, rng);
            // hostile dsp inputs (NaN, infinities, -0.0, subnormals) in every third case: state cells then hold them at swap time
            c.finite_inputs = !rng.chance(1, 3);
            Some(c)
        },
        exec,
    );
}

pub fn replay(args: &Args, out: &mut Out, case: &Value) {
    let exec = exec_with(args);
    replay_one::<Case>(out, case, exec);
}
