//! C13 — tokens and syntax tree are lossless over the source text.
//!
//! The real `parser::tokenize`, `parser::preparse` and `parser::parse_cst` are executed on
//! (a) every string over a lexeme table up to a length bound with every separator choice,
//! (b) every corpus file, all of its char-boundary prefixes/suffixes and token-level
//! mutations of it, (c) random Unicode-laden texts. A structural oracle looks at the
//! returned values only: token offsets, the trivia maps, the `GreenNode::Token` leaves.
//!
//! Clauses (signature prefix):
//!   tiling/…          tokens contiguous from 0 to len, in order, non-overlapping, on char
//!                     boundaries, final zero-width Eof at len, concatenation == input
//!   tiling-after-parse/… the same for the token vector handed back by `parse_cst`
//!   tree/…            the non-trivia tokens are exactly the token leaves, once, in order
//!   trivia/…          every trivia token is in exactly one trivia-map entry, and the
//!                     host of that entry is the adjacent non-trivia token (only for texts
//!                     with at least one non-trivia token)

use super::{drive, replay_one};
use crate::util::{Args, Out, Panic, Rng, catch, on_thread};
use mimium_lang::compiler::parser::green::GreenNode;
use mimium_lang::compiler::parser::{Token, TokenKind, parse_cst, preparse, tokenize};
use serde::{Deserialize, Serialize};
use serde_json::{Value, json};
use std::collections::{BTreeMap, BTreeSet};

// ---------------------------------------------------------------- lexeme tables

/// One or more lexemes per token kind, plus the pieces that only become tokens (or fail to)
/// in combination: unterminated strings/comments, float-vs-projection shapes, CR/CRLF,
/// characters outside the grammar, multi-byte characters.
const FULL: &[&str] = &[
    // identifiers / placeholder
    "a", "x1", "_", "_a",
    // keywords
    "fn", "macro", "self", "now", "samplerate", "let", "letrec", "if", "else", "match", "float", "int",
    "string", "struct", "include", "stage", "main", "mod", "use", "pub", "type", "alias", "rec",
    // numbers and the float/projection shapes
    "0", "12", "1.5", "0.0", "1.", ".5", "a.0.1", "1.2.3",
    // strings (terminated, empty, unterminated, with blank, multi-byte, spanning a line)
    "\"s\"", "\"\"", "\"", "\"a b\"", "\"é\"", "\"\n\"",
    // comments (terminated, unterminated, empty, at EOF, spanning a line)
    "//c", "//", "/*c*/", "/*", "*/", "/**/", "/*\n*/",
    // operators
    "->", "<-", "=>", "||>", "==", "!=", "<=", ">=", "&&", "||", "|>", "+", "-", "*", "/", "%", "^", "@",
    "<", ">", "=", "!",
    // punctuation
    "::", "..", ".", ",", ":", ";", "(", ")", "[", "]", "{", "}", "`", "$", "#", "|",
    // white space
    " ", "\t", "\n", "\r\n", "\r",
    // characters outside the grammar / multi-byte / odd line separators
    "§", "é", "~", "?", "\\", "'", "&", "\0", "\u{FEFF}", "\u{2028}", "𝄞", "\u{301}",
];

/// The lexemes whose neighbours decide how they are split, plus the structural tokens the
/// parser's recovery paths are built around.
const CORE: &[&str] = &[
    "a", "_", "fn", "let", "if", "else", "match", "0", "1.5", "a.0.1", ".", "..", "\"", "\"s\"", "/", "*", "//c",
    "/*", "*/", "\n", " ", "\r", ";", "-", ">", "<", "|", "=", "=>", "!", ":", ",", "(", ")", "{", "}", "[", "]",
    "`", "$", "#", "§",
];

/// Tokens the parser's decisions and recovery paths hinge on (always joined by one blank,
/// so that the token sequence is exactly the lexeme sequence).
const S1: &[&str] = &[
    "a", "0", "(", ")", "{", "}", "|", ",", "=", "=>", ":", ".", "+", "fn", "let", "if", "match", "_", "\n", "->",
];
const S2: &[&str] = &[
    "a", "0", "(", ")", "{", "}", "[", "]", "|", ",", "=", "=>", "->", ":", "::", ".", "..", "!", "`", "$", "+", "#",
    "_", "\n", "\"s\"", "fn", "let", "if", "else", "match", "type", "use", "mod", "pub", "stage", "main",
];

const SEPS: &[&str] = &["", " ", "\n"];

/// Extra material for random texts.
const UNI: &[&str] = &[
    "é", "∀", "𝄞", "\u{301}", "א", "\u{202E}", "\0", "\u{FEFF}", "\u{2028}", "\u{2029}", "\u{85}", "\u{B}",
    "\u{C}", "\r", "\r\n", "\u{A0}", "\u{3000}", "ａ", "١", "ß", "😀", "\u{200B}", "\u{1F468}\u{200D}\u{1F469}",
];

fn alphabet(name: &str) -> &'static [&'static str] {
    match name {
        "core" => CORE,
        "s1" => S1,
        "s2" => S2,
        _ => FULL,
    }
}

// ---------------------------------------------------------------- cases

#[derive(Clone, Debug, Serialize, Deserialize)]
pub enum Case {
    /// every string `prefix ++ w` over the alphabet with `len` lexemes in total, joined with
    /// every choice of separator from SEPS at each of the len-1 gaps (`seps` = "all"), with
    /// nothing ("glued") or with one blank ("blank")
    Exh { alpha: String, len: usize, prefix: Vec<usize>, seps: String },
    /// one explicit text
    Text { origin: String, text: String },
    /// prefixes `text[..c]` and suffixes `text[c..]` for every char boundary c (cuts = None)
    /// or for the listed byte offsets
    Cuts { origin: String, text: String, cuts: Option<Vec<usize>> },
    /// a block of explicit texts
    Block { origin: String, texts: Vec<String> },
}

// ---------------------------------------------------------------- observations

const NK: usize = 160;

struct Stats {
    texts: u64,
    bytes: u64,
    nontrivial_texts: u64,
    tokens: u64,
    trivia: u64,
    trivia_leading: u64,
    trivia_trailing: u64,
    trivia_only_texts: u64,
    texts_with_trivia_checked: u64,
    leaves: u64,
    trivia_leaves: u64,
    texts_parse_err: u64,
    texts_error_token: u64,
    projection_splits: u64,
    multibyte_texts: u64,
    panics: u64,
    kinds: [bool; NK],
    skinds: [bool; NK],
    kind_names: BTreeSet<String>,
    skind_names: BTreeSet<String>,
    err_forms: BTreeSet<String>,
    viol_counts: BTreeMap<String, u64>,
    viols: Vec<(String, String, String)>, // sig, detail, text
    panic_notes: Vec<String>,
    /// one concrete non-trivial member of an enumeration block (for the evidence samples)
    example: Option<String>,
}

impl Stats {
    fn new() -> Self {
        Stats {
            texts: 0,
            bytes: 0,
            nontrivial_texts: 0,
            tokens: 0,
            trivia: 0,
            trivia_leading: 0,
            trivia_trailing: 0,
            trivia_only_texts: 0,
            texts_with_trivia_checked: 0,
            leaves: 0,
            trivia_leaves: 0,
            texts_parse_err: 0,
            texts_error_token: 0,
            projection_splits: 0,
            multibyte_texts: 0,
            panics: 0,
            kinds: [false; NK],
            skinds: [false; NK],
            kind_names: BTreeSet::new(),
            skind_names: BTreeSet::new(),
            err_forms: BTreeSet::new(),
            viol_counts: BTreeMap::new(),
            viols: vec![],
            panic_notes: vec![],
            example: None,
        }
    }
    fn viol(&mut self, sig: String, detail: String, text: &str) {
        let n = self.viol_counts.entry(sig.clone()).or_insert(0);
        *n += 1;
        if *n <= 3 {
            self.viols.push((sig, detail, text.to_string()));
        }
    }
}

/// The oracle's own notion of trivia (independent of `Token::is_trivia`).
fn is_triv(k: TokenKind) -> bool {
    matches!(
        k,
        TokenKind::LineBreak | TokenKind::Whitespace | TokenKind::SingleLineComment | TokenKind::MultiLineComment
    )
}

fn show_tokens(toks: &[Token]) -> String {
    let mut s = String::new();
    for (i, t) in toks.iter().enumerate().take(40) {
        if i > 0 {
            s.push(' ');
        }
        s.push_str(&format!("{i}:{:?}@{}+{}", t.kind, t.start, t.length));
    }
    if toks.len() > 40 {
        s.push_str(&format!(" … ({} tokens)", toks.len()));
    }
    s
}

fn show_text(src: &str) -> String {
    let e = format!("{src:?}");
    if e.len() > 300 {
        let mut cut = 300;
        while !e.is_char_boundary(cut) {
            cut -= 1;
        }
        format!("{}… ({} bytes)", &e[..cut], src.len())
    } else {
        e
    }
}

/// First refuting tiling clause, if any.
fn tiling(src: &str, toks: &[Token]) -> Option<(&'static str, String)> {
    let n = src.len();
    let Some(last) = toks.last() else {
        return Some(("no-final-end-marker", "empty token sequence".into()));
    };
    if last.kind != TokenKind::Eof || last.start != n || last.length != 0 {
        return Some((
            "no-final-end-marker",
            format!("last token is {:?}@{}+{} (input length {n})", last.kind, last.start, last.length),
        ));
    }
    let body = &toks[..toks.len() - 1];
    let bytes = src.as_bytes();
    let mut concat: Vec<u8> = Vec::with_capacity(n);
    let mut pos = 0usize;
    for (i, t) in body.iter().enumerate() {
        if t.kind == TokenKind::Eof {
            return Some(("end-marker-before-end", format!("token {i} is Eof@{}+{}", t.start, t.length)));
        }
        let Some(end) = t.start.checked_add(t.length).filter(|e| *e <= n) else {
            return Some((
                "token-out-of-range",
                format!("token {i} {:?}@{}+{} exceeds input length {n}", t.kind, t.start, t.length),
            ));
        };
        if t.start > pos {
            return Some(("gap", format!("bytes {pos}..{} are covered by no token (next token {i} {:?})", t.start, t.kind)));
        }
        if t.start < pos {
            return Some((
                "overlap-or-out-of-order",
                format!("token {i} {:?}@{}+{} starts before the end {pos} of its predecessor", t.kind, t.start, t.length),
            ));
        }
        if !src.is_char_boundary(t.start) || !src.is_char_boundary(end) {
            return Some((
                "off-char-boundary",
                format!("token {i} {:?}@{}+{} is not on char boundaries", t.kind, t.start, t.length),
            ));
        }
        concat.extend_from_slice(&bytes[t.start..end]);
        pos = end;
    }
    if pos != n {
        return Some(("stops-short", format!("tokens end at byte {pos}, input has {n} bytes")));
    }
    if concat != bytes {
        return Some(("concat-differs", "concatenated token texts differ from the input".into()));
    }
    None
}

fn check_text(src: &str, st: &mut Stats) {
    st.texts += 1;
    st.bytes += src.len() as u64;
    if !src.is_ascii() {
        st.multibyte_texts += 1;
    }
    // ---- stage 1: tokenize
    let toks = match catch(|| tokenize(src)) {
        Ok(t) => t,
        Err(p) => return note_panic(st, "tokenize", &p, src),
    };
    if let Some((clause, d)) = tiling(src, &toks) {
        st.viol(format!("tiling/{clause}"), format!("text={} : {d}; tokens: {}", show_text(src), show_tokens(&toks)), src);
    }
    let n_tok = toks.iter().filter(|t| t.kind != TokenKind::Eof).count();
    st.tokens += n_tok as u64;
    for w in toks.windows(4) {
        // `.0.1` after a projection dot: Dot Int Dot Int, all adjacent
        if w[0].kind == TokenKind::Dot
            && w[1].kind == TokenKind::Int
            && w[2].kind == TokenKind::Dot
            && w[3].kind == TokenKind::Int
            && w[0].end() == w[1].start
            && w[1].end() == w[2].start
            && w[2].end() == w[3].start
        {
            st.projection_splits += 1;
        }
    }
    if toks.iter().any(|t| t.kind == TokenKind::Error) {
        st.texts_error_token += 1;
    }
    // ---- stage 2: preparse
    let pre = match catch(|| preparse(&toks)) {
        Ok(p) => p,
        Err(p) => return note_panic(st, "preparse", &p, src),
    };
    let nontriv: Vec<usize> =
        toks.iter().enumerate().filter(|(_, t)| !is_triv(t.kind) && t.kind != TokenKind::Eof).map(|(i, _)| i).collect();
    let n_triv = toks.iter().filter(|t| is_triv(t.kind)).count();
    st.trivia += n_triv as u64;
    if nontriv.is_empty() {
        if n_triv > 0 {
            st.trivia_only_texts += 1;
        }
    } else if n_triv > 0 {
        st.texts_with_trivia_checked += 1;
        let mut cnt = vec![0u32; toks.len()];
        let mut bad_host: Option<(usize, String)> = None;
        for (leading, map) in [(true, &pre.leading_trivia_map), (false, &pre.trailing_trivia_map)] {
            for (k, list) in map.iter() {
                let host = pre.token_indices.get(*k).copied();
                for &i in list {
                    if i >= toks.len() || !is_triv(toks[i].kind) {
                        continue; // not a trivia token: outside this clause
                    }
                    cnt[i] += 1;
                    if leading {
                        st.trivia_leading += 1;
                    } else {
                        st.trivia_trailing += 1;
                    }
                    let ok = match host {
                        None => false,
                        Some(h) if h >= toks.len() || is_triv(toks[h].kind) || toks[h].kind == TokenKind::Eof => false,
                        Some(h) if leading => h > i && (i + 1..h).all(|j| is_triv(toks[j].kind)),
                        Some(h) => h < i && (h + 1..i).all(|j| is_triv(toks[j].kind)),
                    };
                    if !ok && bad_host.is_none() {
                        bad_host = Some((
                            i,
                            format!(
                                "trivia token {i} is {} trivia of syntax token #{k} (raw index {host:?})",
                                if leading { "leading" } else { "trailing" }
                            ),
                        ));
                    }
                }
            }
        }
        let first_nt = nontriv[0];
        let last_nt = *nontriv.last().unwrap();
        // last line break in front of the first syntax token
        let last_lb_before_first = (0..first_nt).rev().find(|&j| toks[j].kind == TokenKind::LineBreak);
        let mut reported: BTreeSet<&'static str> = BTreeSet::new();
        for i in 0..toks.len() {
            if !is_triv(toks[i].kind) {
                continue;
            }
            if cnt[i] == 0 {
                let class = if i < first_nt {
                    if last_lb_before_first.is_some_and(|lb| i <= lb) {
                        "before-first-token-up-to-line-break"
                    } else {
                        "before-first-token"
                    }
                } else if i > last_nt {
                    "after-last-token"
                } else {
                    "between-tokens"
                };
                if reported.insert(class) {
                    st.viol(
                        format!("trivia/attached-to-no-token/{class}"),
                        format!(
                            "text={} : trivia token {i} {:?}@{}+{} occurs in no leading/trailing entry; tokens: {}; leading={:?} trailing={:?}",
                            show_text(src),
                            toks[i].kind,
                            toks[i].start,
                            toks[i].length,
                            show_tokens(&toks),
                            sorted(&pre.leading_trivia_map),
                            sorted(&pre.trailing_trivia_map)
                        ),
                        src,
                    );
                }
            } else if cnt[i] > 1 && reported.insert("multi") {
                st.viol(
                    "trivia/attached-more-than-once".into(),
                    format!(
                        "text={} : trivia token {i} {:?} occurs {} times; tokens: {}; leading={:?} trailing={:?}",
                        show_text(src),
                        toks[i].kind,
                        cnt[i],
                        show_tokens(&toks),
                        sorted(&pre.leading_trivia_map),
                        sorted(&pre.trailing_trivia_map)
                    ),
                    src,
                );
            }
        }
        if let Some((_, d)) = bad_host {
            st.viol(
                "trivia/host-is-not-the-neighbouring-token".into(),
                format!(
                    "text={} : {d}; tokens: {}; token_indices={:?} leading={:?} trailing={:?}",
                    show_text(src),
                    show_tokens(&toks),
                    &pre.token_indices[..pre.token_indices.len().min(40)],
                    sorted(&pre.leading_trivia_map),
                    sorted(&pre.trailing_trivia_map)
                ),
                src,
            );
        }
    }
    // ---- stage 3: parse_cst
    let toks_in = toks.clone();
    let (root, arena, toks2, errs) = match catch(|| parse_cst(toks_in, &pre)) {
        Ok(r) => r,
        Err(p) => return note_panic(st, "parse_cst", &p, src),
    };
    let same_layout =
        toks2.len() == toks.len() && toks.iter().zip(toks2.iter()).all(|(a, b)| a.start == b.start && a.length == b.length);
    if !same_layout && let Some((clause, d)) = tiling(src, &toks2) {
        st.viol(
            format!("tiling-after-parse/{clause}"),
            format!("text={} : {d}; tokens returned by parse_cst: {}", show_text(src), show_tokens(&toks2)),
            src,
        );
    }
    for t in toks2.iter() {
        let k = t.kind as usize;
        if k < NK && !st.kinds[k] {
            st.kinds[k] = true;
            st.kind_names.insert(format!("{:?}", t.kind));
        }
    }
    if !errs.is_empty() {
        st.texts_parse_err += 1;
        if st.err_forms.len() < 400 {
            st.err_forms.insert(errs[0].to_string());
        }
    }
    // token leaves in document order (explicit stack: no recursion in the oracle)
    let expect: Vec<usize> =
        toks2.iter().enumerate().filter(|(_, t)| !is_triv(t.kind) && t.kind != TokenKind::Eof).map(|(i, _)| i).collect();
    let mut seq: Vec<usize> = Vec::with_capacity(expect.len());
    let mut stack = vec![root];
    let mut foreign: Option<usize> = None;
    while let Some(id) = stack.pop() {
        match arena.get(id) {
            GreenNode::Token { token_index, .. } => {
                st.leaves += 1;
                match toks2.get(*token_index) {
                    None => foreign = foreign.or(Some(*token_index)),
                    Some(t) if is_triv(t.kind) || t.kind == TokenKind::Eof => st.trivia_leaves += 1,
                    Some(_) => seq.push(*token_index),
                }
            }
            GreenNode::Internal { kind, children, .. } => {
                let k = *kind as usize;
                if k < NK && !st.skinds[k] {
                    st.skinds[k] = true;
                    st.skind_names.insert(format!("{kind:?}"));
                }
                for c in children.iter().rev() {
                    stack.push(*c);
                }
            }
        }
    }
    let tag = if errs.is_empty() { "error-free-parse" } else { "error-recovery" };
    if let Some(ti) = foreign {
        st.viol(
            format!("tree/leaf-is-not-a-token/{tag}"),
            format!("text={} : a token leaf has index {ti}, the token vector has {} entries", show_text(src), toks2.len()),
            src,
        );
    }
    if seq != expect {
        let mut seen = vec![0u32; toks2.len()];
        for &i in &seq {
            seen[i] += 1;
        }
        let missing: Vec<usize> = expect.iter().copied().filter(|&i| seen[i] == 0).collect();
        let dup: Vec<usize> = expect.iter().copied().filter(|&i| seen[i] > 1).collect();
        let clause = if !missing.is_empty() {
            "token-missing"
        } else if !dup.is_empty() {
            "token-duplicated"
        } else {
            "out-of-order"
        };
        let show = |v: &[usize]| {
            v.iter().take(8).map(|&i| format!("{i}:{:?} {:?}", toks2[i].kind, &src.get(toks2[i].start..toks2[i].end()).unwrap_or("?"))).collect::<Vec<_>>().join(", ")
        };
        st.viol(
            format!("tree/{clause}/{tag}"),
            format!(
                "text={} : leaves={:?} expected={:?} missing=[{}] duplicated=[{}]; first parser error: {}; tokens: {}",
                show_text(src),
                &seq[..seq.len().min(40)],
                &expect[..expect.len().min(40)],
                show(&missing),
                show(&dup),
                errs.first().map(|e| e.to_string()).unwrap_or_else(|| "none".into()),
                show_tokens(&toks2)
            ),
            src,
        );
    }
    if n_tok >= 2 && !nontriv.is_empty() {
        st.nontrivial_texts += 1;
        if st.example.is_none() && n_triv > 0 && !errs.is_empty() && st.texts % 97 == 3 {
            st.example = Some(src.to_string());
        }
    }
}

fn sorted(m: &std::collections::HashMap<usize, Vec<usize>>) -> Vec<(usize, Vec<usize>)> {
    let mut v: Vec<_> = m.iter().map(|(k, l)| (*k, l.clone())).collect();
    v.sort();
    v.truncate(20);
    v
}

/// A panic of the code under test leaves the oracle without anything to look at: the text
/// is counted as undecided (totality is property C04's business), never as a violation.
fn note_panic(st: &mut Stats, stage: &str, p: &Panic, src: &str) {
    st.panics += 1;
    if st.panic_notes.len() < 3 {
        st.panic_notes.push(format!("{stage} panicked ({}) on {}", p.sig(), show_text(src)));
    }
}

// ---------------------------------------------------------------- executing a case

fn run_exh(alpha: &str, len: usize, prefix: &[usize], seps: &str, st: &mut Stats) {
    let al = alphabet(alpha);
    if len == 0 || prefix.len() > len || prefix.iter().any(|&i| i >= al.len()) {
        return;
    }
    let free = len - prefix.len();
    let gaps = len - 1;
    let (nsep, sep_base) = match seps {
        "all" => (SEPS.len(), 0),
        "blank" => (1, 1),
        _ => (1, 0),
    };
    let mut word: Vec<usize> = prefix.to_vec();
    word.resize(len, 0);
    let mut sepc = vec![0usize; gaps];
    let mut text = String::new();
    loop {
        // all separator choices for this word
        for s in sepc.iter_mut() {
            *s = 0;
        }
        loop {
            text.clear();
            for (i, &w) in word.iter().enumerate() {
                if i > 0 {
                    text.push_str(SEPS[sep_base + sepc[i - 1]]);
                }
                text.push_str(al[w]);
            }
            check_text(&text, st);
            // next separator vector
            let mut g = 0;
            while g < gaps {
                sepc[g] += 1;
                if sepc[g] < nsep {
                    break;
                }
                sepc[g] = 0;
                g += 1;
            }
            if g == gaps {
                break;
            }
        }
        // next word (only the free positions move)
        let mut p = len;
        let mut carried = true;
        while p > len - free {
            p -= 1;
            word[p] += 1;
            if word[p] < al.len() {
                carried = false;
                break;
            }
            word[p] = 0;
        }
        if carried {
            break;
        }
    }
}

fn run_case(c: &Case) -> Stats {
    let mut st = Stats::new();
    match c {
        Case::Exh { alpha, len, prefix, seps } => run_exh(alpha, *len, prefix, seps, &mut st),
        Case::Text { text, .. } => check_text(text, &mut st),
        Case::Cuts { text, cuts, .. } => {
            let all: Vec<usize>;
            let cs: &[usize] = match cuts {
                Some(v) => v,
                None => {
                    all = (0..=text.len()).filter(|&i| text.is_char_boundary(i)).collect();
                    &all
                }
            };
            for &cut in cs {
                if cut <= text.len() && text.is_char_boundary(cut) {
                    check_text(&text[..cut], &mut st);
                    check_text(&text[cut..], &mut st);
                }
            }
        }
        Case::Block { texts, .. } => {
            for t in texts {
                check_text(t, &mut st);
            }
        }
    }
    st
}

fn exec(c: &Case, idx: usize, out: &mut Out) -> bool {
    let cc = c.clone();
    // deep nesting in mutated/random texts must not take the worker down: big stack
    let st = match on_thread(512 << 20, move || run_case(&cc)) {
        Ok(st) => st,
        Err(p) => {
            out.inconclusive(idx, &format!("oracle thread failed: {} @ {}", p.msg, p.loc));
            return false;
        }
    };
    let origin = match c {
        Case::Exh { alpha, len, seps, .. } => format!("exhaustive:{alpha}^{len}:{seps}"),
        Case::Text { origin, .. } | Case::Cuts { origin, .. } | Case::Block { origin, .. } => {
            origin.split(':').next().unwrap_or("").to_string()
        }
    };
    out.set("workload_parts", origin.clone());
    out.count("texts_checked", st.texts);
    out.count(&format!("texts_checked[{origin}]"), st.texts);
    out.count("bytes_checked", st.bytes);
    out.count("texts_nontrivial", st.nontrivial_texts);
    out.count("tokens_checked_for_tiling", st.tokens);
    out.count("trivia_tokens_seen", st.trivia);
    out.count("trivia_attached_leading", st.trivia_leading);
    out.count("trivia_attached_trailing", st.trivia_trailing);
    out.count("texts_with_trivia_attachment_checked", st.texts_with_trivia_checked);
    out.count("texts_trivia_only_(attachment_not_applicable)", st.trivia_only_texts);
    out.count("tree_token_leaves_checked", st.leaves);
    out.count("tree_trivia_leaves_seen", st.trivia_leaves);
    out.count("texts_with_parser_errors_(recovery_paths)", st.texts_parse_err);
    out.count("texts_with_error_tokens", st.texts_error_token);
    out.count("projection_float_splits_seen", st.projection_splits);
    out.count("texts_with_multibyte_chars", st.multibyte_texts);
    out.count("texts_undecided_(code_under_test_panicked)", st.panics);
    for k in &st.kind_names {
        out.set("token_kinds_seen", k.clone());
    }
    for k in &st.skind_names {
        out.set("syntax_kinds_seen", k.clone());
    }
    for e in &st.err_forms {
        out.set("first_parser_error_forms", e.clone());
    }
    for (sig, n) in &st.viol_counts {
        out.count(&format!("violating_texts:{sig}"), *n);
    }
    for (sig, detail, text) in &st.viols {
        let key = format!("reported:{sig}");
        let n = out.counters.get(&key).copied().unwrap_or(0);
        if n < 6 {
            out.count(&key, 1);
            let tc = Case::Text { origin: format!("witness-from:{origin}"), text: text.clone() };
            out.violation(idx, sig, detail, &serde_json::to_value(&tc).unwrap());
        }
    }
    if let (Case::Exh { .. }, Some(t)) = (c, &st.example) {
        // a concrete member of the block next to the block descriptor itself
        out.sample(&json!({"Text": {"origin": format!("member-of:{origin}"), "text": t}}));
    }
    if st.panics > 0 {
        out.inconclusive(idx, &format!("{} text(s) undecided: {}", st.panics, st.panic_notes.join(" | ")));
    }
    st.nontrivial_texts > 0
}

// ---------------------------------------------------------------- workload

fn corpus(repo: &str) -> Vec<(String, String)> {
    let dirs = ["lib", "examples", "crates/lib/mimium-test/tests/mmm", "crates/bin/mimium-fmt/tests"];
    let mut files = vec![];
    for d in dirs {
        let p = std::path::Path::new(repo).join(d);
        let Ok(rd) = std::fs::read_dir(&p) else { continue };
        let mut names: Vec<_> =
            rd.filter_map(|e| e.ok()).map(|e| e.path()).filter(|p| p.extension().is_some_and(|x| x == "mmm")).collect();
        names.sort();
        for n in names {
            if let Ok(t) = std::fs::read_to_string(&n) {
                let rel = n.strip_prefix(repo).unwrap_or(&n).to_string_lossy().trim_start_matches('/').to_string();
                files.push((rel, t));
            }
        }
    }
    files
}

fn char_boundaries(t: &str) -> Vec<usize> {
    (0..=t.len()).filter(|&i| t.is_char_boundary(i)).collect()
}

fn pk(rng: &mut Rng, xs: &[&'static str]) -> &'static str {
    xs[rng.below(xs.len())]
}

const BRACKETS: &[&str] = &["(", ")", "[", "]", "{", "}", "|", "`"];
const TRIVIA_INS: &[&str] = &["/*c*/", "//c\n", " ", "\n", "\r\n", "\t", "/* a\n b */", "//\n", ";", "\r"];
const OPEN_ENDED: &[&str] = &["\"", "/*", "//", "/", "*/", "1.", ".", "a.0.1", ".0.1", "1.2.3"];

/// 1–3 token-level mutations of `text`; boundaries come from the tokenizer itself (a
/// generator aid only — the oracle never trusts them).
fn mutate(rng: &mut Rng, text: &str) -> (String, String) {
    let mut cur = text.to_string();
    let mut names = vec![];
    let n = 1 + rng.below(3);
    for _ in 0..n {
        let toks: Vec<(usize, usize, TokenKind)> = match catch(|| tokenize(&cur)) {
            Ok(t) => t
                .iter()
                .filter(|t| t.kind != TokenKind::Eof && t.end() <= cur.len() && cur.is_char_boundary(t.start) && cur.is_char_boundary(t.end()))
                .map(|t| (t.start, t.end(), t.kind))
                .collect(),
            Err(_) => vec![],
        };
        let bounds = char_boundaries(&cur);
        let tb = |rng: &mut Rng| -> usize {
            if toks.is_empty() { *rng.pick(&bounds) } else { rng.pick(&toks).0 }
        };
        let which = rng.below(12);
        match which {
            0 if !toks.is_empty() => {
                let (s, e, _) = *rng.pick(&toks);
                cur.replace_range(s..e, "");
                names.push("delete-token");
            }
            1 if !toks.is_empty() => {
                let (s, e, _) = *rng.pick(&toks);
                let piece = cur[s..e].to_string();
                cur.insert_str(e, &piece);
                names.push("duplicate-token");
            }
            2 if toks.len() >= 2 => {
                let i = rng.below(toks.len() - 1);
                let (s1, e1, _) = toks[i];
                let (s2, e2, _) = toks[i + 1];
                let a = cur[s1..e1].to_string();
                let b = cur[s2..e2].to_string();
                cur.replace_range(s1..e2, &format!("{b}{a}"));
                names.push("swap-adjacent-tokens");
            }
            3 => {
                let br: Vec<_> = toks.iter().filter(|t| BRACKETS.contains(&&cur[t.0..t.1])).collect();
                if let Some(&&(s, e, _)) = (!br.is_empty()).then(|| rng.pick(&br)) {
                    cur.replace_range(s..e, pk(rng, BRACKETS));
                    names.push("bracket-scramble");
                }
            }
            4 => {
                let p = *rng.pick(&bounds);
                cur.insert_str(p, pk(rng, UNI));
                names.push("unicode-insert");
            }
            5 => {
                let p = tb(rng);
                cur.insert_str(p, pk(rng, TRIVIA_INS));
                names.push("trivia-insert");
            }
            6 => {
                cur = cur.replace("\r\n", "\n").replace('\n', "\r\n");
                names.push("crlf");
            }
            7 => {
                let p = *rng.pick(&bounds);
                cur.truncate(p);
                cur.push_str(pk(rng, OPEN_ENDED));
                names.push("truncate+open-ended");
            }
            8 => {
                let p = tb(rng);
                cur.insert_str(p, pk(rng, FULL));
                names.push("lexeme-insert");
            }
            9 => {
                let p = tb(rng);
                cur.insert_str(p, pk(rng, OPEN_ENDED));
                names.push("open-ended-insert");
            }
            10 => {
                // strip all white space between two tokens somewhere
                let ws: Vec<_> = toks.iter().filter(|t| matches!(t.2, TokenKind::Whitespace | TokenKind::LineBreak)).collect();
                if let Some(&&(s, e, _)) = (!ws.is_empty()).then(|| rng.pick(&ws)) {
                    cur.replace_range(s..e, "");
                    names.push("glue-tokens");
                }
            }
            _ => {
                // numeric literal substitution
                let nums: Vec<_> = toks.iter().filter(|t| matches!(t.2, TokenKind::Int | TokenKind::Float)).collect();
                if let Some(&&(s, e, _)) = (!nums.is_empty()).then(|| rng.pick(&nums)) {
                    cur.replace_range(s..e, pk(rng, &["0", "1.", ".5", "1.2.3", "00", "1.5", "3.0.0", "a.0.1"]));
                    names.push("number-substitution");
                }
            }
        }
    }
    (cur, names.join("+"))
}

fn random_text(rng: &mut Rng) -> String {
    let n = 1 + rng.below(14);
    let mut s = String::new();
    for _ in 0..n {
        match rng.below(10) {
            0..=4 => s.push_str(pk(rng, FULL)),
            5..=6 => s.push_str(pk(rng, UNI)),
            7 => s.push_str(pk(rng, OPEN_ENDED)),
            8 => {
                // arbitrary scalar value
                let c = loop {
                    let v = match rng.below(4) {
                        0 => rng.below(0x80) as u32,
                        1 => rng.below(0x800) as u32,
                        2 => rng.below(0x10000) as u32,
                        _ => rng.below(0x110000) as u32,
                    };
                    if let Some(c) = char::from_u32(v) {
                        break c;
                    }
                };
                s.push(c);
            }
            _ => s.push_str(pk(rng, TRIVIA_INS)),
        }
        if rng.chance(1, 3) {
            s.push_str(pk(rng, SEPS));
        }
    }
    s
}

struct Plan {
    /// (alphabet, len, prefix length, separator mode)
    exh: Vec<(&'static str, usize, usize, &'static str)>,
    muts_per_file: usize,
    /// None = every char boundary; Some(n) = n random cut points per file
    cuts_per_file: Option<usize>,
    rand_blocks: usize,
    rand_block_size: usize,
}

fn plan(args: &Args) -> Plan {
    if args.thorough() {
        Plan {
            exh: vec![
                ("full", 1, 0, "all"),
                ("full", 2, 0, "all"),
                ("full", 3, 1, "all"),
                ("full", 4, 1, "glued"),
                ("core", 4, 2, "all"),
                ("s1", 6, 2, "blank"),
                ("s2", 5, 2, "blank"),
            ],
            muts_per_file: 40,
            cuts_per_file: None,
            rand_blocks: 3000,
            rand_block_size: 200,
        }
    } else {
        Plan {
            exh: vec![
                ("full", 1, 0, "all"),
                ("full", 2, 0, "all"),
                ("full", 3, 1, "all"),
                ("s1", 5, 2, "blank"),
                ("s2", 4, 2, "blank"),
            ],
            muts_per_file: 8,
            cuts_per_file: Some(48),
            rand_blocks: 400,
            rand_block_size: 100,
        }
    }
}

fn pow(b: usize, e: usize) -> usize {
    (0..e).fold(1, |a, _| a * b)
}

/// The enumerated part as a flat list of (alphabet, len, prefix, seps) cases.
fn exh_cases(p: &Plan) -> Vec<Case> {
    let mut v = vec![];
    for &(alpha, len, plen, seps) in &p.exh {
        let al = alphabet(alpha);
        for code in 0..pow(al.len(), plen) {
            let mut prefix = vec![0usize; plen];
            let mut c = code;
            for k in (0..plen).rev() {
                prefix[k] = c % al.len();
                c /= al.len();
            }
            v.push(Case::Exh { alpha: alpha.to_string(), len, prefix, seps: seps.to_string() });
        }
    }
    v
}

fn exh_rule(p: &Plan) -> String {
    p.exh
        .iter()
        .map(|&(alpha, len, _, seps)| {
            let n = alphabet(alpha).len();
            let s = if seps == "all" { pow(SEPS.len(), len - 1) } else { 1 };
            format!(
                "{alpha}^{len} ({n} lexemes, separators: {}, {} texts)",
                if seps == "all" { format!("all {}^{} choices", SEPS.len(), len - 1) } else { seps.to_string() },
                pow(n, len) * s
            )
        })
        .collect::<Vec<_>>()
        .join("; ")
}

pub fn meta(args: &Args) -> Value {
    let p = plan(args);
    json!({
        "level": "exploration",
        "rule": format!(
            "(a) exhaustive: every string of lexemes from the tables in c13.rs (full = one or more lexemes per token kind incl. unterminated string/comment, `//` at EOF, CR/CRLF/tab, float-vs-projection shapes `a.0.1` `1.2.3` `1.` `.5`, non-grammar and multi-byte chars; core = the split-sensitive and structural subset; s1/s2 = the tokens the parser's decisions and recovery paths hinge on, joined by one blank), separators from {{\"\", \" \", \"\\n\"}} at every gap: {}; one case = one block of that enumeration (fixed prefix). (b) every file of the repository's corpus (lib, examples, mimium-test/tests/mmm, mimium-fmt/tests) whole; its prefixes and suffixes at {} ; {} token-level mutants per file (delete/duplicate/swap token, bracket scramble, unicode/trivia/lexeme insertion, CRLF, truncation into an open string/comment/number, glue tokens, number substitution). (c) {} blocks of {} random texts (lexemes, Unicode specials, arbitrary scalar values). A text is non-trivial if it has >= 2 tokens before the end marker of which >= 1 is not trivia; a case is non-trivial if it contains such a text. Distinctness = hash of the case (enumeration block or the texts themselves). A text on which the code under test panics is counted as undecided (C04's subject), never as a violation.",
            exh_rule(&p),
            match p.cuts_per_file { None => "every char boundary".to_string(), Some(n) => format!("{n} random char boundaries per file") },
            p.muts_per_file, p.rand_blocks, p.rand_block_size),
        "assumptions": [
            "trivia = LineBreak | Whitespace | SingleLineComment | MultiLineComment (the oracle's own list; `;` is lexed as LineBreak and therefore trivia)",
            "\"neighbouring\" = only trivia tokens lie between the trivia token and the syntax token whose map entry holds it",
            "trivia attachment is only asserted for texts with at least one non-trivia token",
            "token leaves that refer to trivia tokens are tolerated (counted), the tree clause is about non-trivia tokens",
            "the token vector returned by parse_cst (kinds re-annotated) is the one the leaves index; it must have the layout of tokenize's",
        ],
        "floor": {"quick": 2500, "thorough": 8000},
        "exhaustive": true,
        "case_timeout_s": 300,
        "hang_is_violation": false,
    })
}

pub fn run(args: &Args, out: &mut Out) {
    let p = plan(args);
    let exh = exh_cases(&p);
    let files = corpus(&args.repo);
    let n_exh = exh.len();
    let per_file = 2 + p.muts_per_file;
    let n_corpus = files.len() * per_file;
    let total_all = n_exh + n_corpus + p.rand_blocks;
    let total = args.budget.map(|b| b.min(total_all)).unwrap_or(total_all);
    out.max_samples = 2;
    if files.is_empty() && args.shard == 0 {
        out.inconclusive(0, &format!("no corpus files found under {}", args.repo));
    }
    if args.shard == 0 {
        out.count("corpus_files", files.len() as u64);
        out.count("lexemes_full", FULL.len() as u64);
        out.count("lexemes_core", CORE.len() as u64);
    }
    let rbs = p.rand_block_size;
    drive(
        args,
        out,
        total,
        |idx, rng| {
            if idx < n_exh {
                return Some(exh[idx].clone());
            }
            let j = idx - n_exh;
            if j < n_corpus {
                let (name, text) = &files[j / per_file];
                return Some(match j % per_file {
                    0 => Case::Text { origin: format!("corpus:{name}"), text: text.clone() },
                    1 => {
                        let cuts = p.cuts_per_file.map(|n| {
                            let b = char_boundaries(text);
                            let mut v: Vec<usize> = (0..n).map(|_| *rng.pick(&b)).collect();
                            v.sort();
                            v.dedup();
                            v
                        });
                        Case::Cuts { origin: format!("corpus-cuts:{name}"), text: text.clone(), cuts }
                    }
                    _ => {
                        let (t, how) = mutate(rng, text);
                        Case::Text { origin: format!("corpus-mutant:{name}:{how}"), text: t }
                    }
                });
            }
            Some(Case::Block { origin: "random".into(), texts: (0..rbs).map(|_| random_text(rng)).collect() })
        },
        exec,
    );
}

pub fn replay(_args: &Args, out: &mut Out, case: &Value) {
    replay_one::<Case>(out, case, exec);
}
