//! C10 — macro expansion respects lexical scope across stages (hygiene).
//!
//! Metamorphic oracle over executions of the real compiler and both runtimes: every case
//! is a *pair* of complete programs that differ ONLY in the name of the binders inside
//! the quoted code of their macro definitions (consistent alpha-renaming, bound
//! occurrences included). In the `colliding` member the macro binder has the same name
//! as something the macro user wrote (a local, a global, a function, a builtin, a name
//! that looks compiler-generated); in the `renamed` member it has a fresh name. Both are
//! compiled and run on the VM and on WASM; accept/reject and every output bit must agree
//! per back end. The generator also knows the value the program has under lexical
//! scoping (hand expansion of its own templates: every template is linear in the spliced
//! value), which says which member of a differing pair is the wrong one and catches the
//! case where both members are wrong in the same way.
//!
//! Templates are tagged (binder form x position of the splice relative to the binder x
//! direction x name source); the tag's class is part of the violation signature, so every
//! (capturing binder form, scope relation, direction) class that fails on the unchanged
//! tree is one known finding and a failure in any other class is a violation.

use super::{drive, replay_one};
use crate::run::{Backend, RunError, run_program};
use crate::util::{Args, Out, Rng, bits_eq, on_thread};
use serde::{Deserialize, Serialize};
use serde_json::{Value, json};

// ------------------------------------------------------------------ case

#[derive(Clone, Debug, Serialize, Deserialize)]
pub struct HCase {
    /// macro binders named like the user's name
    pub colliding: String,
    /// the same program with the macro binders (and their bound occurrences) renamed
    pub renamed: String,
    /// value of every output sample under lexical scoping (hand expansion)
    pub expected: f64,
    pub n: usize,
    /// `<capturing binder form>/<scope relation>/<direction>`: class tag of the signature
    pub class: String,
    /// descriptive tags (evidence only)
    #[serde(default)]
    pub tags: Tags,
}

#[derive(Clone, Debug, Default, Serialize, Deserialize)]
pub struct Tags {
    pub form: String,
    pub position: String,
    pub direction: String,
    pub name_source: String,
    pub name: String,
    pub user_entity: String,
    #[serde(default)]
    pub wrapper: String,
    #[serde(default)]
    pub via: String,
    #[serde(default)]
    pub site: String,
    #[serde(default)]
    pub macros: usize,
    #[serde(default)]
    pub arg_nodes: usize,
}

// ------------------------------------------------------------------ template vocabulary

#[derive(Clone, Copy, Debug, PartialEq, Eq)]
enum Form {
    Let,
    TupleLet,
    NestedTupleLet,
    LetOverNested,
    Lambda,
    Lambda2,
    LetRec,
    Match,
}
const FORMS: [Form; 8] =
    [Form::Let, Form::TupleLet, Form::NestedTupleLet, Form::LetOverNested, Form::Lambda, Form::Lambda2, Form::LetRec, Form::Match];

impl Form {
    fn tag(self) -> &'static str {
        match self {
            Form::Let => "let",
            Form::TupleLet => "tuple-let",
            Form::NestedTupleLet => "nested-tuple-let",
            Form::LetOverNested => "let+nested-tuple-let",
            Form::Lambda => "lambda-parameter",
            Form::Lambda2 => "lambda2-parameter",
            Form::LetRec => "letrec",
            Form::Match => "match-variable",
        }
    }
    fn positions(self) -> &'static [Pos] {
        use Pos::*;
        match self {
            Form::LetOverNested => &[Body, Value, After, Unrelated],
            Form::Match => &[Body, Value, Before, Unrelated],
            _ => &[Body, Value, Before, After, Surrounding, Unrelated],
        }
    }
    /// binder forms whose scope is closed by the end of a block (not by a function body)
    fn leaky(self) -> bool {
        !matches!(self, Form::Lambda | Form::Lambda2 | Form::Match)
    }
    fn shapes(self) -> usize {
        match self {
            Form::TupleLet => 3,
            Form::NestedTupleLet => 4,
            // shape bit 0: the quoted block starts with an expression statement, the binder follows;
            // shape bit 1: the binder sits in a block whose value is a lambda (applied at once)
            Form::Let => 4,
            _ => 1,
        }
    }
}

/// where the splice sits relative to the macro binder (down) / the user's binder (up)
#[derive(Clone, Copy, Debug, PartialEq, Eq)]
enum Pos {
    /// in the body the binder scopes over ("around a splice")
    Body,
    /// in the expression the binder is bound to (in scope only for letrec)
    Value,
    /// after a block / call that contains the binder has been closed ("next to a splice")
    Before,
    /// in front of the binder ("next to a splice", other side)
    After,
    /// the user's name is used in the code after the expansion, not in the spliced code
    Surrounding,
    /// control: nothing the user wrote has the binder's name
    Unrelated,
}
impl Pos {
    fn tag(self) -> &'static str {
        match self {
            Pos::Body => "splice-in-binder-body",
            Pos::Value => "splice-in-bound-expression",
            Pos::Before => "splice-after-closed-binder-block",
            Pos::After => "splice-before-binder",
            Pos::Surrounding => "code-after-the-expansion",
            Pos::Unrelated => "no-user-name-involved",
        }
    }
}
/// scope relation between the binder and the name it could capture: part of the signature
fn relation(form: Form, pos: Pos) -> &'static str {
    match (form, pos) {
        (_, Pos::Body) | (Form::LetRec, Pos::Value) => "in-scope",
        (_, Pos::Value) => "bound-expression",
        (_, Pos::Before) => "after-binder-block",
        (_, Pos::After) => "before-binder",
        (_, Pos::Surrounding) => "after-expansion",
        (_, Pos::Unrelated) => "no-user-name",
    }
}

#[derive(Clone, Copy, Debug, PartialEq, Eq)]
enum NameSrc {
    User,
    Builtin,
    Dt0,
    DtOther,
    LambdaLike,
}
impl NameSrc {
    fn tag(self) -> &'static str {
        match self {
            NameSrc::User => "user-name",
            NameSrc::Builtin => "builtin-name",
            NameSrc::Dt0 => "desugar-temporary-__dt0",
            NameSrc::DtOther => "desugar-temporary-like",
            NameSrc::LambdaLike => "compiler-function-name-like",
        }
    }
    fn pick(self, rng: &mut Rng) -> &'static str {
        match self {
            NameSrc::User => *rng.pick(&["t", "x", "acc", "gain", "tmp", "v0", "amount", "idx", "level", "kk"]),
            NameSrc::Builtin => *rng.pick(&["sqrt", "abs", "floor", "ceil"]),
            NameSrc::Dt0 => "__dt0",
            NameSrc::DtOther => *rng.pick(&["__dt1", "__dt2", "__dt9"]),
            NameSrc::LambdaLike => *rng.pick(&["lambda_0", "lambda_1", "lambda_2", "__default_1_x", "record_update_temp", "_mimium_global_"]),
        }
    }
}

/// what the user's name denotes
#[derive(Clone, Copy, Debug, PartialEq, Eq)]
enum UKind {
    Local,
    GlobalLet,
    GlobalFn,
    BuiltinFn,
}
impl UKind {
    fn tag(self) -> &'static str {
        match self {
            UKind::Local => "local-variable",
            UKind::GlobalLet => "global-variable",
            UKind::GlobalFn => "global-function",
            UKind::BuiltinFn => "builtin-function",
        }
    }
}
const DOWN_SOURCES: [(NameSrc, UKind); 9] = [
    (NameSrc::User, UKind::Local),
    (NameSrc::User, UKind::GlobalLet),
    (NameSrc::User, UKind::GlobalFn),
    (NameSrc::Builtin, UKind::BuiltinFn),
    (NameSrc::Builtin, UKind::Local),
    (NameSrc::Dt0, UKind::Local),
    (NameSrc::DtOther, UKind::Local),
    (NameSrc::LambdaLike, UKind::Local),
    (NameSrc::LambdaLike, UKind::GlobalFn),
];
const UP_SOURCES: [NameSrc; 5] = [NameSrc::User, NameSrc::Builtin, NameSrc::Dt0, NameSrc::DtOther, NameSrc::LambdaLike];

#[derive(Clone, Copy, Debug, PartialEq, Eq)]
enum UForm {
    Let,
    Lambda,
}
impl UForm {
    fn tag(self) -> &'static str {
        match self {
            UForm::Let => "let",
            UForm::Lambda => "lambda-parameter",
        }
    }
    fn as_form(self) -> Form {
        match self {
            UForm::Let => Form::Let,
            UForm::Lambda => Form::Lambda,
        }
    }
}
const UP_POS: [Pos; 4] = [Pos::Body, Pos::Value, Pos::Before, Pos::After];

#[derive(Clone, Copy, Debug, PartialEq, Eq)]
enum Via {
    /// the user passes a macro-stage function that wraps the macro's code
    Hof,
    /// the wrapping is done by a second macro-stage function the macro calls
    Helper,
}

#[derive(Clone, Copy, Debug, PartialEq, Eq)]
enum Site {
    Direct,
    HelperFn,
    LambdaInDsp,
}

fn num(x: f64) -> String {
    format!("{x:?}")
}

#[derive(Clone, Copy, Debug)]
struct Ks {
    k: f64,
    k2: f64,
    k3: f64,
    k4: f64,
}

/// a value `a * E + c` linear in the spliced value E
#[derive(Clone, Copy, Debug)]
struct Lin {
    a: f64,
    c: f64,
}
impl Lin {
    fn at(self, e: f64) -> f64 {
        self.a * e + self.c
    }
}

// ------------------------------------------------------------------ binder pieces

/// let-like forms: (binding statement(s) for `b` := `val`, extra summands, value of the extras)
fn letlike(form: Form, shape: usize, j: usize, b: &str, val: &str, k: Ks) -> (String, String, f64) {
    let (k2, k3, k4) = (num(k.k2), num(k.k3), num(k.k4));
    match form {
        Form::Let => (format!("let {b} = {val}"), String::new(), 0.0),
        Form::TupleLet => match shape % 3 {
            0 => (format!("let ({b}, zq_w{j}) = ({val}, {k2})"), format!(" + zq_w{j} * 3.0"), 3.0 * k.k2),
            1 => (format!("let (zq_w{j}, {b}) = ({k2}, {val})"), format!(" + zq_w{j} * 3.0"), 3.0 * k.k2),
            _ => (
                format!("let (zq_w{j}, {b}, zq_v{j}) = ({k2}, {val}, {k3})"),
                format!(" + zq_w{j} * 3.0 + zq_v{j} * 5.0"),
                3.0 * k.k2 + 5.0 * k.k3,
            ),
        },
        Form::NestedTupleLet => match shape % 4 {
            3 => (
                // three levels: the temporaries of the two sub-patterns of one level and of the
                // sub-pattern below them must all be distinct
                format!("let ((zq_a{j}, (zq_b{j}, {b})), (zq_c{j}, zq_d{j})) = (({k3}, ({k4}, {val})), ({k2}, {k3}))"),
                format!(" + zq_a{j} * 3.0 + zq_b{j} * 5.0 + zq_c{j} * 7.0 + zq_d{j} * 11.0"),
                3.0 * k.k3 + 5.0 * k.k4 + 7.0 * k.k2 + 11.0 * k.k3,
            ),
            0 => (
                format!("let ((zq_a{j}, {b}), zq_c{j}) = (({k3}, {val}), {k2})"),
                format!(" + zq_a{j} * 3.0 + zq_c{j} * 5.0"),
                3.0 * k.k3 + 5.0 * k.k2,
            ),
            1 => (
                format!("let ((zq_a{j}, zq_b{j}), ({b}, zq_d{j})) = (({k3}, {k4}), ({val}, {k2}))"),
                format!(" + zq_a{j} * 3.0 + zq_b{j} * 5.0 + zq_d{j} * 7.0"),
                3.0 * k.k3 + 5.0 * k.k4 + 7.0 * k.k2,
            ),
            _ => (
                format!("let (zq_a{j}, (zq_b{j}, {b})) = ({k3}, ({k2}, {val}))"),
                format!(" + zq_a{j} * 3.0 + zq_b{j} * 5.0"),
                3.0 * k.k3 + 5.0 * k.k2,
            ),
        },
        Form::LetOverNested => (
            format!("let {b} = {val}\n     let ((zq_a{j}, zq_b{j}), zq_c{j}) = (({k3}, {k4}), {k2})"),
            format!(" + zq_a{j} * 3.0 + zq_b{j} * 5.0 + zq_c{j} * 7.0"),
            3.0 * k.k3 + 5.0 * k.k4 + 7.0 * k.k2,
        ),
        _ => unreachable!(),
    }
}

/// number of `__dtN` temporaries the staging pass generates for one macro of this form
fn temporaries(form: Form, shape: usize) -> usize {
    match form {
        Form::NestedTupleLet => match shape % 4 {
            1 => 2,
            3 => 3,
            _ => 1,
        },
        Form::LetOverNested => 1,
        _ => 0,
    }
}
/// Is `name` one of the temporaries `__dt0 .. __dt{total-1}` this program's compilation generates
/// (counter starts at 0: every compilation runs on a fresh thread)?
fn is_live_temporary(name: &str, total: usize) -> bool {
    name.strip_prefix("__dt").and_then(|d| d.parse::<usize>().ok()).is_some_and(|i| i < total)
}

fn letrec_def(j: usize, b: &str, step: &str) -> String {
    format!("letrec {b} = |zq_n{j}| if (zq_n{j} > 0.0) {b}(zq_n{j} - 1.0) + {step} else 0.0")
}

/// lambda forms: (parameter list, argument list for the value `val`, extras inside the body, their value)
fn lambda_parts(form: Form, j: usize, b: &str, val: &str, k: Ks) -> (String, String, String, f64) {
    match form {
        Form::Lambda => (b.to_string(), val.to_string(), String::new(), 0.0),
        Form::Lambda2 => (format!("zq_a{j}, {b}"), format!("{}, {val}", num(k.k2)), format!(" + zq_a{j} * 3.0"), 3.0 * k.k2),
        _ => unreachable!(),
    }
}

/// Quoted body of a "down" macro: binder `b` of the given form, `$zq_e` spliced at `pos`.
/// Returns the text inside `{ .. }` and the value as a function of the spliced value.
fn down_body(form: Form, shape: usize, pos: Pos, j: usize, b: &str, k: Ks) -> (String, Lin) {
    let kk = num(k.k);
    let e = "$zq_e";
    let pos = if pos == Pos::Unrelated { Pos::Body } else { pos };
    // an expression statement before the binder: the block's first node is not the `let`
    let lead = if form == Form::Let && shape & 1 == 1 { "zq_nop()\n     " } else { "" };
    if form == Form::Let && shape & 2 != 0 {
        // the same body inside a block that yields a function: `({ <binder> |z| <expr> + z })(0.0)`
        let (txt, lin) = down_body(form, shape & 1, pos, j, b, k);
        let (stmts, last) = match txt.rfind("\n     ") {
            Some(i) => (txt[..i].to_string(), txt[i + 6..].to_string()),
            None => (String::new(), txt.clone()),
        };
        // the quoted block itself is the one that yields the function; every use applies it to 0.0
        return (format!("{stmts}\n     |zq_l{j}| {last} + zq_l{j}"), lin);
    }
    match form {
        Form::Let | Form::TupleLet | Form::NestedTupleLet | Form::LetOverNested => match pos {
            Pos::Body => {
                let (bind, ex, xv) = letlike(form, shape, j, b, &kk, k);
                (format!("{lead}{bind}\n     {e} + {b}{ex}"), Lin { a: 1.0, c: k.k + xv })
            }
            Pos::Value => {
                let (bind, ex, xv) = letlike(form, shape, j, b, &format!("{e} + {kk}"), k);
                (format!("{lead}{bind}\n     {b} * 2.0{ex}"), Lin { a: 2.0, c: 2.0 * k.k + xv })
            }
            Pos::Before => {
                let (bind, ex, xv) = letlike(form, shape, j, b, &kk, k);
                (
                    format!("let zq_y{j} = {{ {lead}{bind}\n                 {b} * 2.0{ex} }}\n     zq_y{j} + {e}"),
                    Lin { a: 1.0, c: 2.0 * k.k + xv },
                )
            }
            Pos::After => {
                let (bind, ex, xv) = letlike(form, shape, j, b, &kk, k);
                (format!("{lead}let zq_y{j} = {e}\n     {bind}\n     zq_y{j} + {b} * 2.0{ex}"), Lin { a: 1.0, c: 2.0 * k.k + xv })
            }
            Pos::Surrounding => {
                let (bind, ex, xv) = letlike(form, shape, j, b, &kk, k);
                (format!("{lead}{bind}\n     {b} * 2.0{ex} + {e}"), Lin { a: 1.0, c: 2.0 * k.k + xv })
            }
            Pos::Unrelated => unreachable!(),
        },
        Form::Lambda | Form::Lambda2 => match pos {
            Pos::Body => {
                let (ps, args, ex, xv) = lambda_parts(form, j, b, &kk, k);
                (format!("(|{ps}| {e} + {b}{ex})({args})"), Lin { a: 1.0, c: k.k + xv })
            }
            Pos::Value => {
                let (ps, args, ex, xv) = lambda_parts(form, j, b, &format!("{e} + {kk}"), k);
                (format!("(|{ps}| {b} * 2.0{ex})({args})"), Lin { a: 2.0, c: 2.0 * k.k + xv })
            }
            Pos::Before | Pos::Surrounding => {
                let (ps, args, ex, xv) = lambda_parts(form, j, b, &kk, k);
                (format!("(|{ps}| {b} * 2.0{ex})({args}) + {e}"), Lin { a: 1.0, c: 2.0 * k.k + xv })
            }
            Pos::After => {
                let (ps, args, ex, xv) = lambda_parts(form, j, b, &kk, k);
                (format!("{e} + (|{ps}| {b} * 2.0{ex})({args})"), Lin { a: 1.0, c: 2.0 * k.k + xv })
            }
            Pos::Unrelated => unreachable!(),
        },
        Form::LetRec => match pos {
            Pos::Body | Pos::Surrounding => (format!("{}\n     {b}(2.0) + {e}", letrec_def(j, b, &kk)), Lin { a: 1.0, c: 2.0 * k.k }),
            Pos::Value => (format!("{}\n     {b}(2.0)", letrec_def(j, b, e)), Lin { a: 2.0, c: 0.0 }),
            Pos::Before => (
                format!("let zq_y{j} = {{ {}\n                 {b}(2.0) }}\n     zq_y{j} + {e}", letrec_def(j, b, &kk)),
                Lin { a: 1.0, c: 2.0 * k.k },
            ),
            Pos::After => (format!("let zq_y{j} = {e}\n     {}\n     zq_y{j} + {b}(2.0)", letrec_def(j, b, &kk)), Lin { a: 1.0, c: 2.0 * k.k }),
            Pos::Unrelated => unreachable!(),
        },
        Form::Match => match pos {
            Pos::Body => (format!("match ZqSom({kk}) {{ ZqSom({b}) => {e} + {b}, ZqNon => 0.0 }}"), Lin { a: 1.0, c: k.k }),
            Pos::Value => (
                format!("match ZqSom({e} + {kk}) {{ ZqSom({b}) => {b} * 2.0, ZqNon => 0.0 }}"),
                Lin { a: 2.0, c: 2.0 * k.k },
            ),
            _ => (
                format!("let zq_y{j} = match ZqSom({kk}) {{ ZqSom({b}) => {b} * 2.0, ZqNon => 0.0 }}\n     zq_y{j} + {e}"),
                Lin { a: 1.0, c: 2.0 * k.k },
            ),
        },
    }
}

/// Quoted body of an "up" macro: binder `b`, a reference to it is handed to `wrap` (the
/// text of a macro-stage call taking one code argument). Returns text and (value handed
/// over, extras value): the program's value is `W(handed) + extras`.
fn up_body(form: Form, shape: usize, j: usize, b: &str, k: Ks, wrap: &dyn Fn(&str) -> String) -> (String, f64, f64) {
    let kk = num(k.k);
    match form {
        Form::Let | Form::TupleLet | Form::NestedTupleLet | Form::LetOverNested => {
            let (bind, ex, xv) = letlike(form, shape, j, b, &kk, k);
            (format!("{bind}\n     $({}){ex}", wrap(&format!("`{b}"))), k.k, xv)
        }
        Form::Lambda | Form::Lambda2 => {
            let (ps, args, ex, xv) = lambda_parts(form, j, b, &kk, k);
            (format!("(|{ps}| $({}){ex})({args})", wrap(&format!("`{b}"))), k.k, xv)
        }
        Form::LetRec => (format!("{}\n     $({})", letrec_def(j, b, &kk), wrap(&format!("`({b}(2.0))"))), 2.0 * k.k, 0.0),
        Form::Match => (
            format!("match ZqSom({kk}) {{ ZqSom({b}) => $({}), ZqNon => 0.0 }}", wrap(&format!("`{b}"))),
            k.k,
            0.0,
        ),
    }
}

/// The user's wrapper around the macro's code `$zq_c`: binder `n` := `uv` of form `uf`.
fn wrapper_body(uf: UForm, pos: Pos, n: &str, uv: f64) -> (String, Lin) {
    let u = num(uv);
    let c = "$zq_c";
    match (uf, pos) {
        (UForm::Let, Pos::Body) => (format!("let {n} = {u}\n       {c} + {n}"), Lin { a: 1.0, c: uv }),
        (UForm::Let, Pos::Value) => (format!("let {n} = {c} + {u}\n       {n} * 2.0"), Lin { a: 2.0, c: 2.0 * uv }),
        (UForm::Let, Pos::Before) => (
            format!("let zq_yw = {{ let {n} = {u}\n                   {n} * 2.0 }}\n       zq_yw + {c}"),
            Lin { a: 1.0, c: 2.0 * uv },
        ),
        (UForm::Let, _) => (format!("let zq_yw = {c}\n       let {n} = {u}\n       zq_yw + {n} * 2.0"), Lin { a: 1.0, c: 2.0 * uv }),
        (UForm::Lambda, Pos::Body) => (format!("(|{n}| {c} + {n})({u})"), Lin { a: 1.0, c: uv }),
        (UForm::Lambda, Pos::Value) => (format!("(|{n}| {n} * 2.0)({c} + {u})"), Lin { a: 2.0, c: 2.0 * uv }),
        (UForm::Lambda, Pos::Before) => (format!("(|{n}| {n} * 2.0)({u}) + {c}"), Lin { a: 1.0, c: 2.0 * uv }),
        (UForm::Lambda, _) => (format!("{c} + (|{n}| {n} * 2.0)({u})"), Lin { a: 1.0, c: 2.0 * uv }),
    }
}

// ------------------------------------------------------------------ argument expressions

/// Expression the user writes inside the quoted macro argument.
#[derive(Clone, Debug)]
enum A {
    Num(f64),
    /// reference to the user's entity (value known to the generator)
    U,
    Add(Box<A>, Box<A>),
    Sub(Box<A>, Box<A>),
    Mul(Box<A>, Box<A>),
    /// `{ let zuI = a \n b }` where b may use zuI
    Blk(usize, Box<A>, Box<A>),
    /// `(|zuI| b)(a)`
    Lam(usize, Box<A>, Box<A>),
    Loc(usize),
    /// `if (c > 0.0) a else b`
    If(Box<A>, Box<A>, Box<A>),
    /// nested use of macro j on a quoted argument
    Mac(usize, Box<A>),
}

struct ArgCtx<'a> {
    uref: &'a str,
    uval: f64,
    macros: &'a [Lin],
    /// appended to every macro use: "(0.0)" when the quoted body yields a function, else ""
    apply: &'a str,
}

impl A {
    fn print(&self, cx: &ArgCtx) -> String {
        match self {
            A::Num(x) => num(*x),
            A::U => cx.uref.to_string(),
            A::Add(a, b) => format!("({} + {})", a.print(cx), b.print(cx)),
            A::Sub(a, b) => format!("({} - {})", a.print(cx), b.print(cx)),
            A::Mul(a, b) => format!("({} * {})", a.print(cx), b.print(cx)),
            A::Blk(i, a, b) => format!("{{ let zu{i} = {}\n      {} }}", a.print(cx), b.print(cx)),
            A::Lam(i, a, b) => format!("(|zu{i}| {})({})", b.print(cx), a.print(cx)),
            A::Loc(i) => format!("zu{i}"),
            A::If(c, a, b) => format!("(if ({} > 0.0) {{ {} }} else {{ {} }})", c.print(cx), a.print(cx), b.print(cx)),
            A::Mac(j, a) => format!("zq_m{j}!(`({})){}", a.print(cx), cx.apply),
        }
    }
    fn eval(&self, cx: &ArgCtx, env: &mut Vec<(usize, f64)>) -> f64 {
        match self {
            A::Num(x) => *x,
            A::U => cx.uval,
            A::Add(a, b) => a.eval(cx, env) + b.eval(cx, env),
            A::Sub(a, b) => a.eval(cx, env) - b.eval(cx, env),
            A::Mul(a, b) => a.eval(cx, env) * b.eval(cx, env),
            A::Blk(i, a, b) | A::Lam(i, a, b) => {
                let v = a.eval(cx, env);
                env.push((*i, v));
                let r = b.eval(cx, env);
                env.pop();
                r
            }
            A::Loc(i) => env.iter().rev().find(|(j, _)| j == i).map(|x| x.1).unwrap_or(f64::NAN),
            A::If(c, a, b) => {
                if c.eval(cx, env) > 0.0 {
                    a.eval(cx, env)
                } else {
                    b.eval(cx, env)
                }
            }
            A::Mac(j, a) => cx.macros[*j].at(a.eval(cx, env)),
        }
    }
    fn mentions_u(&self) -> bool {
        match self {
            A::U => true,
            A::Num(_) | A::Loc(_) => false,
            A::Add(a, b) | A::Sub(a, b) | A::Mul(a, b) | A::Blk(_, a, b) | A::Lam(_, a, b) => a.mentions_u() || b.mentions_u(),
            A::If(c, a, b) => c.mentions_u() || a.mentions_u() || b.mentions_u(),
            A::Mac(_, a) => a.mentions_u(),
        }
    }
    fn nodes(&self) -> usize {
        match self {
            A::U | A::Num(_) | A::Loc(_) => 1,
            A::Add(a, b) | A::Sub(a, b) | A::Mul(a, b) | A::Blk(_, a, b) | A::Lam(_, a, b) => 1 + a.nodes() + b.nodes(),
            A::If(c, a, b) => 1 + c.nodes() + a.nodes() + b.nodes(),
            A::Mac(_, a) => 1 + a.nodes(),
        }
    }
}

fn small(rng: &mut Rng) -> f64 {
    *rng.pick(&[1.0, 2.0, 3.0, 4.0, 5.0, 0.5, 1.5, 2.5, 7.0])
}

#[derive(Clone, Copy)]
struct Opts {
    with_u: bool,
    nmacros: usize,
    no_if: bool,
    /// may a nested macro use sit in an `if` arm, a block or a lambda call? Not for let-like
    /// binders: the binders of the inner expansion stay visible afterwards (same scope defect as
    /// `after-binder-block`) and the enclosing expansion of the same macro then reads them —
    /// uninitialised if the arm was not taken, dead on the VM if a closure call came between.
    /// Those programs are wrong with either binder name, which renaming cannot show.
    mac_in_arm: bool,
}

fn gen_arg(rng: &mut Rng, depth: usize, o: Opts, locals: &mut Vec<usize>, next: &mut usize) -> A {
    let Opts { with_u, nmacros, no_if, .. } = o;
    let leaf = |rng: &mut Rng, locals: &Vec<usize>| -> A {
        let r = rng.below(4);
        if with_u && r < 2 {
            A::U
        } else if r == 2 && !locals.is_empty() {
            A::Loc(*rng.pick(locals))
        } else {
            A::Num(small(rng))
        }
    };
    if depth == 0 || rng.chance(1, 4) {
        return leaf(rng, locals);
    }
    let b = |x: A| Box::new(x);
    match rng.below(if nmacros > 0 { 8 } else { 7 }) {
        0 => A::Add(b(gen_arg(rng, depth - 1, o, locals, next)), b(gen_arg(rng, depth - 1, o, locals, next))),
        1 => A::Sub(b(gen_arg(rng, depth - 1, o, locals, next)), b(gen_arg(rng, depth - 1, o, locals, next))),
        2 => A::Mul(b(gen_arg(rng, depth - 1, o, locals, next)), b(A::Num(small(rng)))),
        3 | 4 => {
            let i = *next;
            *next += 1;
            let o = if o.mac_in_arm { o } else { Opts { nmacros: 0, ..o } };
            let v = gen_arg(rng, depth - 1, o, locals, next);
            locals.push(i);
            let body = A::Add(b(A::Loc(i)), b(gen_arg(rng, depth - 1, o, locals, next)));
            locals.pop();
            if rng.chance(1, 2) { A::Blk(i, b(v), b(body)) } else { A::Lam(i, b(v), b(body)) }
        }
        5 if !no_if => A::If(
            b(gen_arg(rng, depth - 1, o, locals, next)),
            b(gen_arg(rng, depth - 1, if o.mac_in_arm { o } else { Opts { nmacros: 0, ..o } }, locals, next)),
            b(A::Num(small(rng))),
        ),
        5 | 6 => A::Add(b(leaf(rng, locals)), b(A::Num(small(rng)))),
        _ => A::Mac(rng.below(nmacros), b(gen_arg(rng, depth - 1, o, locals, next))),
    }
}

// ------------------------------------------------------------------ program assembly

struct DownSpec {
    form: Form,
    shape: usize,
    pos: Pos,
    src: NameSrc,
    ukind: UKind,
    site: Site,
    nmacros: usize,
    depth: usize,
    quick_consts: bool,
    q_if_in_aggregate: bool,
}

fn consts(rng: &mut Rng, fixed: bool, j: usize) -> Ks {
    if fixed {
        let s = (j + 1) as f64;
        return Ks { k: 10.0 * s, k2: 100.0 * s, k3: 1000.0 * s, k4: 10000.0 * s };
    }
    let mut pool: Vec<f64> = vec![6.0, 8.0, 10.0, 12.0, 20.0, 30.0, 50.0, 64.0, 100.0, 128.0, 300.0, 1000.0, 2048.0];
    rng.shuffle(&mut pool);
    Ks { k: pool[0], k2: pool[1], k3: pool[2], k4: pool[3] }
}

/// text of a reference to the user's entity and its value
fn user_ref(ukind: UKind, n: &str, uv: f64, rng: &mut Rng) -> (String, f64) {
    match ukind {
        UKind::Local | UKind::GlobalLet => (n.to_string(), uv),
        UKind::GlobalFn => {
            let c = small(rng);
            (format!("{n}({})", num(c)), c + uv)
        }
        UKind::BuiltinFn => match n {
            "sqrt" => {
                let c = *rng.pick(&[2.0, 3.0, 4.0, 1.5]);
                (format!("sqrt({})", num(c * c)), c)
            }
            "abs" => {
                let c = small(rng);
                (format!("abs(0.0 - {})", num(c)), c)
            }
            "floor" => {
                let c = *rng.pick(&[1.0, 2.0, 5.0]);
                (format!("floor({})", num(c + 0.5)), c)
            }
            _ => {
                let c = *rng.pick(&[1.0, 2.0, 5.0]);
                (format!("ceil({})", num(c + 0.5)), c + 1.0)
            }
        },
    }
}

fn wrap_site(site: Site, local_decl: &str, expr: &str) -> String {
    let ld = if local_decl.is_empty() { String::new() } else { format!("  {local_decl}\n") };
    match site {
        Site::Direct => format!("fn dsp(){{\n{ld}  {expr}\n}}\n"),
        Site::HelperFn => format!("fn zq_h(zq_p){{\n{ld}  {expr} + zq_p\n}}\nfn dsp(){{\n  zq_h(0.0)\n}}\n"),
        Site::LambdaInDsp => format!("fn dsp(){{\n  (|zq_q| {{\n{ld}  {expr} + zq_q }})(0.0)\n}}\n"),
    }
}

fn build_down(spec: &DownSpec, rng: &mut Rng) -> HCase {
    let n = spec.src.pick(rng);
    let uv = if spec.quick_consts { 1.0 } else { small(rng) };
    // two different macros whose binders share the colliding name would capture each other
    // through the same defect, so let-like forms get one macro (possibly used several times)
    let nm = if spec.form.leaky() { 1 } else { spec.nmacros.max(1) };
    let mut lins = vec![];
    let mut defs = [String::new(), String::new()]; // colliding, renamed
    for j in 0..nm {
        let k = consts(rng, spec.quick_consts, j);
        let fresh = format!("zq_fresh{j}");
        for (v, b) in [n, fresh.as_str()].iter().enumerate() {
            let (body, lin) = down_body(spec.form, spec.shape, spec.pos, j, b, k);
            defs[v].push_str(&format!("fn zq_m{j}(zq_e){{\n  `{{ {body} }}\n}}\n"));
            if v == 0 {
                lins.push(lin);
            }
        }
    }
    let mentions = !matches!(spec.pos, Pos::Surrounding | Pos::Unrelated);
    let (uref, uval) = user_ref(spec.ukind, n, uv, rng);
    let apply = if spec.form == Form::Let && spec.shape & 2 != 0 { "(0.0)" } else { "" };
    let cx = ArgCtx { uref: &uref, uval, macros: &lins, apply };
    // A `let`-like binder stays visible until the end of the enclosing function on the
    // unchanged tree (a finding of its own, classes `after-binder-block-closed` /
    // `after-the-expansion`). To keep the other classes' observations clean, a nested macro use
    // in the positions that are expected to hold is only generated as a chain whose innermost
    // argument alone mentions the user's name.
    // quarantine `if-inside-aggregate-literal` (a C01-C03 finding: an `if` inside a tuple literal
    // breaks both back ends): the spliced argument lands inside the tuple literal of the binder
    let no_if = spec.q_if_in_aggregate && spec.pos == Pos::Value && matches!(spec.form, Form::TupleLet | Form::NestedTupleLet);
    let chain_only = spec.form.leaky() && matches!(spec.pos, Pos::Value | Pos::After);
    let mut arg = if spec.depth == 0 {
        if mentions { A::U } else { A::Num(2.0) }
    } else if chain_only {
        let mut a = gen_arg(rng, spec.depth, Opts { with_u: mentions, nmacros: 0, no_if, mac_in_arm: false }, &mut vec![], &mut 0);
        if mentions && !a.mentions_u() {
            a = A::Add(Box::new(A::U), Box::new(a));
        }
        for _ in 0..rng.below(3) {
            let inner = if rng.chance(1, 2) { A::Add(Box::new(a), Box::new(A::Num(small(rng)))) } else { A::Mul(Box::new(a), Box::new(A::Num(small(rng)))) };
            a = A::Mac(rng.below(nm), Box::new(inner));
        }
        a
    } else {
        let usable = if nm > 1 || rng.chance(1, 3) { nm } else { 0 };
        gen_arg(rng, spec.depth, Opts { with_u: mentions, nmacros: usable, no_if, mac_in_arm: !spec.form.leaky() }, &mut vec![], &mut 0)
    };
    if mentions && !arg.mentions_u() {
        arg = A::Add(Box::new(A::U), Box::new(arg));
    }
    let e = arg.eval(&cx, &mut vec![]);
    let outer = nm - 1;
    let call = format!("zq_m{outer}!(`({})){apply}", arg.print(&cx));
    let mut expected = lins[outer].at(e);
    let (pre, expr) = match spec.pos {
        Pos::Surrounding => {
            expected += uval * 100.0;
            (format!("let zq_r = {call}"), format!("zq_r + {uref} * 100.0"))
        }
        _ => (String::new(), call),
    };
    let user_declares = spec.pos != Pos::Unrelated;
    let (mut globals, mut local) = (String::new(), String::new());
    if user_declares {
        match spec.ukind {
            UKind::Local => local = format!("let {n} = {}", num(uv)),
            UKind::GlobalLet => globals = format!("let {n} = {}\n", num(uv)),
            UKind::GlobalFn => globals = format!("fn {n}(zq_p){{\n  zq_p + {}\n}}\n", num(uv)),
            UKind::BuiltinFn => {}
        }
    }
    if !pre.is_empty() {
        local = if local.is_empty() { pre } else { format!("{local}\n  {pre}") };
    }
    let main = wrap_site(spec.site, &local, &expr);
    let head = if spec.form == Form::Match { "type ZqOpt = ZqSom(float) | ZqNon\n" } else { "" };
    let nop = if spec.form == Form::Let && spec.shape & 1 == 1 { "#stage(main)\nfn zq_nop(){\n  let zq_u = 0.0\n}\n" } else { "" };
    let mk = |d: &str| format!("{head}{nop}#stage(macro)\n{d}#stage(main)\n{globals}{main}");
    HCase {
        colliding: mk(&defs[0]),
        renamed: mk(&defs[1]),
        expected,
        n: 2,
        class: if is_live_temporary(n, nm * temporaries(spec.form, spec.shape)) {
            format!("{}/live-desugar-temporary-name/macro-captures-user", spec.form.tag())
        } else {
            format!("{}/{}/macro-captures-user", spec.form.tag(), relation(spec.form, spec.pos))
        },
        tags: Tags {
            form: spec.form.tag().into(),
            position: spec.pos.tag().into(),
            direction: "macro-captures-user".into(),
            name_source: spec.src.tag().into(),
            name: n.into(),
            user_entity: if user_declares { spec.ukind.tag().into() } else { "none".into() },
            wrapper: String::new(),
            via: String::new(),
            site: format!("{:?}", spec.site),
            macros: nm,
            arg_nodes: arg.nodes(),
        },
    }
}

struct UpSpec {
    form: Form,
    shape: usize,
    uform: UForm,
    upos: Pos,
    via: Via,
    src: NameSrc,
    site: Site,
    quick_consts: bool,
}

fn build_up(spec: &UpSpec, rng: &mut Rng) -> HCase {
    let n = spec.src.pick(rng);
    let uv = if spec.quick_consts { 1.0 } else { small(rng) };
    let k = consts(rng, spec.quick_consts, 0);
    let (wbody, wlin) = wrapper_body(spec.uform, spec.upos, n, uv);
    let mut progs = vec![];
    let mut expected = 0.0;
    for b in [n, "zq_fresh0"] {
        let (defs, call) = match spec.via {
            Via::Hof => {
                let (body, handed, xv) = up_body(spec.form, spec.shape, 0, b, k, &|code| format!("zq_k({code})"));
                expected = wlin.at(handed) + xv;
                (format!("fn zq_m0(zq_k){{\n  `{{ {body} }}\n}}\n"), format!("zq_m0!(|zq_c| `{{ {wbody} }})"))
            }
            Via::Helper => {
                let (body, handed, xv) = up_body(spec.form, spec.shape, 0, b, k, &|code| format!("zq_wrap({code})"));
                expected = wlin.at(handed) + xv;
                (
                    format!("fn zq_wrap(zq_c){{\n  `{{ {wbody} }}\n}}\nfn zq_m0(){{\n  `{{ {body} }}\n}}\n"),
                    "zq_m0!()".to_string(),
                )
            }
        };
        let head = if spec.form == Form::Match { "type ZqOpt = ZqSom(float) | ZqNon\n" } else { "" };
        progs.push(format!("{head}#stage(macro)\n{defs}#stage(main)\n{}", wrap_site(spec.site, "", &call)));
    }
    let renamed = progs.pop().unwrap();
    let colliding = progs.pop().unwrap();
    HCase {
        colliding,
        renamed,
        expected,
        n: 2,
        class: if is_live_temporary(n, temporaries(spec.form, spec.shape)) {
            format!("{}/live-desugar-temporary-name/user-captures-macro", spec.form.tag())
        } else {
            format!("{}/{}/user-captures-macro", spec.uform.tag(), relation(spec.uform.as_form(), spec.upos))
        },
        tags: Tags {
            form: spec.form.tag().into(),
            position: spec.upos.tag().into(),
            direction: "user-captures-macro".into(),
            name_source: spec.src.tag().into(),
            name: n.into(),
            user_entity: "binder-in-user-code-around-the-macro's-code".into(),
            wrapper: spec.uform.tag().into(),
            via: format!("{:?}", spec.via),
            site: format!("{:?}", spec.site),
            macros: 1,
            arg_nodes: 0,
        },
    }
}

// ------------------------------------------------------------------ enumeration of the tag space

#[derive(Clone, Copy)]
enum Combo {
    Down(Form, usize, Pos, NameSrc, UKind),
    Up(Form, usize, UForm, Pos, Via, NameSrc),
}

/// Shapes the generator keeps away from, and why.
/// (a) letrec whose bound function body contains the splice, with a *function* as the user's
///     entity: in the colliding program the user's call is captured by the function being
///     defined, which then calls itself unconditionally — the worker dies of stack overflow
///     instead of reporting. The class (letrec / in scope) stays covered by value entities.
fn kills_worker(form: Form, pos: Pos, uk: UKind) -> bool {
    form == Form::LetRec && pos == Pos::Value && matches!(uk, UKind::GlobalFn | UKind::BuiltinFn)
}
/// (b) quarantine `capture-of-destructured-variable` (a C01/C02 finding: on WASM a lambda that
///     captures a variable bound by a tuple pattern reads an address): the user's lambda around
///     the macro's code would capture the macro's tuple-bound variable in the *renamed* member.
fn wasm_tuple_capture(form: Form, uform: UForm, upos: Pos) -> bool {
    matches!(form, Form::TupleLet | Form::NestedTupleLet) && uform == UForm::Lambda && upos == Pos::Body
}

fn combos(q_tuple_capture: bool) -> Vec<Combo> {
    let mut v = vec![];
    for form in FORMS {
        for shape in 0..form.shapes() {
            for &pos in form.positions() {
                for (src, uk) in DOWN_SOURCES {
                    if pos == Pos::Unrelated && uk != UKind::Local {
                        continue; // the user's entity does not exist in this control
                    }
                    if kills_worker(form, pos, uk) {
                        continue;
                    }
                    if shape > 0 && form == Form::TupleLet && !(src == NameSrc::User && uk == UKind::Local) {
                        continue; // tuple shapes beyond the first: one name source is enough
                    }
                    v.push(Combo::Down(form, shape, pos, src, uk));
                }
            }
        }
    }
    for form in FORMS {
        for uform in [UForm::Let, UForm::Lambda] {
            for upos in UP_POS {
                for via in [Via::Hof, Via::Helper] {
                    for src in UP_SOURCES {
                        if q_tuple_capture && wasm_tuple_capture(form, uform, upos) {
                            continue;
                        }
                        v.push(Combo::Up(form, 0, uform, upos, via, src));
                    }
                }
            }
        }
    }
    v
}

fn generate_case(idx: usize, rng: &mut Rng, all: &[Combo], qs: (bool, bool)) -> HCase {
    let q_tuple_capture = qs.0;
    if idx < all.len() {
        return match all[idx] {
            Combo::Down(form, shape, pos, src, ukind) => {
                build_down(&DownSpec { form, shape, pos, src, ukind, site: Site::Direct, nmacros: 1, depth: 0, quick_consts: true, q_if_in_aggregate: qs.1 }, rng)
            }
            Combo::Up(form, shape, uform, upos, via, src) => {
                build_up(&UpSpec { form, shape, uform, upos, via, src, site: Site::Direct, quick_consts: true }, rng)
            }
        };
    }
    // random exploration: random tags, constants, argument expressions, nesting and use sites
    let site = *rng.pick(&[Site::Direct, Site::Direct, Site::HelperFn, Site::LambdaInDsp]);
    if rng.chance(7, 10) {
        let form = *rng.pick(&FORMS[..7]); // `match` in quoted code is refused today; the enumeration keeps watching it
        let pos = *rng.pick(form.positions());
        let (src, ukind) = *rng.pick(&DOWN_SOURCES);
        let (src, ukind) = if kills_worker(form, pos, ukind) { (NameSrc::User, UKind::Local) } else { (src, ukind) };
        let ukind = if pos == Pos::Unrelated { UKind::Local } else { ukind };
        build_down(
            &DownSpec {
                form,
                shape: rng.below(4),
                pos,
                src,
                ukind,
                site,
                nmacros: if rng.chance(1, 3) { 2 } else { 1 },
                depth: 1 + rng.below(3),
                quick_consts: false,
                q_if_in_aggregate: qs.1,
            },
            rng,
        )
    } else {
        let form = *rng.pick(&FORMS[..7]);
        let mut uform = *rng.pick(&[UForm::Let, UForm::Lambda]);
        let upos = *rng.pick(&UP_POS);
        if q_tuple_capture && wasm_tuple_capture(form, uform, upos) {
            uform = UForm::Let;
        }
        build_up(
            &UpSpec {
                form,
                shape: rng.below(4),
                uform,
                upos,
                via: *rng.pick(&[Via::Hof, Via::Helper]),
                src: *rng.pick(&UP_SOURCES),
                site,
                quick_consts: false,
            },
            rng,
        )
    }
}

// ------------------------------------------------------------------ oracle

#[derive(Clone, Debug)]
enum Oc {
    Ran(usize, Vec<f64>),
    /// the compiler answered with diagnostics
    Rejected(String),
    /// panic in a compiler phase / in dsp, or the back end refused the module
    Failed(String),
    Harness(String),
}
impl Oc {
    fn kind(&self) -> &'static str {
        match self {
            Oc::Ran(..) => "ran",
            Oc::Rejected(_) => "rejected",
            Oc::Failed(_) => "failed",
            Oc::Harness(_) => "harness",
        }
    }
    fn short(&self) -> String {
        match self {
            Oc::Ran(ch, v) => format!("ran, {ch} channel(s), first samples {:?}", &v[..v.len().min(4)]),
            Oc::Rejected(m) => format!("rejected: {}", m.chars().take(160).collect::<String>()),
            Oc::Failed(m) => format!("failed: {}", m.chars().take(160).collect::<String>()),
            Oc::Harness(m) => format!("harness: {m}"),
        }
    }
    fn same(&self, o: &Oc) -> bool {
        match (self, o) {
            (Oc::Ran(c1, a), Oc::Ran(c2, b)) => c1 == c2 && a.len() == b.len() && a.iter().zip(b).all(|(x, y)| bits_eq(*x, *y)),
            (Oc::Rejected(_), Oc::Rejected(_)) | (Oc::Failed(_), Oc::Failed(_)) => true,
            _ => false,
        }
    }
    fn is_expected(&self, want: f64, n: usize) -> bool {
        matches!(self, Oc::Ran(1, v) if v.len() == n && v.iter().all(|x| bits_eq(*x, want)))
    }
}

/// Compile and run on a fresh thread: the desugaring-temporary counter of the staging pass
/// is thread-local, so a fresh thread makes the generated `__dtN` names (and with them the
/// case) independent of what the worker compiled before.
fn run_fresh(b: Backend, src: &str, n: usize) -> Oc {
    let s = src.to_string();
    let r = on_thread(256 << 20, move || run_program(b, &s, false, n, &|_, _| 0.0, false, None));
    match r {
        Ok(Ok(o)) => Oc::Ran(o.channels, o.out),
        Ok(Err(RunError::Build(be))) if be.is_reject() => Oc::Rejected(be.short()),
        Ok(Err(e)) => Oc::Failed(e.short()),
        Err(p) if p.loc.contains("harness/src") || p.msg == "thread died" => Oc::Harness(format!("{} @ {}", p.msg, p.loc)),
        Err(p) => Oc::Failed(format!("panic {} @ {}", p.msg, p.loc)),
    }
}

fn exec(c: &HCase, idx: usize, out: &mut Out) -> bool {
    let mut differ: Vec<String> = vec![];
    let (mut c_dev, mut r_dev, mut r_ok_somewhere) = (false, false, false);
    let (mut ran_both, mut agree_dev, mut agree_ok, mut any_ran) = (0u32, 0u32, 0u32, false);
    let mut detail = String::new();
    for b in [Backend::Vm, Backend::Wasm] {
        let oc = run_fresh(b, &c.colliding, c.n);
        let or = run_fresh(b, &c.renamed, c.n);
        if let Oc::Harness(m) = &oc {
            out.inconclusive(idx, m);
            return false;
        }
        if let Oc::Harness(m) = &or {
            out.inconclusive(idx, m);
            return false;
        }
        out.count(&format!("outcome:{}:colliding={}/renamed={}", b.name(), oc.kind(), or.kind()), 1);
        any_ran |= matches!(oc, Oc::Ran(..)) || matches!(or, Oc::Ran(..));
        let ce = oc.is_expected(c.expected, c.n);
        let re = or.is_expected(c.expected, c.n);
        detail.push_str(&format!(
            "[{}] colliding: {} | renamed: {} | lexical scoping gives {:?} per sample. ",
            b.name(),
            oc.short(),
            or.short(),
            c.expected
        ));
        if let (Oc::Ran(_, x), Oc::Ran(..)) = (&oc, &or) {
            ran_both += 1;
            out.count("output_words_compared", x.len() as u64);
        }
        if oc.same(&or) {
            if matches!(oc, Oc::Ran(..)) {
                if ce { agree_ok += 1 } else { agree_dev += 1 }
            }
        } else {
            differ.push(b.name().to_string());
            c_dev |= !ce;
            r_dev |= !re;
            r_ok_somewhere |= re;
        }
    }
    out.count("pairs_executed", 1);
    out.count(&format!("form:{}", c.tags.form), 1);
    out.count(&format!("position:{}", c.tags.position), 1);
    out.count(&format!("direction:{}", c.tags.direction), 1);
    out.count(&format!("name_source:{}", c.tags.name_source), 1);
    out.set("forms", c.tags.form.clone());
    out.set("positions", c.tags.position.clone());
    out.set("directions", c.tags.direction.clone());
    out.set("name_sources", c.tags.name_source.clone());
    out.set("colliding_names", c.tags.name.clone());
    out.set("user_entities", c.tags.user_entity.clone());
    out.set("tag_combinations", format!("{}|{}|{}|{}|{}", c.tags.form, c.tags.position, c.tags.direction, c.tags.name_source, c.tags.user_entity));
    let report = |out: &mut Out, sig: String| {
        let key = format!("violations:{sig}");
        let seen = out.counters.get(&key).copied().unwrap_or(0);
        out.count(&key, 1);
        if seen < 4 {
            out.violation(idx, &sig, &detail, &serde_json::to_value(c).unwrap());
        }
    };
    // When the colliding name is one of the `__dtN` temporaries this very compilation generates,
    // the temporary captures it in either member (or both, or with no visible effect), so the
    // class gets one signature whichever clause saw it.
    let live = c.class.contains("/live-desugar-temporary-name/");
    let observed;
    if !differ.is_empty() {
        // a front-end (scoping) fault of the renamed member shows on every back end; if it meets
        // the hand expansion on one of them, its deviation on the other is a back-end matter (C01)
        if r_dev && r_ok_somewhere {
            out.count("renamed_member_deviates_on_one_back_end_only", 1);
            r_dev = false;
        }
        let who = match (c_dev, r_dev) {
            (true, false) => "colliding-wrong",
            (false, true) => "renamed-wrong",
            _ => "both-wrong",
        };
        observed = format!("renaming changes meaning ({who})");
        if live {
            report(out, format!("desugar-temporary-captures: {}", c.class));
        } else {
            report(out, format!("rename-differs: {}/{who}", c.class));
        }
    } else if ran_both > 0 && agree_ok == 0 && agree_dev > 0 {
        observed = "pair agrees, both differ from lexical scoping".to_string();
        if live {
            report(out, format!("desugar-temporary-captures: {}", c.class));
        } else {
            report(out, format!("pair-agrees-wrong: {}", c.class));
        }
    } else if agree_dev > 0 {
        // one back end computes something else for both members: not a scoping matter
        observed = "pair agrees, one back end differs from lexical scoping".to_string();
        out.inconclusive(idx, &format!("both members deviate from the hand expansion on one back end only: {detail}"));
    } else if ran_both > 0 {
        observed = "pair agrees with lexical scoping".to_string();
        out.count("pairs_equal_to_hand_expansion", 1);
    } else {
        observed = "both members refused".to_string();
        out.count("pairs_refused_alike", 1);
    }
    out.set("class_observations", format!("{} => {observed}", c.class));
    any_ran && c.colliding != c.renamed
}

// ------------------------------------------------------------------ entry points

const Q_TUPLE: &str = "capture-of-destructured-variable";
const Q_IF: &str = "if-inside-aggregate-literal";

pub fn meta(args: &Args) -> Value {
    let ncombo = combos(args.q(Q_TUPLE)).len();
    let nrand = args.cases(300, 10_000);
    json!({
        "level": "exploration",
        "rule": format!("Each case is a pair of complete programs that differ only in the name of the binders inside the quoted code of their macro definitions (colliding: the binder has the name of something the macro user wrote; renamed: a fresh name), both compiled and run for 2 samples on VM and WASM, each compilation on a fresh thread. Accept/reject and every output bit must agree per back end; the generator's hand expansion (templates are linear in the spliced value) says which member is wrong and catches pairs that agree on a wrong value on every back end that ran. (a) all {ncombo} tag combinations: binder form (let, tuple-let x3 shapes, nested tuple-let x3 shapes incl. two nested sub-patterns, let over a nested tuple-let, lambda parameter, second lambda parameter, letrec, match variable) x position of the splice (in the binder's body, in the bound expression, after the binder's block was closed, before the binder, user name used after the expansion, control without any user name) x direction (macro binder captures user name: local / global variable / global function / builtin function; user binder (let, lambda parameter; passed as a macro-stage function or applied by a helper macro) captures the macro's variable) x name source (user names, builtin names, __dt0, __dtN, lambda_N/__default_1_x/record_update_temp/_mimium_global_); (b) {nrand} random cases: random tags, constants, argument expressions (arithmetic, blocks, lambdas, if, nested macro uses), 1-2 macros, use site in dsp / in a helper function / in a lambda. Not generated: a user function spliced into the body of a same-named letrec (the captured program recurses forever); for let-like binders, which outlive their block on the unchanged tree, a second macro with the same binder name and nested uses of the macro inside if arms, blocks and lambda calls (positions that are expected to hold get nested uses only as a chain around the one argument that mentions the user's name); shapes of the quarantines capture-of-destructured-variable and if-inside-aggregate-literal while those are active. Non-trivial = the two texts differ and at least one member was accepted and ran on at least one back end; distinct = hash of the pair."),
        "assumptions": [
            "fresh names (zq_*) never collide with anything a template contains",
            "the hand expansion is exact: constants are small dyadic rationals, only + - * sqrt abs floor ceil on them",
            "a pair that agrees but misses the hand-expanded value on one back end only is left to C01 (counted inconclusive); a renamed member that meets the hand expansion on one back end is not called wrong for missing it on the other",
            "when the colliding name is a __dtN temporary that this compilation generates, the class is 'live-desugar-temporary-name' whatever the position (either member can be the wrong one)",
            "match inside quoted code is refused by the unchanged tree (code_match undefined): those pairs are observed as 'both refused'"
        ],
        "floor": {"quick": 400, "thorough": 4000},
        "case_timeout_s": 120,
        "hang_is_violation": false,
        "crash_is_violation": false,
        "exhaustive": false,
    })
}

/// Hand-written pairs: the macro binds a *function* (a `let` of a lambda, with and without a declared
/// type, one or two parameters) and the splice sits inside that function's body, so the binder is not
/// in scope there (`let` is not recursive); the user's code calls a function of the same name
/// (a global function, a local function value).
fn function_binder_cases() -> Vec<HCase> {
    let mut v = vec![];
    let binders: [(&str, &str, &str); 4] = [
        ("typed", "let B:(float)->float = |n| { if (n > 0.0) { $x } else { 0.0 } }\n     B(1.0)", ""),
        ("untyped", "let B = |n| { if (n > 0.0) { $x } else { 0.0 } }\n     B(1.0)", ""),
        ("typed-two-parameters", "let B:(float,float)->float = |n, k| { if (n > k) { $x } else { 0.0 } }\n     B(1.0, 0.0)", ""),
        ("typed-after-statement", "let zq_w = 3.0\n     let B:(float)->float = |n| { $x + n * 0.0 }\n     B(zq_w)", ""),
    ];
    let users: [(&str, &str, &str); 2] = [
        ("global-function", "fn g(v){\n  v + 7.0\n}\n", "fn dsp(){\n  m!(`g(0.0))\n}\n"),
        ("local-function-value", "", "fn dsp(){\n  let g = |v| v + 7.0\n  m!(`g(0.0))\n}\n"),
    ];
    for (btag, body, _) in binders {
        for (utag, defs, dsp) in users {
            let text = |b: &str| format!("#stage(macro)\nfn m(x){{\n  `{{ {}\n  }}\n}}\n#stage(main)\n{defs}{dsp}", body.replace('B', b));
            v.push(HCase {
                colliding: text("g"),
                renamed: text("zq_h"),
                expected: 7.0,
                n: 2,
                class: format!("let-bound-function-{btag}/in-bound-expression/macro-captures-user"),
                tags: Tags { form: format!("let-bound-function-{btag}"), position: "in-bound-expression".into(), direction: "macro-captures-user".into(), name_source: "user".into(), name: "g".into(), user_entity: utag.into(), ..Default::default() },
            });
        }
    }
    v
}

/// Hand-written pairs: a local binder of quoted code (in the macro body / at the use site) has the name of
/// a function that an import makes visible (`use m::*`, `use m::f`, a sibling of the current module is not
/// modelled); the binder is referenced from a nested quotation that passes through a macro-stage helper,
/// or from the quoted argument of the macro. The local binder must win (it does on the unchanged tree).
fn import_collision_cases() -> Vec<HCase> {
    let mut v = vec![];
    let imports: [(&str, &str); 3] = [
        ("use-wildcard", "mod util {\n    pub fn depth(v) { v * 100.0 }\n}\nuse util::*\n"),
        ("use-single", "mod util {\n    pub fn depth(v) { v * 100.0 }\n}\nuse util::depth\n"),
        ("use-multi", "mod util {\n    pub fn depth(v) { v * 100.0 }\n    pub fn other(v) { v }\n}\nuse util::{depth, other}\n"),
    ];
    let sites: [(&str, &str, f64); 3] = [
        ("macro-body-nested-quotation", "#stage(macro)\nfn id(c){ c }\nfn m(x){\n  `{ let B = |v| { v * 0.5 }\n     $(id(`{ B($x) })) }\n}\n#stage(main)\nfn dsp(){\n  m!(`3.0)\n}\n", 1.5),
        ("use-site-quoted-argument", "#stage(macro)\nfn m(x){\n  `{ $x + 1.0 }\n}\n#stage(main)\nfn dsp(){\n  let B = |v| { v * 0.5 }\n  m!(`B(3.0))\n}\n", 2.5),
        ("macro-body-doubly-nested", "#stage(macro)\nfn id(c){ c }\nfn m(x){\n  `{ let B = |v| { v * 0.5 }\n     $(id(`{ $(id(`{ B($x) })) + 0.0 })) }\n}\n#stage(main)\nfn dsp(){\n  m!(`3.0)\n}\n", 1.5),
    ];
    for (itag, prelude) in imports {
        for (stag, body, expected) in sites {
            let text = |b: &str| format!("{prelude}{}", body.replace('B', b));
            v.push(HCase {
                colliding: text("depth"),
                renamed: text("zq_d"),
                expected,
                n: 2,
                class: format!("let-bound-function/{stag}/import-captures-local/{itag}"),
                tags: Tags { form: "let-bound-function".into(), position: stag.into(), direction: "import-captures-local".into(), name_source: "imported".into(), name: "depth".into(), user_entity: itag.into(), ..Default::default() },
            });
        }
    }
    v
}

pub fn run(args: &Args, out: &mut Out) {
    let q = (args.q(Q_TUPLE), args.q(Q_IF));
    let all = combos(q.0);
    let mut extra = function_binder_cases();
    extra.extend(import_collision_cases());
    let total = all.len() + args.cases(300, 10_000);
    out.max_samples = 2;
    drive(args, out, total + extra.len(), |idx, rng| if idx >= total { extra.get(idx - total).cloned() } else { Some(generate_case(idx, rng, &all, q)) }, exec);
}

pub fn replay(_args: &Args, out: &mut Out, case: &Value) {
    replay_one::<HCase>(out, case, exec);
}
