//! C05 — the published state layout matches the run-time state accesses: an online
//! trace checker over the hooked state operations of both runtimes, the cursor at
//! the end of every dsp call, and VM/WASM state words after every sample.

use super::c01::corpus_files;
use super::progcase::{Case, gen_case, input_fn, report};
use super::{drive, replay_one};
use crate::run::{Backend, Session, Skeleton};
use crate::util::{Args, Out};
use mimium_lang::verif::{self, Backend as HB, Kind, StateEvent};
use serde_json::{Value, json};
use state_tree::tree::{SizedType, StateTreeSkeleton};
use std::path::PathBuf;

#[derive(Clone, Debug, PartialEq, Eq)]
enum LeafKind {
    Feed,
    Mem,
    Delay,
}

#[derive(Clone, Debug)]
struct Leaf {
    addr: usize,
    size: usize,
    kind: LeafKind,
    path: Vec<usize>,
}

/// independent prefix-sum walk of a skeleton
fn leaves(sk: &Skeleton) -> (Vec<Leaf>, usize) {
    fn rec(s: &Skeleton, addr: &mut usize, path: &mut Vec<usize>, out: &mut Vec<Leaf>) {
        match s {
            StateTreeSkeleton::Delay { len } => {
                out.push(Leaf { addr: *addr, size: *len as usize + 2, kind: LeafKind::Delay, path: path.clone() });
                *addr += *len as usize + 2;
            }
            StateTreeSkeleton::Mem(t) => {
                out.push(Leaf { addr: *addr, size: t.word_size() as usize, kind: LeafKind::Mem, path: path.clone() });
                *addr += t.word_size() as usize;
            }
            StateTreeSkeleton::Feed(t) => {
                out.push(Leaf { addr: *addr, size: t.word_size() as usize, kind: LeafKind::Feed, path: path.clone() });
                *addr += t.word_size() as usize;
            }
            StateTreeSkeleton::FnCall(ch) => {
                for (i, c) in ch.iter().enumerate() {
                    path.push(i);
                    rec(c, addr, path, out);
                    path.pop();
                }
            }
        }
    }
    let mut out = vec![];
    let mut addr = 0;
    rec(sk, &mut addr, &mut vec![], &mut out);
    (out, addr)
}

fn shape(sk: &Skeleton) -> String {
    match sk {
        StateTreeSkeleton::Delay { len } => format!("d{len}"),
        StateTreeSkeleton::Mem(t) => format!("m{}", t.word_size()),
        StateTreeSkeleton::Feed(t) => format!("f{}", t.word_size()),
        StateTreeSkeleton::FnCall(c) => format!("({})", c.iter().map(|x| shape(x)).collect::<Vec<_>>().join(",")),
    }
}

pub struct Checked {
    pub violations: Vec<(String, String)>,
    pub accesses: u64,
    pub leaves_total: usize,
    pub leaves_touched: usize,
    pub layout: String,
    pub state_words_compared: u64,
    pub ran: bool,
    pub kinds_seen: Vec<&'static str>,
    pub wasm_closure_accesses: u64,
}

/// Check the events of one dsp call against a leaf table. Returns the set of leaf indices touched.
fn check_events(evs: &[StateEvent], which: HB, lv: &[Leaf], total: usize, closure_tables: &dyn Fn(i64) -> Option<(Vec<Leaf>, usize)>, touched: &mut [bool], res: &mut Checked, t: usize) {
    for ev in evs.iter().filter(|e| e.backend == which) {
        let (table, tot, is_global): (std::borrow::Cow<[Leaf]>, usize, bool) = if ev.ctx_fn == -1 {
            (std::borrow::Cow::Borrowed(lv), total, true)
        } else if which == HB::Vm {
            match closure_tables(ev.ctx_fn) {
                Some((l, tt)) => (std::borrow::Cow::Owned(l), tt, false),
                None => continue,
            }
        } else {
            // WASM closure storages: only the declared size is known
            // WASM closure storages are created with a declared size (64 words when the callee is
            // not known statically) and grow lazily: nothing to hold the access against.
            if matches!(ev.kind, Kind::Get | Kind::Set | Kind::Mem | Kind::Delay) {
                res.wasm_closure_accesses += 1;
            }
            continue;
        };
        let b = if which == HB::Vm { "vm" } else { "wasm" };
        match ev.kind {
            Kind::Push | Kind::Pop => {}
            Kind::Get | Kind::Set | Kind::Mem | Kind::Delay => {
                res.accesses += 1;
                let want = match ev.kind {
                    Kind::Get | Kind::Set => LeafKind::Feed,
                    Kind::Mem => LeafKind::Mem,
                    _ => LeafKind::Delay,
                };
                if ev.pos + ev.size > tot {
                    res.violations.push((
                        format!("state-access-outside-layout/{b}"),
                        format!("sample {t}: {:?} at pos={} size={} but the layout has {} words (ctx_fn={})", ev.kind, ev.pos, ev.size, tot, ev.ctx_fn),
                    ));
                    continue;
                }
                match table.iter().position(|l| l.addr == ev.pos && l.size == ev.size && l.kind == want) {
                    Some(i) => {
                        if is_global {
                            touched[i] = true;
                        }
                    }
                    None => {
                        let near: Vec<String> = table
                            .iter()
                            .filter(|l| l.addr <= ev.pos && ev.pos < l.addr + l.size.max(1))
                            .map(|l| format!("{:?}@{}+{} {:?}", l.kind, l.addr, l.size, l.path))
                            .collect();
                        res.violations.push((
                            format!("state-access-not-a-layout-cell/{b}"),
                            format!(
                                "sample {t}: {:?} at pos={} size={} matches no {:?} cell of the published layout (ctx_fn={}); cells covering that address: {:?}",
                                ev.kind, ev.pos, ev.size, want, ev.ctx_fn, near
                            ),
                        ));
                    }
                }
            }
        }
    }
}

pub fn check(c: &Case) -> Checked {
    let mut res = Checked {
        violations: vec![],
        accesses: 0,
        leaves_total: 0,
        leaves_touched: 0,
        layout: String::new(),
        state_words_compared: 0,
        ran: false,
        kinds_seen: vec![],
        wasm_closure_accesses: 0,
    };
    let inp = input_fn(c.input_seed, c.finite_inputs);
    let path = c.path.as_ref().map(PathBuf::from);
    verif::configure(verif::Config { record_state: true, assert_bounds: true, step_budget: 200_000_000 });
    let _ = verif::take_state_events();
    let vm = Session::build(Backend::Vm, &c.src, c.scheduler, path.clone());
    let _ = verif::take_state_events(); // accesses during global initialisation are not dsp's
    let wasm = Session::build(Backend::Wasm, &c.src, c.scheduler, path);
    let _ = verif::take_state_events();
    let (Ok(mut vm), Ok(mut wasm)) = (vm, wasm) else {
        crate::util::hooks_default();
        return res;
    };
    let (Some(sk_vm), Some(sk_wasm)) = (vm.skeleton.clone(), wasm.skeleton.clone()) else {
        crate::util::hooks_default();
        return res;
    };
    if sk_vm != sk_wasm {
        res.violations.push(("published-layout-differs-between-backends".into(), format!("vm {} wasm {}", shape(&sk_vm), shape(&sk_wasm))));
    }
    let (lv, total) = leaves(&sk_vm);
    res.layout = shape(&sk_vm);
    res.leaves_total = lv.len();
    if total != sk_vm.total_size() as usize {
        res.violations.push(("total-size-disagrees-with-prefix-sum".into(), format!("{} vs {}", sk_vm.total_size(), total)));
    }
    // the repository's own path -> address mapping must agree with the prefix sum
    for l in &lv {
        match sk_vm.path_to_address(&l.path) {
            Some((a, s)) if a == l.addr && s == l.size => {}
            other => res.violations.push((
                "path-to-address-disagrees-with-prefix-sum".into(),
                format!("path {:?}: path_to_address = {:?}, prefix sum = ({}, {})", l.path, other, l.addr, l.size),
            )),
        }
    }
    // closure prototypes' layouts (VM): fn index -> leaves
    let protos: Vec<(Vec<Leaf>, usize)> =
        vm.vm().map(|m| m.prog.global_fn_table.iter().map(|(_, f)| leaves(&f.state_skeleton)).collect()).unwrap_or_default();
    let closure_tables = |fi: i64| protos.get(fi as usize).cloned();
    let mut touched_vm = vec![false; lv.len()];
    let mut touched_wasm = vec![false; lv.len()];
    let ich = vm.io.input as usize;
    let mut inbuf = vec![0.0; ich];
    for t in 0..c.n {
        for (k, v) in inbuf.iter_mut().enumerate() {
            *v = inp(t, k);
        }
        let rv = vm.step(&inbuf);
        let evs = verif::take_state_events();
        check_events(&evs, HB::Vm, &lv, total, &closure_tables, &mut touched_vm, &mut res, t);
        let rw = wasm.step(&inbuf);
        let evs = verif::take_state_events();
        check_events(&evs, HB::Wasm, &lv, total, &closure_tables, &mut touched_wasm, &mut res, t);
        match (&rv, &rw) {
            (Err(p), _) | (_, Err(p)) => {
                let which = if rv.is_err() { "vm" } else { "wasm" };
                if p.msg.contains("must be in the future") {
                    break;
                }
                res.violations.push((format!("{}/dsp/{which}", p.sig()), format!("at sample {t}: {} @ {}", p.msg, p.loc)));
                break;
            }
            _ => {}
        }
        res.ran = true;
        // cursor back at the origin
        let (cv, cw) = (vm.state_cursor(), wasm.state_cursor());
        if cv != 0 {
            res.violations.push(("state-cursor-not-at-origin-after-dsp/vm".into(), format!("sample {t}: cursor = {cv}")));
        }
        if cw != 0 {
            res.violations.push(("state-cursor-not-at-origin-after-dsp/wasm".into(), format!("sample {t}: cursor = {cw}")));
        }
        // flat words (only where the state holds numbers: generated programs)
        let (sv, sw) = (vm.state_words(), wasm.state_words());
        if sw.len() > total {
            res.violations.push(("wasm-state-storage-larger-than-layout".into(), format!("sample {t}: {} words, layout {}", sw.len(), total)));
        }
        if sv.len() != total {
            res.violations.push(("vm-state-storage-size-differs-from-layout".into(), format!("sample {t}: {} words, layout {}", sv.len(), total)));
        }
        if c.prog.is_some() {
            let n = sv.len().max(sw.len());
            res.state_words_compared += n as u64;
            if let Some(k) = (0..n).find(|&k| {
                let (x, y) = (sv.get(k).copied().unwrap_or(0), sw.get(k).copied().unwrap_or(0));
                !(x == y || (f64::from_bits(x).is_nan() && f64::from_bits(y).is_nan()))
            }) {
                let cell = lv.iter().find(|l| l.addr <= k && k < l.addr + l.size);
                res.violations.push((
                    "state-words-differ-between-backends".into(),
                    format!("after sample {t} word {k}: vm {:#x} wasm {:#x}; cell {:?}", sv.get(k).copied().unwrap_or(0), sw.get(k).copied().unwrap_or(0), cell),
                ));
            }
        }
        if !res.violations.is_empty() {
            break;
        }
    }
    res.leaves_touched = touched_vm.iter().filter(|x| **x).count();
    for (k, name) in [(LeafKind::Feed, "feed"), (LeafKind::Mem, "mem"), (LeafKind::Delay, "delay")] {
        if lv.iter().zip(touched_vm.iter()).any(|(l, t)| *t && l.kind == k) {
            res.kinds_seen.push(name);
        }
    }
    // the two runtimes must touch the same cells
    if res.violations.is_empty() && touched_vm != touched_wasm {
        res.violations.push((
            "backends-touch-different-cells".into(),
            format!("vm touched {:?}, wasm touched {:?} of layout {}", touched_vm, touched_wasm, res.layout),
        ));
    }
    res.violations.dedup_by(|a, b| a.0 == b.0);
    crate::util::hooks_default();
    res
}

fn exec(c: &Case, idx: usize, out: &mut Out) -> bool {
    let dq: Vec<&str> = super::progcase::dyn_quarantined(c).into_iter().filter(|q| *q != "modulo").collect();
    if !dq.is_empty() {
        for q in dq {
            out.quarantined(idx, q);
        }
        return false;
    }
    let r = check(c);
    out.count("state_accesses_checked", r.accesses);
    out.count("state_words_compared", r.state_words_compared);
    out.count("wasm_closure_state_accesses_not_judged", r.wasm_closure_accesses);
    out.count("layout_cells", r.leaves_total as u64);
    out.count("layout_cells_touched_at_run_time", r.leaves_touched as u64);
    if r.ran {
        out.set("layouts", r.layout.clone());
    }
    for k in &r.kinds_seen {
        out.count(&format!("cell_kind_exercised:{k}"), 1);
    }
    let origin = c.origin.as_deref().unwrap_or("generated");
    out.count(&format!("origin:{}", origin.split(':').next().unwrap_or("")), 1);
    report(out, idx, c, &r.violations, &|t| check(t).violations);
    r.ran && r.leaves_total >= 2 && r.leaves_touched == r.leaves_total
}

pub fn meta(args: &Args) -> Value {
    json!({
        "level": "exploration",
        "rule": "generated programs with stateful call trees (nested calls up to depth 5, one function at several sites, tuple-valued self, mem/delay mixes, stateful arguments; state in if arms only when not quarantined) and every shipped source that has a dsp, run for n samples on both runtimes with the state hooks recording. Every Get/Set/Mem/Delay operation is matched against the cells of the published skeleton (own prefix-sum walk, cross-checked against path_to_address): address, size and kind must be exactly one cell; the cursor must be 0 after every dsp call; closure storages against their prototype's skeleton; the VM and WASM flat words must agree after every sample. Non-trivial = layout with at least 2 cells, all of which were accessed at run time; distinct = hash of program text + run parameters.",
        "assumptions": ["hooks record at the VM instruction sites and in the WASM host functions (H2, H7)", "state words are compared only for generated programs (numbers and ring indices); handle-valued state is representation specific"],
        "floor": {"quick": 20, "thorough": 1000},
        "case_timeout_s": 40,
        "hang_is_violation": false,
        "crash_is_violation": false,
        "budget": args.cases(600, 20000),
    })
}

pub fn run(args: &Args, out: &mut Out) {
    let files = corpus_files(&args.repo);
    let ncorpus = files.len();
    let ngen = args.cases(600, 20000);
    let fam = super::progcase::family_cases();
    drive(
        args,
        out,
        ncorpus + ngen + fam.len(),
        |idx, rng| {
            if idx >= ncorpus + ngen {
                return fam.get(idx - ncorpus - ngen).cloned();
            }
            if idx < ncorpus {
                let f = &files[idx];
                let src = std::fs::read_to_string(f).ok()?;
                for bad in ["Sampler", "sampler", "midi", "loadwav", "gen_sampler", "Slider", "Probe"] {
                    if src.contains(bad) {
                        return None;
                    }
                }
                let name = f.file_name()?.to_string_lossy().to_string();
                if args.q(&format!("corpus:{name}")) {
                    return None;
                }
                Some(Case {
                    src,
                    n: 24,
                    input_seed: rng.next(),
                    finite_inputs: true,
                    prog: None,
                    expect: None,
                    scheduler: true,
                    path: Some(f.to_string_lossy().to_string()),
                    origin: Some(format!("corpus:{name}")),
                    split: None,
                })
            } else {
                let mut c = gen_case(args, rng, true);
                // long enough for every ring to wrap
                c.n = *rng.pick(&[24usize, 40, 72]);
                Some(c)
            }
        },
        exec,
    );
}

pub fn replay(_args: &Args, out: &mut Out, case: &Value) {
    replay_one::<Case>(out, case, exec);
}
