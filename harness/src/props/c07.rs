//! C07 — hot swap after an edit preserves the state of untouched signal paths.
//!
//! `dsp` returns one channel per voice. Voices come from a template library whose
//! state shapes are pairwise unmatchable (no two templates share a leaf at the same
//! nesting level), each template used at most once, so the expected continuation of
//! every channel is unambiguous. Each template has an independent Rust model.

use super::{drive, replay_one};
use crate::run::{Backend, BuildError, Session};
use crate::util::{Args, Out, Rng, bits_eq, f64s_to_json};
use serde::{Deserialize, Serialize};
use serde_json::{Value, json};
use std::collections::VecDeque;

pub const NT: usize = 10;
/// templates 0..NT_SAFE have pairwise unmatchable shapes; template 6 (Feed(1), Mem) partially matches 0 and 1
pub const NT_SAFE: usize = 6;

/// mimium definitions of the voice templates (index = template id)
const DEFS: [&str; NT] = [
    "fn va(c){ self + c }",
    "fn vb(c){ mem(now * c) }",
    "fn vc(c){ delay(3.0, now * c, 2.0) }",
    "fn vd(c){ delay(5.0, now + c, 4.0) }",
    "fn ve0(c)->(float,float){ let (a,b) = self\n  (a + c, b + 1.0) }\nfn ve(c){ let (a,b) = ve0(c)\n  a + b }",
    "fn vf1(c){ mem(c + now) }\nfn vf2(c){ delay(3.0, c * now, 1.0) }\nfn vf3(c){ vf1(c) }\nfn vf4(c){ vf2(c) }\nfn vf(c){ vf3(c) + vf4(c) }",
    "fn vg(c){ mem(self + c) }",
    // family H (templates 7, 8, 9; at most one of them in a program): a delay whose source is a stateful
    // call. 7 -> 8 edits the delay (its length), 7 -> 9 edits the argument; the other site is untouched
    "fn vh1(c)->(float,float,float){ let (a,b,d) = self\n  (a + c, b + 1.0, d + 2.0) }\nfn vhs(c){ let (a,b,d) = vh1(c)\n  a + b + d }\nfn vh(c){ delay(4.0, vhs(c), 2.0) }",
    "fn vi(c){ delay(8.0, vhs(c), 2.0) }",
    "fn vh2(c){ delay(2.0, c * now, 1.0) }\nfn vj(c){ delay(4.0, vh2(c), 2.0) }",
];
const NAMES: [&str; NT] = ["va", "vb", "vc", "vd", "ve", "vf", "vg", "vh", "vi", "vj"];
/// templates of one family are variants of one voice (an edit of its body); a program holds at most one of them
pub fn fam(t: usize) -> usize {
    if t >= 7 { 7 } else { t }
}
/// templates that general exploration draws from (6 = vg is kept for a recorded history only)
pub const POOL: [usize; 9] = [0, 1, 2, 3, 4, 5, 7, 8, 9];
/// wrapped one call deeper (a different state shape)
const WRAP_DEFS: [&str; NT] = [
    "fn wva(c){ va(c) }",
    "fn wvb(c){ vb(c) }",
    "fn wvc(c){ vc(c) }",
    "fn wvd(c){ vd(c) }",
    "fn wve(c){ ve(c) }",
    "fn wvf(c){ vf(c) }",
    "fn wvg(c){ vg(c) }",
    "fn wvh(c){ vh(c) }",
    "fn wvi(c){ vi(c) }",
    "fn wvj(c){ vj(c) }",
];

#[derive(Clone, Debug, PartialEq, Serialize, Deserialize)]
pub struct Voice {
    pub t: usize,
    pub c: f64,
    pub wrapped: bool,
}

/// Rust models of the templates.
#[derive(Clone, Debug)]
enum Model {
    A { s: f64 },
    B { prev: f64 },
    C { hist: VecDeque<f64> },
    D { hist: VecDeque<f64> },
    E { a: f64, b: f64 },
    F { prev: f64, hist: VecDeque<f64> },
    G { self_prev: f64, mem_prev: f64 },
    H { var: usize, a: f64, b: f64, d: f64, arg_hist: VecDeque<f64>, hist: VecDeque<f64> },
}
impl Model {
    fn fresh(t: usize) -> Model {
        match t {
            0 => Model::A { s: 0.0 },
            1 => Model::B { prev: 0.0 },
            2 => Model::C { hist: VecDeque::new() },
            3 => Model::D { hist: VecDeque::new() },
            4 => Model::E { a: 0.0, b: 0.0 },
            5 => Model::F { prev: 0.0, hist: VecDeque::new() },
            6 => Model::G { self_prev: 0.0, mem_prev: 0.0 },
            _ => Model::H { var: t - 7, a: 0.0, b: 0.0, d: 0.0, arg_hist: VecDeque::new(), hist: VecDeque::new() },
        }
    }
    /// state of an edited voice (another variant of the same family): the sites the edit left
    /// untouched keep their state, the edited site starts from zero
    fn carried_to(&self, t: usize) -> Model {
        match self {
            Model::H { var, a, b, d, hist, .. } => {
                let nv = t - 7;
                let mut m = Model::fresh(t);
                if let Model::H { a: na, b: nb, d: nd, hist: nh, .. } = &mut m {
                    match (*var, nv) {
                        // delay length edited: the argument's cell survives
                        (0, 1) | (1, 0) => {
                            *na = *a;
                            *nb = *b;
                            *nd = *d;
                        }
                        // argument edited: the delay line survives
                        (0, 2) | (2, 0) => *nh = hist.clone(),
                        _ => {}
                    }
                }
                m
            }
            _ => Model::fresh(t),
        }
    }
    fn step(&mut self, now: f64, c: f64) -> f64 {
        fn delay(h: &mut VecDeque<f64>, n: usize, x: f64, d: usize) -> f64 {
            let r = h.get(d - 1).copied().unwrap_or(0.0);
            h.push_front(x);
            h.truncate(n);
            r
        }
        match self {
            Model::A { s } => {
                *s += c;
                *s
            }
            Model::B { prev } => std::mem::replace(prev, now * c),
            Model::C { hist } => delay(hist, 3, now * c, 2),
            Model::D { hist } => delay(hist, 5, now + c, 4),
            Model::E { a, b } => {
                *a += c;
                *b += 1.0;
                *a + *b
            }
            Model::F { prev, hist } => {
                let x = std::mem::replace(prev, c + now);
                x + delay(hist, 3, c * now, 1)
            }
            Model::G { self_prev, mem_prev } => {
                let out = *mem_prev;
                *mem_prev = *self_prev + c;
                *self_prev = out;
                out
            }
            Model::H { var, a, b, d, arg_hist, hist } => {
                let src = if *var == 2 {
                    delay(arg_hist, 2, c * now, 1)
                } else {
                    *a += c;
                    *b += 1.0;
                    *d += 2.0;
                    *a + *b + *d
                };
                delay(hist, if *var == 1 { 8 } else { 4 }, src, 2)
            }
        }
    }
}

#[derive(Clone, Debug, Serialize, Deserialize)]
pub enum Edit {
    /// swap in this voice list after `at` more samples
    Swap { at: usize, voices: Vec<Voice> },
    /// try to compile a broken text after `at` more samples (must change nothing)
    Broken { at: usize, kind: u8 },
}

#[derive(Clone, Debug, Serialize, Deserialize)]
pub struct Case {
    pub initial: Vec<Voice>,
    pub edits: Vec<Edit>,
    pub tail: usize,
    /// pad the output tuple to a constant channel count (None: as the quarantine list says)
    #[serde(default)]
    pub pad: Option<bool>,
}

pub fn source(voices: &[Voice]) -> String {
    source_padded(voices, PAD.with(|p| p.get()))
}

thread_local! {
    /// pad dsp's output tuple with constant channels up to NT (see quarantine `wasm-swap-changes-channel-count`)
    static PAD: std::cell::Cell<bool> = const { std::cell::Cell::new(false) };
}

pub fn source_padded(voices: &[Voice], pad: bool) -> String {
    let mut s = String::new();
    for d in DEFS {
        s.push_str(d);
        s.push('\n');
    }
    for v in voices {
        if v.wrapped {
            s.push_str(WRAP_DEFS[v.t]);
            s.push('\n');
        }
    }
    let mut calls: Vec<String> = voices
        .iter()
        .map(|v| format!("{}{}({})", if v.wrapped { "w" } else { "" }, NAMES[v.t], crate::gens::core::fmt_num(v.c, false)))
        .collect();
    if pad {
        while calls.len() < NT {
            calls.push("0.0".into());
        }
    }
    if calls.len() == 1 {
        s.push_str(&format!("fn dsp(){{\n  {}\n}}\n", calls[0]));
    } else {
        s.push_str(&format!("fn dsp(){{\n  ({})\n}}\n", calls.join(", ")));
    }
    s
}

pub struct Checked {
    pub violations: Vec<(String, String)>,
    pub swaps: u64,
    pub failed_compiles: u64,
    pub channel_samples_checked: u64,
    pub ran: bool,
    pub model_mismatch: Option<String>,
    pub edit_kinds: Vec<&'static str>,
}

pub fn check(c: &Case) -> Checked {
    let mut res = Checked {
        violations: vec![],
        swaps: 0,
        failed_compiles: 0,
        channel_samples_checked: 0,
        ran: false,
        model_mismatch: None,
        edit_kinds: vec![],
    };
    for b in [Backend::Vm, Backend::Wasm] {
        let src0 = source(&c.initial);
        let mut s = match Session::build(b, &src0, false, None) {
            Ok(s) => s,
            Err(e) => {
                res.model_mismatch = Some(format!("initial program does not build on {}: {}", b.name(), e.short()));
                return res;
            }
        };
        let mut cur: Vec<Voice> = c.initial.clone();
        let mut models: Vec<Model> = cur.iter().map(|v| Model::fresh(v.t)).collect();
        let mut t: usize = 0;
        let mut swapped = false;
        let mut segments: Vec<(usize, Option<&Edit>)> = c.edits.iter().map(|e| (match e { Edit::Swap { at, .. } | Edit::Broken { at, .. } => *at }, Some(e))).collect();
        segments.push((c.tail, None));
        'run: for (len, edit) in segments {
            for _ in 0..len {
                let out = match s.step(&[]) {
                    Ok(o) => o.out,
                    Err(p) => {
                        res.violations.push((format!("{}/dsp/{}", p.sig(), b.name()), format!("sample {t}: {} @ {}", p.msg, p.loc)));
                        break 'run;
                    }
                };
                let expect_ch = if PAD.with(|p| p.get()) { NT } else { cur.len() };
                if out.len() != expect_ch {
                    res.violations.push((
                        format!("channel-count-after-swap/{}", b.name()),
                        format!("sample {t}: {} channels, program has {} voices", out.len(), cur.len()),
                    ));
                    break 'run;
                }
                for (ch, v) in cur.iter().enumerate() {
                    let want = models[ch].step(t as f64, v.c);
                    res.channel_samples_checked += 1;
                    if !bits_eq(want, out[ch]) {
                        if !swapped {
                            res.model_mismatch = Some(format!(
                                "{}: uninterrupted sample {t} voice {:?}: runtime {:?} model {:?}",
                                b.name(), v, out[ch], want
                            ));
                            return res;
                        }
                        res.violations.push((
                            format!("channel-differs-from-expected-continuation/{}", b.name()),
                            format!(
                                "sample {t} channel {ch} (voice {}{} c={}): runtime {} expected {}; voices now {:?}; history {:?}",
                                if v.wrapped { "wrapped " } else { "" }, NAMES[v.t], v.c,
                                f64s_to_json(&[out[ch]]), f64s_to_json(&[want]), cur, c.edits
                            ),
                        ));
                        break 'run;
                    }
                }
                t += 1;
            }
            res.ran = true;
            match edit {
                None => {}
                Some(Edit::Broken { kind, .. }) => {
                    let good = source(&cur);
                    let bad = match kind % 4 {
                        0 => good.replacen("fn dsp(){", "fn dsp(){ let = ", 1),
                        1 => good.replacen("fn dsp(){", "fn dsp(){ let zz = undefined_name\n", 1),
                        2 => format!("{good}\nfn extra(x:float)->string {{ x }}\nfn dsp2(){{ extra(1.0) + 1.0 }}\n").replacen("fn dsp(){", "fn dsp(){ let q = extra(1.0) + 1.0\n", 1),
                        _ => good.replace(')', ""),
                    };
                    res.edit_kinds.push("compile-error");
                    match s.hot_swap(&bad) {
                        Err(BuildError::Rejected(_)) => res.failed_compiles += 1,
                        Err(BuildError::Panicked(ph, p)) => {
                            res.violations.push((format!("{}/{ph}/{}", p.sig(), b.name()), format!("compiling a broken edit: {} @ {}", p.msg, p.loc)));
                            break 'run;
                        }
                        Err(_) => res.failed_compiles += 1,
                        Ok(_) => {
                            // the "broken" text compiled after all: it is then a real swap of the same voices
                            swapped = true;
                        }
                    }
                }
                Some(Edit::Swap { voices, .. }) => {
                    let new_src = source(voices);
                    match s.hot_swap(&new_src) {
                        Ok(true) => {
                            res.swaps += 1;
                            swapped = true;
                        }
                        Ok(false) => {
                            res.violations.push((format!("try-hot-swap-refused/{}", b.name()), format!("at sample {t}")));
                            break 'run;
                        }
                        Err(BuildError::Panicked(ph, p)) => {
                            res.violations.push((format!("{}/{ph}/{}", p.sig(), b.name()), format!("swap at sample {t}: {} @ {}", p.msg, p.loc)));
                            break 'run;
                        }
                        Err(e) => {
                            res.violations.push((format!("swap-preparation-failed/{}", b.name()), format!("at sample {t}: {}", e.short())));
                            break 'run;
                        }
                    }
                    // expected continuation: same template (and same wrapping) keeps its state, everything else starts from zero
                    let mut new_models = vec![];
                    for v in voices {
                        match cur.iter().position(|o| fam(o.t) == fam(v.t) && o.wrapped == v.wrapped) {
                            Some(i) if cur[i].t != v.t => {
                                new_models.push(models[i].carried_to(v.t));
                                res.edit_kinds.push("body-edited/untouched-sites-inside");
                            }
                            Some(i) => {
                                new_models.push(models[i].clone());
                                if (cur[i].c - v.c).abs() > 0.0 {
                                    res.edit_kinds.push("constant-changed");
                                } else {
                                    res.edit_kinds.push("untouched");
                                }
                            }
                            None => {
                                new_models.push(Model::fresh(v.t));
                                res.edit_kinds.push(if v.wrapped { "nested-deeper/new" } else { "inserted" });
                            }
                        }
                    }
                    if cur.iter().any(|o| !voices.iter().any(|v| fam(v.t) == fam(o.t) && v.wrapped == o.wrapped)) {
                        res.edit_kinds.push("deleted");
                    }
                    cur = voices.clone();
                    models = new_models;
                }
            }
        }
    }
    res.violations.dedup_by(|a, b| a.0 == b.0);
    res
}

fn exec_with(args: &Args) -> impl Fn(&Case, usize, &mut Out) -> bool + '_ {
    move |c, idx, out| {
        PAD.with(|p| p.set(c.pad.unwrap_or(args.q("wasm-swap-changes-channel-count"))));
        exec(c, idx, out)
    }
}

fn exec(c: &Case, idx: usize, out: &mut Out) -> bool {
    let r = check(c);
    if let Some(m) = &r.model_mismatch {
        out.inconclusive(idx, &format!("voice model does not describe the uninterrupted run: {m}"));
        return false;
    }
    out.count("swaps_performed", r.swaps);
    out.count("failed_compiles_injected", r.failed_compiles);
    out.count("channel_samples_checked", r.channel_samples_checked);
    for k in &r.edit_kinds {
        out.count(&format!("voice_fate:{k}"), 1);
    }
    let cj = serde_json::to_value(c).unwrap();
    for (sig, detail) in &r.violations {
        let key = format!("violations:{sig}");
        let seen = out.counters.get(&key).copied().unwrap_or(0);
        out.count(&key, 1);
        if seen < 5 {
            // minimise: drop edits / voices while the signature persists
            let small = if seen == 0 { minimise(c, sig) } else { c.clone() };
            let d = check(&small).violations.into_iter().find(|v| &v.0 == sig).map(|v| v.1).unwrap_or(detail.clone());
            let mut small = small;
            small.pad = Some(PAD.with(|p| p.get()));
            let mut j = serde_json::to_value(&small).unwrap();
            j["src_initial"] = Value::String(source(&small.initial));
            out.violation(idx, sig, &d, &j);
        }
    }
    let _ = cj;
    r.ran && r.swaps > 0
}

fn minimise(c: &Case, sig: &str) -> Case {
    let has = |x: &Case| check(x).violations.iter().any(|v| v.0 == sig);
    let mut cur = c.clone();
    loop {
        let mut progressed = false;
        // fewer edits
        for i in 0..cur.edits.len() {
            let mut t = cur.clone();
            t.edits.remove(i);
            if has(&t) {
                cur = t;
                progressed = true;
                break;
            }
        }
        if progressed {
            continue;
        }
        // fewer voices everywhere (remove template k from all lists)
        for k in 0..NT {
            let mut t = cur.clone();
            t.initial.retain(|v| v.t != k);
            for e in t.edits.iter_mut() {
                if let Edit::Swap { voices, .. } = e {
                    voices.retain(|v| v.t != k);
                }
            }
            let ok_lists = !t.initial.is_empty() && t.edits.iter().all(|e| !matches!(e, Edit::Swap { voices, .. } if voices.is_empty()));
            if ok_lists && t.initial.len() < cur.initial.len().max(1) + 10 && serde_json::to_string(&t).unwrap() != serde_json::to_string(&cur).unwrap() && has(&t) {
                cur = t;
                progressed = true;
                break;
            }
        }
        if progressed {
            continue;
        }
        // earlier swaps, shorter tail
        for i in 0..cur.edits.len() {
            let mut t = cur.clone();
            match &mut t.edits[i] {
                Edit::Swap { at, .. } | Edit::Broken { at, .. } if *at > 1 => *at /= 2,
                _ => continue,
            }
            if has(&t) {
                cur = t;
                progressed = true;
                break;
            }
        }
        if !progressed && cur.tail > 2 {
            let mut t = cur.clone();
            t.tail /= 2;
            if has(&t) {
                cur = t;
                progressed = true;
            }
        }
        if !progressed {
            return cur;
        }
    }
}

fn rand_const(rng: &mut Rng) -> f64 {
    *rng.pick(&[0.5, 1.0, 2.0, 3.0, 0.25, 1.5, 7.0])
}

fn rand_voices(rng: &mut Rng, k: usize, _pool: usize) -> Vec<Voice> {
    let mut ts: Vec<usize> = POOL.to_vec();
    rng.shuffle(&mut ts);
    let mut chosen: Vec<usize> = vec![];
    for t in ts {
        if chosen.len() < k && !chosen.iter().any(|c| fam(*c) == fam(t)) {
            chosen.push(t);
        }
    }
    chosen.sort(); // voices keep a canonical relative order: edits never reorder survivors
    chosen.into_iter().map(|t| Voice { t, c: rand_const(rng), wrapped: false }).collect()
}

/// one random edit of a voice list (never reorders survivors, never duplicates a template)
fn edit_voices(rng: &mut Rng, cur: &[Voice], pool: usize) -> Vec<Voice> {
    let mut v: Vec<Voice> = cur.to_vec();
    let _ = pool;
    let absent: Vec<usize> = POOL.iter().copied().filter(|t| !v.iter().any(|x| fam(x.t) == fam(*t))).collect();
    for _ in 0..8 {
        match rng.below(6) {
            5 => {
                // edit the body of a voice: another variant of its family
                if let Some(i) = v.iter().position(|x| x.t >= 7) {
                    let others: Vec<usize> = [7usize, 8, 9].into_iter().filter(|t| *t != v[i].t).collect();
                    v[i].t = *rng.pick(&others);
                    return v;
                }
            }
            0 if !absent.is_empty() => {
                // insert an absent template at its canonical position
                let t = *rng.pick(&absent);
                let pos = v.iter().position(|x| x.t > t).unwrap_or(v.len());
                v.insert(pos, Voice { t, c: rand_const(rng), wrapped: false });
                return v;
            }
            1 if v.len() > 1 => {
                let i = rng.below(v.len());
                v.remove(i);
                return v;
            }
            2 if !absent.is_empty() => {
                // replace: delete one, insert another template
                let i = rng.below(v.len());
                v.remove(i);
                let t = *rng.pick(&absent);
                let pos = v.iter().position(|x| x.t > t).unwrap_or(v.len());
                v.insert(pos, Voice { t, c: rand_const(rng), wrapped: false });
                return v;
            }
            3 => {
                let i = rng.below(v.len());
                v[i].wrapped = !v[i].wrapped;
                return v;
            }
            4 => {
                let i = rng.below(v.len());
                let c0 = v[i].c;
                v[i].c = rand_const(rng);
                if v[i].c != c0 {
                    return v;
                }
            }
            _ => {}
        }
    }
    v
}

fn gen_case(args: &Args, idx: usize, rng: &mut Rng) -> Case {
    // Template 6 (Feed(1), Mem) shares leaves with templates 0 and 1: replacing it by one of them
    // (or the reverse) yields the same pair of layouts as editing the voice's body, so "new sites
    // start from zero" and "untouched sites continue" cannot both be read off the layouts. It is
    // used only in the recorded history findings/C07/fixed/displaced_survivor.json.
    let _ = NT;
    let pool = NT_SAFE;
    let k = 1 + rng.below(5);
    let mut initial = rand_voices(rng, k, pool);
    // a third of the histories start with a voice of family H (its body is what gets edited)
    if rng.chance(1, 3) && !initial.iter().any(|v| v.t >= 7) {
        initial.push(Voice { t: 7 + rng.below(3), c: rand_const(rng), wrapped: false });
    }
    let mut cur = initial.clone();
    let nedits = 1 + rng.below(4);
    let mut edits = vec![];
    for j in 0..nedits {
        // dense early swap times (incl. 0) in the first edits of the first cases, random later
        let at = if j == 0 && idx < 50 { idx % 25 } else if rng.chance(1, 2) { rng.below(12) } else { rng.below(if args.thorough() { 400 } else { 80 }) };
        if rng.chance(1, 5) {
            edits.push(Edit::Broken { at, kind: rng.below(4) as u8 });
        } else {
            // one edit per swap, or several that accumulated before the next successful compilation
            let mut next = edit_voices(rng, &cur, pool);
            if rng.chance(1, 3) {
                for _ in 0..(1 + rng.below(3)) {
                    next = edit_voices(rng, &next, pool);
                }
            }
            cur = next.clone();
            edits.push(Edit::Swap { at, voices: next });
        }
    }
    Case { initial, edits, tail: 6 + rng.below(20), pad: None }
}

pub fn meta(args: &Args) -> Value {
    json!({
        "level": "exploration",
        "rule": "dsp returns one channel per voice; voices are drawn (each template at most once, canonical order) from 6 templates with pairwise unmatchable state shapes Feed(1) / Mem / Delay(3) / Delay(5) / nested Feed(2) / nested (Mem, Delay(3)); histories of 1-4 edits (insert / delete / replace a voice, nest a voice one call deeper, change a constant, try to compile a broken text) at swap times 0..24 and random later ones, on both runtimes through the same swap path as C06. After every sample each channel is compared bitwise with an independent Rust model of its template whose state is kept across a swap exactly when the template (and nesting) is present before and after, and reset to zero otherwise; a failed compile must change nothing. Before the first swap the models are validated against the uninterrupted run (else the case is inconclusive). Non-trivial = at least one swap happened; distinct = hash of the history.",
        "assumptions": ["templates are used at most once per program, so 'exchange among identically shaped siblings' cannot blur the expectation", "survivors are never reordered by the generated edits"],
        "floor": {"quick": 50, "thorough": 2000},
        "case_timeout_s": 60,
        "hang_is_violation": false,
        "budget": args.cases(1500, 20000),
    })
}

pub fn run(args: &Args, out: &mut Out) {
    let total = args.cases(1500, 20000);
    let exec = exec_with(args);
    drive(args, out, total, |idx, rng| Some(gen_case(args, idx, rng)), exec);
}

pub fn replay(args: &Args, out: &mut Out, case: &Value) {
    let mut c = case.clone();
    if let Some(o) = c.as_object_mut() {
        o.remove("src_initial");
    }
    let exec = exec_with(args);
    replay_one::<Case>(out, &c, exec);
}
