//! C03 — programs the type checker accepts compile on both back ends and run
//! without panics, aborts, hangs or out-of-bounds accesses; dsp yields the declared
//! number of words. Oracle: process outcome + hook bounds assertions (+ sanitizers in
//! the thorough tier, see tools/).

use super::c01::corpus_files;
use super::progcase::{Case, gen_case, input_fn, norm, report};
use super::{drive, replay_one};
use crate::run::{Backend, BuildError, Session};
use crate::util::{Args, Out, Rng};
use serde_json::{Value, json};
use std::path::PathBuf;

pub struct Checked {
    pub violations: Vec<(String, String)>,
    pub accepted: Vec<&'static str>,
    pub rejected: bool,
    pub dsp_calls: usize,
    pub steps: u64,
    pub state_ops: u64,
    pub syntax_error: bool,
    pub heavy: bool,
}

pub fn check(c: &Case) -> Checked {
    let mut res = Checked { violations: vec![], accepted: vec![], rejected: false, dsp_calls: 0, steps: 0, state_ops: 0, syntax_error: false, heavy: false };
    let inp = input_fn(c.input_seed, c.finite_inputs);
    let path = c.path.as_ref().map(PathBuf::from);
    // texts with syntax errors are C04's business (C03 is about programs the checker accepts)
    let src = c.src.clone();
    let p2 = path.clone();
    crate::util::phase("parse");
    match crate::util::catch(move || !mimium_lang::compiler::parser::parse_to_expr(&src, p2).2.is_empty()) {
        Ok(true) | Err(_) => {
            res.syntax_error = true;
            return res;
        }
        Ok(false) => {}
    }
    let mut vm_accepts = false;
    for &b in Backend::all() {
        let steps0 = mimium_lang::verif::total_steps();
        let ops0 = mimium_lang::verif::state_event_count();
        let _ = mimium_lang::verif::take_misc_events();
        crate::util::phase(&format!("compile/{}", b.name()));
        match Session::build(b, &c.src, c.scheduler, path.clone()) {
            Ok(mut s) => {
                crate::util::phase(&format!("dsp/{}", b.name()));
                res.accepted.push(b.name());
                if b == Backend::Vm {
                    vm_accepts = true;
                }
                let ich = s.io.input as usize;
                let och = s.io.output as usize;
                let mut inbuf = vec![0.0; ich];
                // inside the Miri interpreter a dsp call costs seconds: a handful of samples per case
                let n = if cfg!(miri) { c.n.min(6) } else { c.n };
                for t in 0..n {
                    for (k, v) in inbuf.iter_mut().enumerate() {
                        *v = inp(t, k);
                    }
                    match s.step(&inbuf) {
                        Ok(st) => {
                            res.dsp_calls += 1;
                            if b == Backend::Vm && st.rc != och as i64 {
                                res.violations.push((
                                    "dsp-word-count/vm".into(),
                                    format!("sample {t}: dsp returned {} words, its type declares {och}", st.rc),
                                ));
                                break;
                            }
                            if b == Backend::Wasm && st.rc < 0 {
                                res.violations.push(("dsp-trap/wasm".into(), format!("sample {t}: run_dsp returned {}", st.rc)));
                                break;
                            }
                            if st.out.len() != och {
                                res.violations.push((
                                    format!("dsp-word-count/{}", b.name()),
                                    format!("sample {t}: {} output words, declared {och}", st.out.len()),
                                ));
                                break;
                            }
                        }
                        Err(p) if p.msg.contains("must be in the future") => {
                            // the scheduler's documented refusal of a task scheduled at or before
                            // the current sample (tests/scheduler_test.rs::scheduler_invalid expects it)
                            res.rejected = true;
                            break;
                        }
                        Err(p) => {
                            let tag = p.is_verif_tag().unwrap_or("");
                            if tag == "VERIF-STEPS" {
                                // 2e8 VM instructions in one dsp call: a hang only if the program is light by
                                // the reference interpreter's count; otherwise the program is just heavy
                                let light = c.prog.as_ref().is_some_and(|pr| crate::refsem::run(pr, 2, &inp).is_ok());
                                if light {
                                    res.violations.push((format!("hang-step-budget/dsp/{}", b.name()), format!("at sample {t}: {}", p.msg)));
                                } else {
                                    res.heavy = true;
                                }
                                break;
                            }
                            let sig = format!("{}/dsp/{}", p.sig(), b.name());
                            res.violations.push((sig, format!("at sample {t}: {} @ {}", p.msg, p.loc)));
                            break;
                        }
                    }
                }
            }
            Err(BuildError::Rejected(d)) => {
                if b == Backend::Wasm && vm_accepts {
                    res.violations.push((
                        format!("type-checked-program-refused-by-wasm-codegen: {}", d.first().map(|d| norm(&d.message)).unwrap_or_default()),
                        d.first().map(|d| d.message.clone()).unwrap_or_default(),
                    ));
                } else {
                    res.rejected = true;
                }
            }
            Err(BuildError::NoDsp) => {
                res.rejected = true;
            }
            Err(BuildError::BackendRefused(m)) => {
                res.violations.push((format!("backend-refused/{}: {}", b.name(), norm(&m)), m));
            }
            Err(BuildError::Panicked(_, p)) if p.msg.contains("must be in the future") => {
                res.rejected = true;
            }
            Err(BuildError::Panicked(ph, p)) => {
                let sig = match p.is_verif_tag() {
                    Some("VERIF-STEPS") => format!("hang-step-budget/{ph}/{}", b.name()),
                    // the message embeds the expression: keep the site, drop the program text
                    _ if p.msg.starts_with("type inference failed for expr") => {
                        format!("panic@lib/mimium-lang/src/compiler/mirgen.rs: type inference failed for expr/{ph}/{}", b.name())
                    }
                    _ => format!("{}/{ph}/{}", p.sig(), b.name()),
                };
                res.violations.push((sig, format!("{} @ {}", p.msg, p.loc)));
            }
        }
        // violations recorded by hooks that did not panic (WASM host side records only)
        for ev in mimium_lang::verif::take_misc_events() {
            if let mimium_lang::verif::MiscEvent::Violation(m) = ev {
                let sig = format!("hook-bounds/{}: {}", b.name(), norm(&m));
                if !res.violations.iter().any(|v| v.1.contains(&m)) {
                    res.violations.push((sig, m));
                }
            }
        }
        res.steps += mimium_lang::verif::total_steps() - steps0;
        res.state_ops += mimium_lang::verif::state_event_count() - ops0;
    }
    // a program refused identically by both is fine; keep only one entry per signature
    res.violations.dedup_by(|a, b| a.0 == b.0);
    // near-miss programs (ill-typed texts the checker lets through) get signatures of their own,
    // so that a recorded hole of the type checker never hides the same crash site for a
    // well-typed program
    if c.origin.as_deref().is_some_and(|o| o.starts_with("nearmiss")) {
        for v in res.violations.iter_mut() {
            v.0 = format!("nearmiss: {}", v.0);
        }
    }
    res
}

fn exec(c: &Case, idx: usize, out: &mut Out) -> bool {
    let r = check(c);
    for f in c.prog.iter().flat_map(|p| p.features.iter()) {
        out.count(&format!("feature:{f}"), 1);
    }
    let origin = c.origin.as_deref().unwrap_or("generated");
    out.count(&format!("origin:{}", origin.split(':').next().unwrap_or("")), 1);
    for b in &r.accepted {
        out.count(&format!("accepted:{b}"), 1);
    }
    if r.rejected {
        out.count("rejected_with_diagnostics", 1);
    }
    if r.syntax_error {
        out.count("syntax_error_out_of_scope", 1);
    }
    if r.heavy {
        out.inconclusive(idx, "instruction budget exhausted by a program the reference interpreter also finds heavy");
    }
    out.count("dsp_calls", r.dsp_calls as u64);
    out.count("vm_instructions_executed", r.steps);
    out.count("state_accesses_bounds_checked", r.state_ops);
    report(out, idx, c, &r.violations, &|t| check(t).violations);
    !r.accepted.is_empty() && r.dsp_calls > 0
}

/// Near-miss text mutations: change the type of something and see whether the checker
/// still accepts (most are rejected with a diagnostic, which is fine).
const GENERIC_TEMPLATES: [&str; 7] = [
    "fn choose(c, a, b){\n  let first = if (c) a else b\n  if (c) a else b\n}\nfn dsp(){\n  choose(1.0, 2.0, 3.0)\n}\n",
    "fn twice(f, x){\n  f(f(x))\n}\nfn dsp(){\n  twice(|v| v + 1.0, 1.0)\n}\n",
    "fn pair(a, b){\n  (a, b)\n}\nfn fst(p){\n  p.0\n}\nfn dsp(){\n  fst(pair(1.0, 2.0))\n}\n",
    "fn pick(c, a, b){\n  let t = (a, b)\n  if (c) t.0 else t.1\n}\nfn dsp(){\n  pick(0.0, 1.0, 2.0)\n}\n",
    "fn app(f, a){\n  f(a)\n}\nfn id(x){\n  x\n}\nfn dsp(){\n  app(id, 1.0)\n}\n",
    "fn sel(c, a, b){\n  let u = if (c) b else a\n  let w = if (c) a else u\n  w\n}\nfn dsp(){\n  sel(1.0, 2.0, 3.0) + sel(0.0, 1.0, 1.0)\n}\n",
    "fn keep(a, b){\n  let arr = [a, b]\n  arr[0]\n}\nfn dsp(){\n  keep(1.0, 2.0)\n}\n",
];

/// Every replacement of one match-arm pattern by the pattern of another arm of the same `match`
/// (a duplicated constructor with another one missing: exhaustiveness must still be judged per constructor).
pub fn match_arm_variants(src: &str) -> Vec<String> {
    let lines: Vec<&str> = src.lines().collect();
    // arms = lines of the form `<pattern> => ...`; consecutive arm lines form one match
    let is_arm = |l: &str| l.contains("=>") && !l.trim_start().starts_with("//");
    let mut out = vec![];
    let mut i = 0;
    while i < lines.len() {
        if is_arm(lines[i]) {
            let mut j = i;
            while j < lines.len() && is_arm(lines[j]) {
                j += 1;
            }
            for a in i..j {
                for b in i..j {
                    if a == b {
                        continue;
                    }
                    let pat_b = lines[b].split("=>").next().unwrap_or("");
                    let rest_a = lines[a].splitn(2, "=>").nth(1).unwrap_or("");
                    // keep arm a's body only if it does not use binders of its own pattern
                    let binders_a: Vec<&str> = lines[a].split("=>").next().unwrap_or("").split(|c: char| !c.is_alphanumeric() && c != '_').filter(|w| w.chars().next().is_some_and(|c| c.is_ascii_lowercase())).collect();
                    let body = if binders_a.iter().any(|w| rest_a.contains(w)) { lines[b].splitn(2, "=>").nth(1).unwrap_or("") } else { rest_a };
                    let mut v: Vec<String> = lines.iter().map(|l| l.to_string()).collect();
                    v[a] = format!("{pat_b}=>{body}");
                    out.push(v.join("\n") + "\n");
                }
            }
            i = j;
        } else {
            i += 1;
        }
    }
    out
}

pub fn near_miss(src: &str, rng: &mut Rng) -> String {
    near_miss_with(src, rng, false)
}

/// Every single-identifier wrap ([x], (x, x), {a = x}, (|| x)) of every generic template.
pub fn template_variants() -> Vec<String> {
    let mut out = vec![];
    for t in GENERIC_TEMPLATES {
        let b = t.as_bytes();
        let mut i = 0;
        while i < b.len() {
            if b[i].is_ascii_lowercase() && (i == 0 || !(b[i - 1].is_ascii_alphanumeric() || b[i - 1] == b'_' || b[i - 1] == b'.')) {
                let mut j = i;
                while j < b.len() && (b[j].is_ascii_alphanumeric() || b[j] == b'_') {
                    j += 1;
                }
                let w = &t[i..j];
                let kw = matches!(w, "fn" | "let" | "if" | "else" | "dsp");
                let next = t[j..].trim_start().chars().next().unwrap_or(' ');
                let before = t[..i].trim_end();
                let binder = before.ends_with("let") || before.ends_with('|') || before.ends_with("fn") || {
                    // parameter list of a declaration: `fn name(` .. `){`
                    let open = t[..i].rfind('(').unwrap_or(0);
                    t[..open].trim_end().split_whitespace().rev().nth(1) == Some("fn")
                };
                if !kw && !binder && !matches!(next, '=' | '(' | ':') {
                    for r in [format!("[{w}]"), format!("({w}, {w})"), format!("{{a = {w}}}"), format!("(|| {w})")] {
                        let mut v = t.to_string();
                        v.replace_range(i..j, &r);
                        out.push(v);
                    }
                }
                i = j;
            } else {
                i += 1;
            }
        }
    }
    out
}

/// `any_ident`: the wrap mutation may hit any lower-case identifier use (hand-written templates)
pub fn near_miss_with(src: &str, rng: &mut Rng, any_ident: bool) -> String {
    let mut s = src.to_string();
    let find_all = |s: &str, pat: &str| -> Vec<usize> { s.match_indices(pat).map(|m| m.0).collect() };
    for _ in 0..(1 + rng.below(2)) {
        match if any_ident { 7 + rng.below(2) } else { rng.below(9) } {
            0 => {
                let at = find_all(&s, "float");
                if !at.is_empty() {
                    let i = *rng.pick(&at);
                    let r = *rng.pick(&["string", "int", "(float,float)", "[float]", "{a:float}", "(float)->float"]);
                    s.replace_range(i..i + 5, r);
                }
            }
            1 => {
                // a numeric literal becomes something else
                let b = s.as_bytes();
                let digits: Vec<usize> = (1..b.len())
                    .filter(|&i| b[i].is_ascii_digit() && !b[i - 1].is_ascii_alphanumeric() && b[i - 1] != b'.' && b[i - 1] != b'_')
                    .collect();
                if !digits.is_empty() {
                    let i = *rng.pick(&digits);
                    let mut j = i;
                    while j < b.len() && (b[j].is_ascii_digit() || b[j] == b'.') {
                        j += 1;
                    }
                    let r = *rng.pick(&["\"s\"", "(1.0,2.0)", "[1.0,2.0]", "self", "{a = 1.0}", "(|x| x)", "now", "[]"]);
                    s.replace_range(i..j, r);
                }
            }
            2 => {
                // drop the last argument of some call
                let at = find_all(&s, ", ");
                if !at.is_empty() {
                    let i = *rng.pick(&at);
                    if let Some(end) = s[i..].find(')') {
                        s.replace_range(i..i + end, "");
                    }
                }
            }
            3 => {
                let at = find_all(&s, "self");
                if !at.is_empty() {
                    let i = *rng.pick(&at);
                    s.replace_range(i..i + 4, *rng.pick(&["(self, self)", "mem(self)", "[self]", "self.0"]));
                }
            }
            4 => {
                // return type annotation on some function
                let at = find_all(&s, "){");
                if !at.is_empty() {
                    let i = *rng.pick(&at);
                    let r = *rng.pick(&[")->string{", ")->(float,float){", ")->[float]{", ")->float{", ")->int{"]);
                    s.replace_range(i..i + 2, r);
                }
            }
            5 => {
                let at = find_all(&s, "mem(");
                if !at.is_empty() {
                    let i = *rng.pick(&at);
                    s.replace_range(i..i + 4, *rng.pick(&["mem((1.0, 2.0), ", "delay(0.0, 1.0, ", "delay(1.0, "]));
                }
            }
            7 | 8 => {
                // one occurrence of an identifier becomes an array / tuple / record of itself
                // (e.g. one arm of an `if` yields x, the other [x])
                let b = s.as_bytes();
                let mut idents: Vec<(usize, usize)> = vec![];
                let mut i = 0;
                while i < b.len() {
                    if (b[i].is_ascii_lowercase()) && (i == 0 || !(b[i - 1].is_ascii_alphanumeric() || b[i - 1] == b'_' || b[i - 1] == b'.')) {
                        let mut j = i;
                        while j < b.len() && (b[j].is_ascii_alphanumeric() || b[j] == b'_') {
                            j += 1;
                        }
                        let w = &s[i..j];
                        let is_generated_var = w.len() >= 2 && w[1..].chars().any(|c| c.is_ascii_digit()) && !w.starts_with("sf") && !w.starts_with("pf") && !w.starts_with("rf") && !w.starts_with("mk");
                        // a use, not a binder or call: followed by neither ':' '=' nor '('
                        let next = s[j..].trim_start().chars().next().unwrap_or(' ');
                        let prev_let = s[..i].trim_end().ends_with("let") || s[..i].trim_end().ends_with('|') || s[..i].trim_end().ends_with(',') && s[j..].trim_start().starts_with('|');
                        let kw = matches!(w, "fn" | "let" | "if" | "else" | "dsp" | "self" | "now" | "samplerate");
                        if (is_generated_var || (any_ident && !kw)) && !matches!(next, ':' | '=' | '(') && !prev_let {
                            idents.push((i, j));
                        }
                        i = j;
                    } else {
                        i += 1;
                    }
                }
                if !idents.is_empty() {
                    let (i, j) = *rng.pick(&idents);
                    let w = s[i..j].to_string();
                    let r = match rng.below(4) {
                        0 => format!("[{w}]"),
                        1 => format!("({w}, {w})"),
                        2 => format!("{{a = {w}}}"),
                        _ => format!("(|| {w})"),
                    };
                    s.replace_range(i..j, &r);
                }
            }
            _ => {
                let at = find_all(&s, " + ");
                if !at.is_empty() {
                    let i = *rng.pick(&at);
                    s.replace_range(i..i + 3, *rng.pick(&[" @ ", " |> ", " == ", " / 0 + "]));
                }
            }
        }
    }
    s
}

pub fn meta(args: &Args) -> Value {
    json!({
        "level": "exploration",
        "rule": "cases: (a) generated well-typed programs with the danger features on (state in branches unless quarantined, >256 locals, deep stateful call trees, nasty dsp inputs); (b) near-miss text mutations of (a) that change a type/arity somewhere; (c) shipped sources and operator/constant mutations of them (scheduler on). Each case is compiled for VM and WASM and runs main + n dsp calls with the hook bounds assertions on (state/global/upvalue/closure/delay-size) and a logical instruction budget. Refuting: panic in any phase, hook assertion, step budget, WASM trap, invalid WASM module, WASM code generator refusing a type-checked program, dsp returning a word count other than declared. Rejection with diagnostics is fine. Non-trivial = at least one back end accepted and ran dsp; distinct = hash of the text + run parameters.",
        "assumptions": ["bounds are observed at the hooked VM sites; WASM memory safety is wasmtime's sandbox, there the observable is trap/host panic/-1", "programs whose source-level meaning diverges (unguarded recursion) are not generated", "any number of dsp calls = n <= 64 in quick, 4096 for a subset in thorough"],
        "floor": {"quick": 100, "thorough": 3000},
        "case_timeout_s": 25,
        "hang_is_violation": false,
        "n_quick": args.cases(600, 40000),
        "sanitizer": {"kind": "asan", "budget": 600, "slowdown": 6},
        "miri": {"budget": 16, "slowdown": 60, "flags": "-Zmiri-disable-stacked-borrows", "deadline_s": 3000},
    })
}

/// The slice of the workload that runs inside the Miri interpreter (VM back end, few samples):
/// generated programs with the danger features, near-miss mutations of them, and shipped sources
/// drawn by the seed.
fn run_miri(args: &Args, out: &mut Out) {
    let files = corpus_files(&args.repo);
    let total = args.cases(16, 16);
    drive(
        args,
        out,
        total,
        |idx, rng| {
            if idx % 4 == 3 && !files.is_empty() {
                let f = &files[rng.below(files.len())];
                let src = std::fs::read_to_string(f).ok()?;
                for bad in ["Sampler", "sampler", "midi", "loadwav", "gen_sampler"] {
                    if src.contains(bad) {
                        return None;
                    }
                }
                let name = f.file_name()?.to_string_lossy().to_string();
                if args.q(&format!("corpus:{name}")) {
                    return None;
                }
                return Some(Case {
                    src,
                    n: 4,
                    input_seed: rng.next(),
                    finite_inputs: true,
                    prog: None,
                    expect: None,
                    scheduler: true,
                    path: Some(f.to_string_lossy().to_string()),
                    origin: Some(format!("corpus:{name}")),
                    split: None,
                });
            }
            let finite = rng.chance(1, 2);
            let mut c = gen_case(args, rng, finite);
            c.n = 6;
            if idx % 4 == 2 {
                c.src = near_miss(&c.src, rng);
                c.prog = None;
                c.origin = Some("nearmiss:generated".into());
            }
            Some(c)
        },
        exec,
    );
}

pub fn run(args: &Args, out: &mut Out) {
    if cfg!(miri) {
        return run_miri(args, out);
    }
    let files = corpus_files(&args.repo);
    let ncorpus = files.len();
    let nmut = if args.thorough() { ncorpus * 6 } else { ncorpus / 3 };
    let ngen = args.cases(420, 40000);
    let mut variants = template_variants();
    let ntemplate_variants = variants.len();
    let mut variant_paths: Vec<Option<String>> = vec![None; variants.len()];
    for f in &files {
        if let Ok(src) = std::fs::read_to_string(f) {
            if src.contains("match") && !args.q(&format!("corpus:{}", f.file_name().map(|n| n.to_string_lossy().to_string()).unwrap_or_default())) {
                for v in match_arm_variants(&src).into_iter().take(if args.thorough() { 64 } else { 12 }) {
                    variants.push(v);
                    variant_paths.push(Some(f.to_string_lossy().to_string()));
                }
            }
        }
    }
    let total = ncorpus + nmut + ngen + variants.len();
    drive(
        args,
        out,
        total,
        |idx, rng| {
            if idx < ncorpus + nmut {
                let f = if idx < ncorpus { &files[idx] } else { &files[rng.below(ncorpus.max(1))] };
                let src = std::fs::read_to_string(f).ok()?;
                for bad in ["Sampler", "sampler", "midi", "loadwav", "gen_sampler"] {
                    if src.contains(bad) {
                        return None;
                    }
                }
                let name = f.file_name()?.to_string_lossy().to_string();
                if args.q(&format!("corpus:{name}")) {
                    return None;
                }
                let (src, origin) = if idx < ncorpus {
                    (src, format!("corpus:{name}"))
                } else if rng.chance(1, 2) {
                    (super::c01::mutate_source(&src, rng), format!("mutant:{name}"))
                } else {
                    (near_miss(&src, rng), format!("nearmiss:{name}"))
                };
                Some(Case {
                    src,
                    n: *rng.pick(&[4usize, 16, 64]),
                    input_seed: rng.next(),
                    finite_inputs: rng.chance(1, 2),
                    prog: None,
                    expect: None,
                    scheduler: true,
                    path: Some(f.to_string_lossy().to_string()),
                    origin: Some(origin),
                    split: None,
                })
            } else if idx >= ncorpus + nmut + ngen {
                // enumerated: every single wrap mutation of every generic template
                let vi = idx - (ncorpus + nmut + ngen);
                Some(Case {
                    src: variants[vi].clone(),
                    n: 4,
                    input_seed: 1,
                    finite_inputs: true,
                    prog: None,
                    expect: None,
                    scheduler: vi >= ntemplate_variants,
                    path: variant_paths[vi].clone(),
                    origin: Some(if vi < ntemplate_variants { "nearmiss:generic-template-variant".into() } else { "nearmiss:match-arm-pattern-duplicated".to_string() }),
                    split: None,
                })
            } else {
                let finite = rng.chance(1, 2);
                let mut c = gen_case(args, rng, finite);
                if args.thorough() && rng.chance(1, 40) {
                    c.n = 4096;
                }
                if rng.chance(1, 4) {
                    // near-miss: the G-AST no longer describes the text
                    c.src = near_miss(&c.src, rng);
                    c.prog = None;
                    c.origin = Some("nearmiss:generated".into());
                } else if rng.chance(1, 12) {
                    // near-miss of a small program with unannotated (polymorphic) parameters: the
                    // generated programs pin every type early, these keep type variables alive
                    let t = *rng.pick(&GENERIC_TEMPLATES);
                    c.src = near_miss_with(t, rng, true);
                    c.prog = None;
                    c.n = 4;
                    c.origin = Some("nearmiss:generic-template".into());
                }
                Some(c)
            }
        },
        exec,
    );
}

pub fn replay(_args: &Args, out: &mut Out, case: &Value) {
    replay_one::<Case>(out, case, exec);
}
