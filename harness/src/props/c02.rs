//! C02 — the core language follows the stated semantics: generated well-typed
//! programs are run on both back ends and compared, sample by sample and bit by
//! bit, with the reference interpreter.

use super::{drive, replay_one};
use crate::gens::core::{Feat, Program, generate};
use crate::refsem;
use crate::run::{Backend, RunError, run_program};
use crate::util::{Args, Out, Rng, bits_eq, f64s_to_json, splitmix};
use serde::{Deserialize, Serialize};
use serde_json::{Value, json};

#[derive(Clone, Debug, Serialize, Deserialize)]
pub struct Case {
    pub src: String,
    pub n: usize,
    #[serde(default)]
    pub input_seed: u64,
    #[serde(default = "yes")]
    pub finite_inputs: bool,
    /// generated programs carry their G-AST (the reference interpreter runs on it)
    #[serde(default)]
    pub prog: Option<Program>,
    /// hand-written witnesses carry the expected output stream instead
    /// (flattened [sample][channel], as strings so that NaN / -0.0 / inf can be written)
    #[serde(default)]
    pub expect: Option<Vec<String>>,
}
fn yes() -> bool {
    true
}

const PALETTE: [f64; 16] =
    [0.0, 1.0, -1.0, 0.5, -0.5, 2.0, 3.0, 0.25, 10.0, -3.5, 0.1, 7.0, 100.0, -0.75, 1e-3, 4.0];
const NASTY: [f64; 8] = [f64::NAN, f64::INFINITY, f64::NEG_INFINITY, -0.0, 1e308, 5e-324, -1e308, 1e16];

pub fn input_fn(seed: u64, finite: bool) -> impl Fn(usize, usize) -> f64 {
    move |t: usize, c: usize| {
        let mut s = seed ^ ((t as u64) << 8) ^ (c as u64).wrapping_mul(0x9E37_79B9);
        let r = splitmix(&mut s);
        if !finite && r % 7 == 0 {
            return NASTY[(r >> 8) as usize % NASTY.len()];
        }
        match r % 4 {
            0 => PALETTE[(r >> 8) as usize % PALETTE.len()],
            1 => ((r >> 8) % 2001) as f64 / 1000.0 - 1.0,
            2 => (t as f64) * 0.5 - c as f64,
            _ => ((r >> 8) % 17) as f64 - 8.0,
        }
    }
}

pub fn feat_for(args: &Args, rng: &mut Rng) -> Feat {
    let budget = if args.thorough() { 10 + rng.below(30) } else { 6 + rng.below(14) };
    let mut f = Feat::all(budget);
    f.max_fns = if args.thorough() { 2 + rng.below(8) } else { 1 + rng.below(5) };
    f.max_state_depth = 1 + rng.below(4);
    // individually switch some features off so that failures localise
    if rng.chance(1, 4) {
        f.lambdas = false;
        f.escaping_closures = false;
    }
    if rng.chance(1, 4) {
        f.records = false;
    }
    if rng.chance(1, 5) {
        f.tuples = false;
        f.self_tuple = false;
    }
    if rng.chance(1, 3) {
        f.defaults = false;
    }
    f.defaults_dotdot = !args.q("default-args-dotdot") && rng.chance(1, 3);
    f.branch_state = !args.q("stateful-call-in-branch") && rng.chance(1, 4);
    f.raw_logic = false;
    if args.q("modulo") {
        f.modulo = false;
    }
    f.avoid = args.quarantine.iter().cloned().collect();
    f
}

pub struct Checked {
    pub violations: Vec<(String, String)>,
    pub nontrivial: bool,
    pub unspecified: Vec<&'static str>,
    pub inconclusive: Option<String>,
    pub samples_compared: usize,
    pub ran: Vec<&'static str>,
}

/// The oracle: reference vs VM vs WASM. Pure (no event output) so that the minimiser can call it.
pub fn check(c: &Case) -> Checked {
    let mut res = Checked { violations: vec![], nontrivial: false, unspecified: vec![], inconclusive: None, samples_compared: 0, ran: vec![] };
    let inp = input_fn(c.input_seed, c.finite_inputs);
    let (want, flags) = match (&c.prog, &c.expect) {
        (Some(prog), _) => match refsem::run(prog, c.n, &inp) {
            Ok(r) => r,
            Err(e) => {
                res.inconclusive = Some(format!("reference interpreter: {e:?}"));
                return res;
            }
        },
        (None, Some(exp)) => {
            let v: Option<Vec<f64>> = exp.iter().map(|s| s.trim().parse::<f64>().ok()).collect();
            match v {
                Some(v) => (v, Default::default()),
                None => {
                    res.inconclusive = Some("unparsable `expect` in witness".into());
                    return res;
                }
            }
        }
        (None, None) => {
            res.inconclusive = Some("case has neither prog nor expect".into());
            return res;
        }
    };
    // shapes of evaluation the statement of C02 does not define
    res.unspecified = flags
        .iter()
        .filter(|f| matches!(**f, "nan_condition" | "logic_on_negative_or_nan_operand" | "not_on_nan" | "delay_time_outside_1_to_n_minus_1"))
        .copied()
        .collect();
    if !res.unspecified.is_empty() {
        return res;
    }
    let first = want.first().copied().unwrap_or(0.0);
    let varies = want.iter().any(|x| !bits_eq(*x, first));
    let mut both_ran = true;
    for b in [Backend::Vm, Backend::Wasm] {
        match run_program(b, &c.src, false, c.n, &inp, false, None) {
            Ok(r) => {
                res.ran.push(b.name());
                res.samples_compared += r.out.len().min(want.len());
                if r.out.len() != want.len() {
                    res.violations.push((
                        format!("channel-count/{}", b.name()),
                        format!("{} produced {} words for {} samples, reference {}", b.name(), r.out.len(), c.n, want.len()),
                    ));
                    continue;
                }
                if let Some(i) = (0..want.len()).find(|&i| !bits_eq(want[i], r.out[i])) {
                    let ch = r.channels.max(1);
                    let lo = i.saturating_sub(2 * ch);
                    let class = if flags.contains("modulo_non_integer_operand") { "/modulo-non-integer" } else { "" };
                    res.violations.push((
                        format!("output-differs-from-reference/{}{}", b.name(), class),
                        format!(
                            "sample {} channel {}: {} = {:?} reference = {:?}; window {} = {} vs reference {}; flags {:?}",
                            i / ch, i % ch, b.name(), r.out[i], want[i], b.name(),
                            f64s_to_json(&r.out[lo..(i + 1).min(r.out.len())]),
                            f64s_to_json(&want[lo..(i + 1).min(want.len())]),
                            flags
                        ),
                    ));
                }
            }
            Err(RunError::Build(be)) => {
                both_ran = false;
                let sig = match &be {
                    crate::run::BuildError::Rejected(d) => {
                        format!("well-typed-program-rejected/{}: {}", b.name(), d.first().map(|d| norm(&d.message)).unwrap_or_default())
                    }
                    crate::run::BuildError::Panicked(ph, p) => format!("{}/{}/{}", p.sig(), ph, b.name()),
                    other => format!("build-failed/{}: {}", b.name(), norm(&other.short())),
                };
                res.violations.push((sig, be.short()));
            }
            Err(RunError::DspPanic(t, p)) => {
                both_ran = false;
                res.violations.push((format!("{}/dsp/{}", p.sig(), b.name()), format!("at sample {t}: {} @ {}", p.msg, p.loc)));
            }
        }
    }
    res.nontrivial = varies && both_ran;
    res
}

/// Minimise a failing case for one signature.
pub fn minimise(c: &Case, sig: &str, max_evals: usize) -> Case {
    let mut best = c.clone();
    for n in [2usize, 4, 8, 16] {
        if n < best.n {
            let mut t = best.clone();
            t.n = n;
            if check(&t).violations.iter().any(|v| v.0 == sig) {
                best = t;
                break;
            }
        }
    }
    let Some(prog0) = best.prog.clone() else { return best };
    let base = best.clone();
    let mut pred = |p: &Program| {
        if !crate::gens::tycheck::well_typed(p) {
            return false;
        }
        let t = Case { src: p.print(), prog: Some(p.clone()), ..base.clone() };
        check(&t).violations.iter().any(|v| v.0 == sig)
    };
    let small = crate::gens::shrink::shrink(&prog0, &mut pred, max_evals);
    best.src = small.print();
    best.prog = Some(small);
    best
}

fn exec(c: &Case, idx: usize, out: &mut Out) -> bool {
    if let Some(p) = &c.prog
        && !crate::gens::tycheck::well_typed(p)
    {
        out.inconclusive(idx, "generator produced a program its own type checker rejects");
        return false;
    }
    let r = check(c);
    if let Some(w) = &r.inconclusive {
        out.inconclusive(idx, w);
        return false;
    }
    for f in c.prog.iter().flat_map(|p| p.features.iter()) {
        out.count(&format!("feature:{f}"), 1);
    }
    for f in &r.unspecified {
        out.count(&format!("unspecified:{f}"), 1);
    }
    for b in &r.ran {
        out.count(&format!("runs:{b}"), 1);
    }
    out.count("samples_compared", r.samples_compared as u64);
    for (sig, detail) in &r.violations {
        let key = format!("violations:{sig}");
        let seen = out.counters.get(&key).copied().unwrap_or(0);
        out.count(&key, 1);
        if seen == 0 {
            // first hit of this signature in this worker: report the minimised program
            let small = minimise(c, sig, 400);
            let d2 = check(&small).violations.into_iter().find(|v| &v.0 == sig).map(|v| v.1).unwrap_or(detail.clone());
            out.violation(idx, sig, &format!("{d2}\n(minimised from a {}-byte program)", c.src.len()), &serde_json::to_value(&small).unwrap());
        } else if seen < 4 {
            out.violation(idx, sig, detail, &serde_json::to_value(c).unwrap());
        }
    }
    r.nontrivial
}

/// strip identifiers / numbers from a diagnostic so signatures are stable
pub fn norm(s: &str) -> String {
    let mut o = String::new();
    let mut last = ' ';
    for ch in s.chars().take(100) {
        let c = if ch.is_ascii_digit() { 'N' } else { ch };
        if c == 'N' && last == 'N' {
            continue;
        }
        o.push(c);
        last = c;
    }
    o
}

pub fn meta(args: &Args) -> Value {
    json!({
        "level": "exploration",
        "rule": "random well-typed core-language programs from the typed generator (features individually switched per case; listed per case and counted in coverage.counters as feature:*), run for n samples with a seeded dsp input stream on VM and WASM and compared bitwise (NaN==NaN) with the independent reference interpreter. Non-trivial = the reference output stream has at least two distinct values and both back ends ran; distinct = hash of program text + run parameters. Cases whose reference execution meets a situation the statement does not define (NaN as condition / logic operand, delay time outside 1..n-1) take no part in the verdict and are counted as unspecified:*.",
        "assumptions": [
            "the reference interpreter (harness/src/refsem) is the statement of C02 made executable; arithmetic and math builtins are Rust f64 operations",
            "lambdas and function values are stateless by construction (state of closure instances created per sample is not defined by the statement)",
            "sample rate 48000, `now` starts at 0"
        ],
        "floor": {"quick": 60, "thorough": 2000},
        "case_timeout_s": 120,
        "hang_is_violation": false,
        "budget": {"quick": args.cases(400, 30000)},
    })
}

pub fn gen_case(args: &Args, _idx: usize, rng: &mut Rng) -> Case {
    let feat = feat_for(args, rng);
    let prog = generate(rng, feat);
    let src = prog.print();
    let n = *rng.pick(&[8usize, 16, 24, 40, 64]);
    Case { src, n, input_seed: rng.next(), finite_inputs: true, prog: Some(prog), expect: None }
}

pub fn run(args: &Args, out: &mut Out) {
    let total = args.cases(400, 30000);
    drive(args, out, total, |idx, rng| Some(gen_case(args, idx, rng)), exec);
}

pub fn replay(_args: &Args, out: &mut Out, case: &Value) {
    replay_one::<Case>(out, case, exec);
}
