//! C02 — the core language follows the stated semantics: generated well-typed
//! programs are run on both back ends and compared, sample by sample and bit by
//! bit, with the reference interpreter.

use super::progcase::{Case, gen_case, input_fn, norm, report};
use super::{drive, replay_one};
use crate::refsem;
use crate::run::{Backend, RunError, run_program};
use crate::util::{Args, Out, bits_eq, f64s_to_json};
use serde_json::{Value, json};

pub struct Checked {
    pub violations: Vec<(String, String)>,
    pub nontrivial: bool,
    pub unspecified: Vec<&'static str>,
    pub inconclusive: Option<String>,
    pub samples_compared: usize,
    pub ran: Vec<&'static str>,
}

/// The oracle: reference vs VM vs WASM. Pure (no event output) so that the minimiser can call it.
pub fn check(c: &Case) -> Checked {
    let mut res = Checked { violations: vec![], nontrivial: false, unspecified: vec![], inconclusive: None, samples_compared: 0, ran: vec![] };
    let inp = input_fn(c.input_seed, c.finite_inputs);
    let (want, flags) = match (&c.prog, &c.expect) {
        (Some(prog), _) => match refsem::run(prog, c.n, &inp) {
            Ok(r) => r,
            Err(e) => {
                res.inconclusive = Some(format!("reference interpreter: {e:?}"));
                return res;
            }
        },
        (None, Some(exp)) => {
            let v: Option<Vec<f64>> = exp.iter().map(|s| s.trim().parse::<f64>().ok()).collect();
            match v {
                Some(v) => (v, Default::default()),
                None => {
                    res.inconclusive = Some("unparsable `expect` in witness".into());
                    return res;
                }
            }
        }
        (None, None) => {
            res.inconclusive = Some("case has neither prog nor expect".into());
            return res;
        }
    };
    // shapes of evaluation the statement of C02 does not define
    res.unspecified = flags
        .iter()
        .filter(|f| matches!(**f, "nan_condition" | "logic_on_negative_or_nan_operand" | "not_on_nan" | "delay_time_outside_1_to_n_minus_1"))
        .copied()
        .collect();
    if !res.unspecified.is_empty() {
        return res;
    }
    let first = want.first().copied().unwrap_or(0.0);
    let varies = want.iter().any(|x| !bits_eq(*x, first));
    let mut both_ran = true;
    for &b in Backend::all() {
        match run_program(b, &c.src, c.scheduler, c.n, &inp, false, c.path.as_ref().map(std::path::PathBuf::from)) {
            Ok(r) => {
                res.ran.push(b.name());
                res.samples_compared += r.out.len().min(want.len());
                if r.out.len() != want.len() {
                    res.violations.push((
                        format!("channel-count/{}", b.name()),
                        format!("{} produced {} words for {} samples, reference {}", b.name(), r.out.len(), c.n, want.len()),
                    ));
                    continue;
                }
                if let Some(i) = (0..want.len()).find(|&i| !bits_eq(want[i], r.out[i])) {
                    let ch = r.channels.max(1);
                    let lo = i.saturating_sub(2 * ch);
                    let class = if flags.contains("modulo_non_integer_operand") { "/modulo-non-integer" } else { "" };
                    res.violations.push((
                        format!("output-differs-from-reference/{}{}", b.name(), class),
                        format!(
                            "sample {} channel {}: {} = {:?} reference = {:?}; window {} = {} vs reference {}; flags {:?}",
                            i / ch, i % ch, b.name(), r.out[i], want[i], b.name(),
                            f64s_to_json(&r.out[lo..(i + 1).min(r.out.len())]),
                            f64s_to_json(&want[lo..(i + 1).min(want.len())]),
                            flags
                        ),
                    ));
                }
            }
            Err(RunError::Build(be)) => {
                both_ran = false;
                let sig = match &be {
                    crate::run::BuildError::Rejected(d) => {
                        format!("well-typed-program-rejected/{}: {}", b.name(), d.first().map(|d| norm(&d.message)).unwrap_or_default())
                    }
                    crate::run::BuildError::Panicked(ph, p) => format!("{}/{}/{}", p.sig(), ph, b.name()),
                    other => format!("build-failed/{}: {}", b.name(), norm(&other.short())),
                };
                res.violations.push((sig, be.short()));
            }
            Err(RunError::DspPanic(t, p)) => {
                both_ran = false;
                res.violations.push((format!("{}/dsp/{}", p.sig(), b.name()), format!("at sample {t}: {} @ {}", p.msg, p.loc)));
            }
        }
    }
    res.nontrivial = varies && both_ran;
    res
}

fn exec(c: &Case, idx: usize, out: &mut Out) -> bool {
    if let Some(p) = &c.prog
        && !crate::gens::tycheck::well_typed(p)
    {
        out.inconclusive(idx, "generator produced a program its own type checker rejects");
        return false;
    }
    let dq: Vec<&str> = super::progcase::dyn_quarantined(c).into_iter().filter(|q| *q != "modulo").collect();
    if !dq.is_empty() {
        for q in dq {
            out.quarantined(idx, q);
        }
        return false;
    }
    let r = check(c);
    if let Some(w) = &r.inconclusive {
        out.inconclusive(idx, w);
        return false;
    }
    for f in c.prog.iter().flat_map(|p| p.features.iter()) {
        out.count(&format!("feature:{f}"), 1);
    }
    for f in &r.unspecified {
        out.count(&format!("unspecified:{f}"), 1);
    }
    for b in &r.ran {
        out.count(&format!("runs:{b}"), 1);
    }
    out.count("samples_compared", r.samples_compared as u64);
    report(out, idx, c, &r.violations, &|t| check(t).violations);
    r.nontrivial
}

pub fn meta(args: &Args) -> Value {
    json!({
        "level": "exploration",
        "rule": "random well-typed core-language programs from the typed generator (features individually switched per case; listed per case and counted in coverage.counters as feature:*), run for n samples with a seeded dsp input stream on VM and WASM and compared bitwise (NaN==NaN) with the independent reference interpreter. Non-trivial = the reference output stream has at least two distinct values and both back ends ran; distinct = hash of program text + run parameters. Cases whose reference execution meets a situation the statement does not define (NaN as condition / logic operand, delay time outside 1..n-1) take no part in the verdict and are counted as unspecified:*.",
        "assumptions": [
            "the reference interpreter (harness/src/refsem) is the statement of C02 made executable; arithmetic and math builtins are Rust f64 operations",
            "lambdas and function values are stateless by construction (state of closure instances created per sample is not defined by the statement)",
            "sample rate 48000, `now` starts at 0"
        ],
        "floor": {"quick": 60, "thorough": 2000},
        "case_timeout_s": 40,
        "hang_is_violation": false,
        "budget": {"quick": args.cases(2400, 60000)},
    })
}

pub fn run(args: &Args, out: &mut Out) {
    let total = args.cases(2400, 60000);
    let fam = super::progcase::family_cases();
    drive(args, out, total + fam.len(), |idx, rng| if idx >= total { fam.get(idx - total).cloned() } else { Some(gen_case(args, rng, true)) }, exec);
}

pub fn replay(_args: &Args, out: &mut Out, case: &Value) {
    replay_one::<Case>(out, case, exec);
}
