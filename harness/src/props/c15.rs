//! C15 — compilation is deterministic: the bytecode listing, the WASM bytes, the
//! published state layout and the run outputs of one source must be identical across
//! repeated compilations in one process, after arbitrary compilation histories, and
//! in fresh processes (different hash seeds).

use super::c01::corpus_files;
use super::progcase::{Case, gen_case, input_fn};
use super::{drive, replay_one};
use crate::run::{Backend, Session};
use crate::util::{Args, Out, fnv};
use serde_json::{Value, json};
use std::path::PathBuf;

#[derive(Debug, Clone, PartialEq, Eq)]
pub struct Artefacts {
    pub bytecode: String,
    pub wasm: String,
    pub skeleton: String,
    pub outputs: String,
    pub accepted: String,
}

impl Artefacts {
    fn to_json(&self) -> Value {
        json!({"bytecode": self.bytecode, "wasm": self.wasm, "skeleton": self.skeleton, "outputs": self.outputs, "accepted": self.accepted})
    }
    fn from_json(v: &Value) -> Option<Artefacts> {
        Some(Artefacts {
            bytecode: v.get("bytecode")?.as_str()?.into(),
            wasm: v.get("wasm")?.as_str()?.into(),
            skeleton: v.get("skeleton")?.as_str()?.into(),
            outputs: v.get("outputs")?.as_str()?.into(),
            accepted: v.get("accepted")?.as_str()?.into(),
        })
    }
    fn diff(&self, o: &Artefacts) -> Vec<&'static str> {
        let mut d = vec![];
        if self.accepted != o.accepted {
            d.push("accept/reject");
        }
        if self.bytecode != o.bytecode {
            d.push("bytecode-listing");
        }
        if self.wasm != o.wasm {
            d.push("wasm-bytes");
        }
        if self.skeleton != o.skeleton {
            d.push("state-layout");
        }
        if self.outputs != o.outputs {
            d.push("outputs");
        }
        d
    }
}

fn h(s: &[u8]) -> String {
    format!("{:016x}:{}", fnv(s), s.len())
}

/// Compile `c` once on each back end and hash the four artefacts named by the property.
pub fn artefacts(c: &Case) -> Artefacts {
    let path = c.path.as_ref().map(PathBuf::from);
    let inp = input_fn(c.input_seed, true);
    let mut a = Artefacts { bytecode: "-".into(), wasm: "-".into(), skeleton: "-".into(), outputs: String::new(), accepted: String::new() };
    // VM
    match Session::build(Backend::Vm, &c.src, c.scheduler, path.clone()) {
        Ok(mut s) => {
            a.accepted.push_str("vm:ok ");
            if let Some(vm) = s.vm() {
                let listing = format!("{}", vm.prog);
                a.bytecode = h(listing.as_bytes());
                a.skeleton = h(format!("{:?}", vm.prog.get_dsp_state_skeleton()).as_bytes());
            }
            let mut out = vec![];
            let ich = s.io.input as usize;
            let mut inbuf = vec![0.0; ich];
            for t in 0..c.n {
                for (k, v) in inbuf.iter_mut().enumerate() {
                    *v = inp(t, k);
                }
                match s.step(&inbuf) {
                    Ok(o) => out.extend(o.out.iter().map(|x| x.to_bits())),
                    Err(_) => {
                        out.push(0xdead);
                        break;
                    }
                }
            }
            a.outputs.push_str(&h(&out.iter().flat_map(|x| x.to_le_bytes()).collect::<Vec<u8>>()));
        }
        Err(e) => a.accepted.push_str(&format!("vm:{} ", if e.is_reject() { "rejected" } else { "failed" })),
    }
    // WASM bytes through the compile entry point the CLI uses
    let driver = mimium_audiodriver::backends::local_buffer::LocalBufferDriver::new(0);
    let _ = driver;
    let mut ctx = mimium_lang::ExecContext::new([].into_iter(), path, mimium_lang::Config::default());
    if c.scheduler {
        ctx.add_system_plugin(mimium_scheduler::get_default_scheduler_plugin());
    }
    ctx.prepare_compiler();
    match crate::util::catch(|| ctx.get_compiler().unwrap().emit_wasm(&c.src)) {
        Ok(Ok(o)) => {
            a.accepted.push_str("wasm:ok");
            a.wasm = h(&o.bytes);
            let sk = h(format!("{:?}", o.dsp_state_skeleton).as_bytes());
            a.skeleton = format!("{}|{}", a.skeleton, sk);
        }
        Ok(Err(_)) => a.accepted.push_str("wasm:rejected"),
        Err(_) => a.accepted.push_str("wasm:panicked"),
    }
    a
}

pub struct Checked {
    pub violations: Vec<(String, String)>,
    pub compiled: bool,
    pub processes: u64,
    pub history: u64,
    pub child_failed: u64,
}

fn child_artefacts(c: &Case) -> Option<Artefacts> {
    use std::io::Write;
    let dir = std::env::current_dir().unwrap_or_else(|_| std::env::temp_dir()).join(format!("mmv-c15-{}", std::process::id()));
    let _ = std::fs::create_dir_all(&dir);
    let cf = dir.join("case.json");
    {
        let mut f = std::fs::File::create(&cf).ok()?;
        // the child needs the text only (a deep G-AST would hit serde_json's recursion limit)
        let mut slim = c.clone();
        slim.prog = None;
        let _ = f.write_all(serde_json::to_string(&slim).ok()?.as_bytes());
    }
    let exe = std::env::current_exe().ok()?;
    let out = std::process::Command::new(exe).arg("C15").arg("--hashof").arg(&cf).stderr(std::process::Stdio::null()).output().ok()?;
    let txt = String::from_utf8_lossy(&out.stdout);
    let line = txt.lines().rev().find_map(|l| l.strip_prefix("ARTEFACTS "))?;
    Artefacts::from_json(&serde_json::from_str::<Value>(line).ok()?)
}

pub fn check(c: &Case, others: &[Case], nproc: usize) -> Checked {
    let mut res = Checked { violations: vec![], compiled: false, processes: 0, history: 0, child_failed: 0 };
    // in half of the cases (and for all projects) the other programs are compiled *before* this process
    // compiles the case for the first time: whatever they leave behind (caches keyed too coarsely, tables
    // that are never reset) then meets a first compilation, and the fresh processes below are the reference
    let history_first = !others.is_empty() && (c.origin.as_deref().is_some_and(|o| o.starts_with("project:")) || c.input_seed & 1 == 1);
    if history_first {
        for o in others {
            let _ = artefacts(o);
            res.history += 1;
        }
    }
    let a1 = artefacts(c);
    res.compiled = a1.accepted.contains("ok");
    let a2 = artefacts(c);
    for d in a1.diff(&a2) {
        res.violations.push((format!("{d}-differs/back-to-back-in-one-process"), format!("{a1:?} vs {a2:?}")));
    }
    if !history_first {
        for o in others {
            let _ = artefacts(o);
            res.history += 1;
        }
    }
    let a3 = artefacts(c);
    for d in a1.diff(&a3) {
        res.violations.push((format!("{d}-differs/after-compiling-other-programs"), format!("history of {} compilations: {a1:?} vs {a3:?}", others.len())));
    }
    for _ in 0..nproc {
        match child_artefacts(c) {
            Some(ac) => {
                res.processes += 1;
                for d in a1.diff(&ac) {
                    res.violations.push((format!("{d}-differs/fresh-process"), format!("{a1:?} vs {ac:?}")));
                }
            }
            None => res.child_failed += 1,
        }
    }
    res.violations.sort();
    res.violations.dedup_by(|a, b| a.0 == b.0);
    res
}

pub fn meta(args: &Args) -> Value {
    json!({
        "level": "exploration",
        "rule": "every shipped source (type declarations, enums, aliases, modules, macros, many functions — the hash-map backed tables) and generated core programs; each is compiled (bytecode listing via Display of vm::Program, WASM bytes via Context::emit_wasm, Debug of the dsp skeleton, n output samples) twice back to back, again after 0-50 other programs were compiled in the same process, and in 4 (thorough: 8) fresh processes with their own hash seeds; all hashes must be equal. Non-trivial = at least one back end accepted the program; distinct = hash of text.",
        "assumptions": ["a fresh process gets fresh RandomState keys", "artefacts are compared by FNV-1a hash and length"],
        "floor": {"quick": 40, "thorough": 1000},
        "case_timeout_s": 90,
        "hang_is_violation": false,
        "crash_is_violation": false,
        "budget": args.cases(80, 3000),
    })
}

fn exec_with(args: &Args) -> impl Fn(&(Case, Vec<Case>), usize, &mut Out) -> bool + '_ {
    move |(c, others), idx, out| {
        let nproc = if args.thorough() { 8 } else { 4 };
        let r = check(c, others, nproc);
        out.count("fresh_processes_compared", r.processes);
        out.count("history_compilations", r.history);
        if r.child_failed > 0 {
            out.inconclusive(idx, "a fresh process died or printed no artefacts (crashes are C03's business)");
        }
        out.count("artefact_sets_compared", 2 + r.processes);
        let origin = c.origin.as_deref().unwrap_or("generated");
        out.count(&format!("origin:{}", origin.split(':').next().unwrap_or("")), 1);
        for (sig, detail) in &r.violations {
            let key = format!("violations:{sig}");
            let seen = out.counters.get(&key).copied().unwrap_or(0);
            out.count(&key, 1);
            if seen < 4 {
                out.violation(idx, sig, detail, &serde_json::to_value((c, Vec::<Case>::new())).unwrap());
            }
        }
        r.compiled
    }
}

pub fn run(args: &Args, out: &mut Out) {
    if let Some(f) = args.extra.get("hashof") {
        // child mode: print the artefact hashes of one case
        let c: Case = serde_json::from_str(&std::fs::read_to_string(f).expect("case file")).expect("case json");
        println!("\nARTEFACTS {}", artefacts(&c).to_json());
        std::process::exit(0);
    }
    let files = corpus_files(&args.repo);
    let ncorpus = files.len();
    let ngen = args.cases(80, 3000);
    let exec = exec_with(args);
    // small projects whose external modules (files next to main.mmm) have the same names but other
    // contents: each is compiled after the others were compiled in the same process
    let mut projects: Vec<std::path::PathBuf> = std::fs::read_dir(super::c01::verif_dir().join("corpus/projects"))
        .map(|rd| rd.filter_map(|e| e.ok()).map(|e| e.path().join("main.mmm")).filter(|p| p.exists()).collect())
        .unwrap_or_default();
    projects.sort();
    let nproj = projects.len();
    let project_case = |f: &std::path::Path, seed: u64| -> Option<Case> {
        Some(Case {
            src: std::fs::read_to_string(f).ok()?,
            n: 8,
            input_seed: seed,
            finite_inputs: true,
            prog: None,
            expect: None,
            scheduler: true,
            path: Some(f.to_string_lossy().to_string()),
            origin: Some(format!("project:{}", f.parent()?.file_name()?.to_string_lossy())),
            split: None,
        })
    };
    drive(
        args,
        out,
        ncorpus + ngen + nproj * 2,
        |idx, rng| {
            if idx >= ncorpus + ngen {
                let k = idx - (ncorpus + ngen);
                let main = project_case(&projects[k % nproj], rng.next())?;
                // history: the other projects, in two orders
                let mut others: Vec<Case> = (0..nproj).filter(|i| *i != k % nproj).filter_map(|i| project_case(&projects[i], 1)).collect();
                if k >= nproj {
                    others.reverse();
                }
                return Some((main, others));
            }
            let mk_corpus = |i: usize, rng: &mut crate::util::Rng| -> Option<Case> {
                let f = &files[i];
                let src = std::fs::read_to_string(f).ok()?;
                for bad in ["Sampler", "sampler", "midi", "loadwav", "gen_sampler", "Slider", "Probe"] {
                    if src.contains(bad) {
                        return None;
                    }
                }
                Some(Case {
                    src,
                    n: 8,
                    input_seed: rng.next(),
                    finite_inputs: true,
                    prog: None,
                    expect: None,
                    scheduler: true,
                    path: Some(f.to_string_lossy().to_string()),
                    origin: Some(format!("corpus:{}", f.file_name()?.to_string_lossy())),
                    split: None,
                })
            };
            let main = if idx < ncorpus { mk_corpus(idx, rng)? } else { gen_case(args, rng, true) };
            // compilation history: 0..50 other programs (mostly few, so the case stays cheap)
            let k = if rng.chance(1, 10) { 10 + rng.below(40) } else { rng.below(4) };
            let mut others = vec![];
            // compilations that fail are history too: one whose macro-stage code panics, one that is rejected
            let text_case = |src: String, origin: &str| Case { src, n: 1, input_seed: 1, finite_inputs: true, prog: None, expect: None, scheduler: false, path: None, origin: Some(origin.into()), split: None };
            if rng.chance(1, 4) {
                others.push(text_case(super::c19::macro_stage_program(true), "history:macro-stage-panic"));
            }
            if rng.chance(1, 4) {
                others.push(text_case("#stage(macro)\nfn m(x){ `{ $x + undefined_name } }\n#stage(main)\nfn dsp(){ m!(`1.0) + \"s\" }\n".to_string(), "history:rejected"));
            }
            for _ in 0..k {
                if rng.chance(1, 2) && ncorpus > 0 {
                    if let Some(c) = mk_corpus(rng.below(ncorpus), rng) {
                        others.push(c);
                    }
                } else {
                    let mut g = gen_case(args, rng, true);
                    g.n = 1;
                    others.push(g);
                }
            }
            Some((main, others))
        },
        exec,
    );
}

pub fn replay(args: &Args, out: &mut Out, case: &Value) {
    let exec = exec_with(args);
    replay_one::<(Case, Vec<Case>)>(out, case, exec);
}
