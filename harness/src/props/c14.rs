//! C14 — the formatter preserves programs, comments, and is idempotent.
//!
//! The real `mimium_fmt::pretty_print_cst` is executed on syntactically valid programs
//! (shipped sources, layout/comment mutations of them, and generated programs printed with
//! randomised layout) at every (width, indent) configuration; the oracle re-parses the
//! output with the real parser (`parse_program`, `parse_to_expr`) and checks the five
//! clauses of the property: formatting succeeds, the output parses without errors, the
//! ASTs are equal under a span-insensitive structural comparison, every input comment
//! occurs in the output in the same order, and formatting the output again is the identity.

use super::{drive, replay_one};
use crate::util::{Args, Out, Rng, catch, fp};
use mimium_lang::ast::program::{Program, ProgramStatement, UseTarget, Visibility};
use mimium_lang::ast::statement::Statement;
use mimium_lang::ast::{Expr, Literal, MatchPattern};
use mimium_lang::compiler::parser::{self, TokenKind};
use mimium_lang::interner::{ExprNodeId, TypeNodeId};
use mimium_lang::pattern::{Pattern, TypedId, TypedPattern};
use mimium_lang::types::{PType, Type};
use serde::{Deserialize, Serialize};
use serde_json::{Value, json};
use std::collections::{BTreeSet, HashMap};
use std::path::PathBuf;

pub const WIDTHS: [usize; 8] = [1, 8, 20, 40, 50, 80, 120, 200];
pub const INDENTS: [usize; 3] = [2, 4, 8];

// =====================================================================================
// span-insensitive structural view of the AST
// =====================================================================================

/// A plain tree: constructor label (with its scalar payload) + children.
#[derive(Clone, Debug, PartialEq, Eq)]
pub struct N {
    pub kind: &'static str,
    pub payload: String,
    pub kids: Vec<N>,
}
fn n(kind: &'static str, kids: Vec<N>) -> N {
    N { kind, payload: String::new(), kids }
}
fn np(kind: &'static str, payload: impl Into<String>, kids: Vec<N>) -> N {
    N { kind, payload: payload.into(), kids }
}
impl N {
    fn label(&self) -> String {
        if self.payload.is_empty() { self.kind.to_string() } else { format!("{}[{}]", self.kind, self.payload) }
    }
    pub fn size(&self) -> usize {
        1 + self.kids.iter().map(|k| k.size()).sum::<usize>()
    }
    fn kinds(&self, out: &mut BTreeSet<&'static str>) {
        out.insert(self.kind);
        for k in &self.kids {
            k.kinds(out);
        }
    }
    fn show(&self, depth: usize, budget: &mut usize, out: &mut String) {
        if *budget == 0 {
            return;
        }
        *budget -= 1;
        out.push_str(&"  ".repeat(depth));
        out.push_str(&self.label());
        out.push('\n');
        for k in &self.kids {
            k.show(depth + 1, budget, out);
        }
    }
    pub fn render(&self, max_nodes: usize) -> String {
        let mut s = String::new();
        let mut b = max_nodes;
        self.show(0, &mut b, &mut s);
        s
    }
}

/// First difference between two trees: (path of labels, class tag, left subtree, right subtree)
pub struct Diff {
    pub path: Vec<String>,
    pub tag: String,
    pub left: String,
    pub right: String,
}
pub fn first_diff(a: &N, b: &N) -> Option<Diff> {
    fn rec(a: &N, b: &N, path: &mut Vec<String>) -> Option<Diff> {
        // a one-element tuple whose counterpart is not one: one event whatever the element is
        if a.kind == "Tuple" && a.kids.len() == 1 && !(b.kind == "Tuple" && b.kids.len() == 1) {
            return Some(Diff { path: path.clone(), tag: "one-element-tuple->its-element".to_string(), left: a.render(40), right: b.render(40) });
        }
        if a.kind != b.kind {
            let tag = format!("{}->{}", a.kind, b.kind);
            return Some(Diff { path: path.clone(), tag, left: a.render(40), right: b.render(40) });
        }
        if a.payload != b.payload {
            return Some(Diff { path: path.clone(), tag: format!("{}-payload", a.kind), left: a.render(40), right: b.render(40) });
        }
        if a.kids.len() != b.kids.len() {
            // find the first child that differs to make the class more telling
            let parent = a.kind;
            for (x, y) in a.kids.iter().zip(b.kids.iter()) {
                if x != y {
                    path.push(a.label());
                    let inner = rec(x, y, path);
                    path.pop();
                    if let Some(d) = inner {
                        return Some(d);
                    }
                }
            }
            return Some(Diff {
                path: path.clone(),
                tag: format!("{}-arity", parent),
                left: a.render(40),
                right: b.render(40),
            });
        }
        path.push(a.label());
        for (x, y) in a.kids.iter().zip(b.kids.iter()) {
            if let Some(d) = rec(x, y, path) {
                path.pop();
                return Some(d);
            }
        }
        path.pop();
        None
    }
    rec(a, b, &mut vec![])
}

fn ty(t: TypeNodeId) -> N {
    ty_depth(t, 0)
}
fn ty_depth(t: TypeNodeId, d: usize) -> N {
    if d > 64 {
        return n("TypeTooDeep", vec![]);
    }
    let r = |x: TypeNodeId| ty_depth(x, d + 1);
    match t.to_type() {
        Type::Primitive(p) => np(
            "TPrim",
            match p {
                PType::Unit => "unit",
                PType::Int => "int",
                PType::Numeric => "float",
                PType::String => "string",
            },
            vec![],
        ),
        Type::Array(a) => n("TArray", vec![r(a)]),
        Type::Tuple(v) => n("TTuple", v.into_iter().map(r).collect()),
        Type::Record(fs) => n(
            "TRecord",
            fs.into_iter().map(|f| np("TField", format!("{}{}", f.key.as_str(), if f.has_default { "=default" } else { "" }), vec![r(f.ty)])).collect(),
        ),
        Type::Function { arg, ret } => n("TFn", vec![r(arg), r(ret)]),
        Type::Ref(a) => n("TRef", vec![r(a)]),
        Type::Code(a) => n("TCode", vec![r(a)]),
        Type::Union(v) => n("TUnion", v.into_iter().map(r).collect()),
        Type::UserSum { name, variants } => np(
            "TUserSum",
            name.as_str(),
            variants.into_iter().map(|(s, p)| np("TVariant", s.as_str(), p.into_iter().map(r).collect())).collect(),
        ),
        Type::Boxed(a) => n("TBoxed", vec![r(a)]),
        Type::Intermediate(_) => n("TIntermediate", vec![]),
        Type::TypeScheme(_) => n("TScheme", vec![]),
        Type::TypeAlias(s) => np("TAlias", s.as_str(), vec![]),
        Type::Any => n("TAny", vec![]),
        Type::Failure => n("TFailure", vec![]),
        Type::Unknown => n("TUnknown", vec![]),
    }
}
fn lit(l: &Literal) -> N {
    match l {
        Literal::String(s) => np("LString", s.as_str(), vec![]),
        Literal::Int(i) => np("LInt", i.to_string(), vec![]),
        Literal::Float(s) => np("LFloat", s.as_str(), vec![]),
        Literal::SelfLit => n("LSelf", vec![]),
        Literal::Now => n("LNow", vec![]),
        Literal::SampleRate => n("LSampleRate", vec![]),
        Literal::PlaceHolder => n("LPlaceHolder", vec![]),
    }
}
fn pat(p: &Pattern) -> N {
    match p {
        Pattern::Single(s) => np("PSingle", s.as_str(), vec![]),
        Pattern::Placeholder => n("PPlaceholder", vec![]),
        Pattern::Tuple(v) => n("PTuple", v.iter().map(pat).collect()),
        Pattern::Record(v) => n("PRecord", v.iter().map(|(k, p)| np("PField", k.as_str(), vec![pat(p)])).collect()),
        Pattern::Error => n("PError", vec![]),
    }
}
fn tid(t: &TypedId, d: usize) -> N {
    let mut kids = vec![ty(t.ty)];
    if let Some(e) = t.default_value {
        kids.push(n("Default", vec![ex(e, d + 1)]));
    }
    np("TypedId", t.id.as_str(), kids)
}
fn tpat(t: &TypedPattern, d: usize) -> N {
    let mut kids = vec![pat(&t.pat), ty(t.ty)];
    if let Some(e) = t.default_value {
        kids.push(n("Default", vec![ex(e, d + 1)]));
    }
    n("TypedPattern", kids)
}
fn mpat(p: &MatchPattern) -> N {
    match p {
        MatchPattern::Literal(l) => n("MLit", vec![lit(l)]),
        MatchPattern::Wildcard => n("MWildcard", vec![]),
        MatchPattern::Variable(s) => np("MVar", s.as_str(), vec![]),
        MatchPattern::Constructor(s, inner) => np("MCtor", s.as_str(), inner.iter().map(|b| mpat(b)).collect()),
        MatchPattern::Tuple(v) => n("MTuple", v.iter().map(mpat).collect()),
    }
}
fn opt(e: Option<ExprNodeId>, d: usize) -> N {
    match e {
        Some(e) => ex(e, d + 1),
        None => n("None", vec![]),
    }
}
/// `Then`/`Let`/`LetRec` chains are walked iteratively (they are as long as a file).
fn ex(e: ExprNodeId, d: usize) -> N {
    if d > 400 {
        return n("ExprTooDeep", vec![]);
    }
    let r = |x: ExprNodeId| ex(x, d + 1);
    // iterative spine for statement chains
    let mut spine: Vec<N> = vec![];
    let mut cur = e;
    let last: N;
    loop {
        match cur.to_expr() {
            Expr::Let(p, v, Some(then)) => {
                spine.push(n("Let", vec![tpat(&p, d), r(v)]));
                cur = then;
            }
            Expr::LetRec(id, v, Some(then)) => {
                spine.push(n("LetRec", vec![tid(&id, d), r(v)]));
                cur = then;
            }
            Expr::Then(a, Some(then)) => {
                spine.push(n("Then", vec![r(a)]));
                cur = then;
            }
            other => {
                last = ex_node(other, d);
                break;
            }
        }
    }
    if spine.is_empty() {
        last
    } else {
        spine.push(last);
        n("Seq", spine)
    }
}
fn ex_node(e: Expr, d: usize) -> N {
    let r = |x: ExprNodeId| ex(x, d + 1);
    let rv = |v: Vec<ExprNodeId>| v.into_iter().map(|x| ex(x, d + 1)).collect::<Vec<_>>();
    match e {
        Expr::Literal(l) => lit(&l),
        Expr::Var(s) => np("Var", s.as_str(), vec![]),
        Expr::QualifiedVar(p) => np("QualifiedVar", p.segments.iter().map(|s| s.as_str()).collect::<Vec<_>>().join("::"), vec![]),
        Expr::Block(b) => n("Block", vec![opt(b, d)]),
        Expr::Tuple(v) => n("Tuple", rv(v)),
        Expr::Proj(a, i) => np("Proj", i.to_string(), vec![r(a)]),
        Expr::ArrayAccess(a, b) => n("ArrayAccess", vec![r(a), r(b)]),
        Expr::ArrayLiteral(v) => n("ArrayLiteral", rv(v)),
        Expr::RecordLiteral(fs) => n("RecordLiteral", fs.into_iter().map(|f| np("Field", f.name.as_str(), vec![r(f.expr)])).collect()),
        Expr::ImcompleteRecord(fs) => n("ImcompleteRecord", fs.into_iter().map(|f| np("Field", f.name.as_str(), vec![r(f.expr)])).collect()),
        Expr::RecordUpdate(b, fs) => {
            let mut kids = vec![r(b)];
            kids.extend(fs.into_iter().map(|f| np("Field", f.name.as_str(), vec![r(f.expr)])));
            n("RecordUpdate", kids)
        }
        Expr::FieldAccess(a, s) => np("FieldAccess", s.as_str(), vec![r(a)]),
        Expr::Apply(f, args) => {
            let mut kids = vec![r(f)];
            kids.extend(rv(args));
            n("Apply", kids)
        }
        Expr::MacroExpand(f, args) => {
            let mut kids = vec![r(f)];
            kids.extend(rv(args));
            n("MacroExpand", kids)
        }
        Expr::BinOp(a, (op, _), b) => np("BinOp", format!("{op:?}"), vec![r(a), r(b)]),
        Expr::UniOp((op, _), a) => np("UniOp", format!("{op:?}"), vec![r(a)]),
        Expr::Paren(a) => n("Paren", vec![r(a)]),
        Expr::Lambda(ps, rt, body) => {
            let mut kids = vec![n("Params", ps.iter().map(|p| tid(p, d)).collect())];
            kids.push(match rt {
                Some(t) => n("Ret", vec![ty(t)]),
                None => n("NoRet", vec![]),
            });
            kids.push(r(body));
            n("Lambda", kids)
        }
        Expr::Assign(a, b) => n("Assign", vec![r(a), r(b)]),
        Expr::Then(a, b) => n("Then", vec![r(a), opt(b, d)]),
        Expr::Feed(s, a) => np("Feed", s.as_str(), vec![r(a)]),
        Expr::Let(p, v, b) => n("Let", vec![tpat(&p, d), r(v), opt(b, d)]),
        Expr::LetRec(id, v, b) => n("LetRec", vec![tid(&id, d), r(v), opt(b, d)]),
        Expr::If(c, t, e) => n("If", vec![r(c), r(t), opt(e, d)]),
        Expr::Match(s, arms) => {
            let mut kids = vec![r(s)];
            kids.extend(arms.into_iter().map(|a| n("Arm", vec![mpat(&a.pattern), r(a.body)])));
            n("Match", kids)
        }
        Expr::Bracket(a) => n("Bracket", vec![r(a)]),
        Expr::Escape(a) => n("Escape", vec![r(a)]),
        Expr::Error => n("ExprError", vec![]),
    }
}
fn vis(v: &Visibility) -> &'static str {
    match v {
        Visibility::Private => "",
        Visibility::Public => "pub",
    }
}
fn stmt(s: &Statement) -> N {
    match s {
        Statement::Let(p, e) => n("SLet", vec![tpat(p, 0), ex(*e, 0)]),
        Statement::LetRec(id, e) => n("SLetRec", vec![tid(id, 0), ex(*e, 0)]),
        Statement::Assign(a, b) => n("SAssign", vec![ex(*a, 0), ex(*b, 0)]),
        Statement::Single(e) => n("SSingle", vec![ex(*e, 0)]),
        Statement::DeclareStage(k) => np("SStage", k.to_string(), vec![]),
        Statement::Error => n("SError", vec![]),
    }
}
fn pstmt(s: &ProgramStatement) -> N {
    match s {
        ProgramStatement::FnDefinition { visibility, name, args, return_type, body } => {
            let mut kids = vec![n("Params", args.0.iter().map(|p| tid(p, 0)).collect())];
            kids.push(match return_type {
                Some(t) => n("Ret", vec![ty(*t)]),
                None => n("NoRet", vec![]),
            });
            kids.push(ex(*body, 0));
            np("FnDefinition", format!("{}{}", if vis(visibility).is_empty() { "" } else { "pub " }, name.as_str()), kids)
        }
        ProgramStatement::StageDeclaration { stage } => np("StageDeclaration", stage.to_string(), vec![]),
        ProgramStatement::GlobalStatement(s) => n("GlobalStatement", vec![stmt(s)]),
        ProgramStatement::Import(s) => np("Import", s.as_str(), vec![]),
        ProgramStatement::ModuleDefinition { visibility, name, body } => np(
            "ModuleDefinition",
            format!("{}{}{}", if vis(visibility).is_empty() { "" } else { "pub " }, name.as_str(), if body.is_none() { " (external)" } else { "" }),
            body.iter().flatten().map(|(s, _)| pstmt(s)).collect(),
        ),
        ProgramStatement::UseStatement { visibility, path, target } => np(
            "UseStatement",
            format!(
                "{}{}{}",
                if vis(visibility).is_empty() { "" } else { "pub " },
                path.segments.iter().map(|s| s.as_str()).collect::<Vec<_>>().join("::"),
                match target {
                    UseTarget::Single => String::new(),
                    UseTarget::Multiple(v) => format!("::{{{}}}", v.iter().map(|s| s.as_str()).collect::<Vec<_>>().join(",")),
                    UseTarget::Wildcard => "::*".into(),
                }
            ),
            vec![],
        ),
        ProgramStatement::TypeAlias { visibility, name, target_type } => {
            np("TypeAlias", format!("{}{}", if vis(visibility).is_empty() { "" } else { "pub " }, name.as_str()), vec![ty(*target_type)])
        }
        ProgramStatement::TypeDeclaration { visibility, name, variants, is_recursive } => np(
            "TypeDeclaration",
            format!("{}{}{}", if vis(visibility).is_empty() { "" } else { "pub " }, if *is_recursive { "rec " } else { "" }, name.as_str()),
            variants.iter().map(|v| np("Variant", v.name.as_str(), v.payload.iter().map(|t| ty(*t)).collect())).collect(),
        ),
        ProgramStatement::Comment(s) => np("Comment", s.as_str(), vec![]),
        ProgramStatement::DocComment(s) => np("DocComment", s.as_str(), vec![]),
        ProgramStatement::Error => n("StatementError", vec![]),
    }
}
pub fn program_tree(p: &Program) -> N {
    n("Program", p.statements.iter().map(|(s, _)| pstmt(s)).collect())
}

// =====================================================================================
// concrete view: tokens, trivia ownership, CST parents (real tokenizer / preparser / CST parser)
// =====================================================================================

use mimium_lang::compiler::parser::green::GreenNode;
use mimium_lang::compiler::parser::{SyntaxKind, Token};

pub struct Cst {
    pub toks: Vec<Token>,
    /// raw indices of the non-trivia tokens, in order
    pub nontrivia: Vec<usize>,
    /// raw token index -> enclosing CST nodes from the root down (serial number, kind); statement and leaf wrappers skipped
    pub chain: HashMap<usize, Vec<(usize, SyntaxKind)>>,
    /// raw token index -> (serial number of the innermost enclosing Statement node, kind of the node holding that statement)
    pub stmt: HashMap<usize, (usize, Option<SyntaxKind>, usize)>,
    /// raw index of a trivia token -> (ordinal of the owning non-trivia token, is_leading)
    pub owner: HashMap<usize, (usize, bool)>,
    pub errors: Vec<(usize, String)>,
}

fn transparent(k: SyntaxKind) -> bool {
    matches!(
        k,
        SyntaxKind::Statement
            | SyntaxKind::Program
            | SyntaxKind::IntLiteral
            | SyntaxKind::FloatLiteral
            | SyntaxKind::StringLiteral
            | SyntaxKind::SelfLiteral
            | SyntaxKind::NowLiteral
            | SyntaxKind::SampleRateLiteral
            | SyntaxKind::PlaceHolderLiteral
            | SyntaxKind::Identifier
            | SyntaxKind::SinglePattern
            | SyntaxKind::PrimitiveType
            | SyntaxKind::TypeIdent
            | SyntaxKind::UnitType
    )
}

pub fn cst_of(src: &str) -> Cst {
    let tokens = parser::tokenize(src);
    let pre = parser::preparse(&tokens);
    let (root, arena, toks, errs) = parser::parse_cst(tokens, &pre);
    let mut chain: HashMap<usize, Vec<(usize, SyntaxKind)>> = HashMap::new();
    let mut stmt = HashMap::new();
    let mut serial = 0usize;
    // iterative walk: (node, chain of enclosing nodes, (statement serial, holder kind))
    let mut stack: Vec<(parser::GreenNodeId, Vec<(usize, SyntaxKind)>, (usize, Option<SyntaxKind>, usize))> = vec![(root, vec![], (0, None, 0))];
    while let Some((id, ch, st)) = stack.pop() {
        match arena.get(id) {
            GreenNode::Token { token_index, .. } => {
                chain.insert(*token_index, ch);
                stmt.insert(*token_index, st);
            }
            GreenNode::Internal { kind, children, .. } => {
                serial += 1;
                let mut nch = ch.clone();
                if !transparent(*kind) {
                    nch.push((serial, *kind));
                }
                let nst = if *kind == SyntaxKind::Statement { (serial, ch.last().map(|x| x.1), ch.last().map(|x| x.0).unwrap_or(0)) } else { st };
                for c in children {
                    stack.push((*c, nch.clone(), nst));
                }
            }
        }
    }
    let mut owner = HashMap::new();
    for (ord, v) in &pre.leading_trivia_map {
        for raw in v {
            owner.insert(*raw, (*ord, true));
        }
    }
    for (ord, v) in &pre.trailing_trivia_map {
        for raw in v {
            owner.insert(*raw, (*ord, false));
        }
    }
    Cst { nontrivia: pre.token_indices.clone(), chain, stmt, owner, errors: errs.iter().map(|e| (e.token_index, e.to_string())).collect(), toks }
}

impl Cst {
    fn kind_at(&self, ord: usize) -> String {
        self.nontrivia.get(ord).and_then(|r| self.toks.get(*r)).map(|t| format!("{:?}", t.kind)).unwrap_or_else(|| "Eof".into())
    }
    fn text_at<'a>(&self, src: &'a str, ord: usize) -> &'a str {
        self.nontrivia.get(ord).and_then(|r| self.toks.get(*r)).map(|t| t.text(src)).unwrap_or("")
    }
    fn where_at(&self, ord: usize) -> String {
        let ord = ord.min(self.nontrivia.len().saturating_sub(1));
        match self.nontrivia.get(ord).and_then(|r| self.chain.get(r)).and_then(|c| c.last()) {
            Some((_, p)) => format!("{p:?}"),
            _ => "top".into(),
        }
    }
    /// kind of the lowest CST node that contains both tokens
    fn lca(&self, o1: usize, o2: usize) -> String {
        let c1 = self.nontrivia.get(o1).and_then(|r| self.chain.get(r));
        let c2 = self.nontrivia.get(o2).and_then(|r| self.chain.get(r));
        match (c1, c2) {
            (Some(a), Some(b)) => a.iter().zip(b.iter()).take_while(|(x, y)| x.0 == y.0).last().map(|(x, _)| format!("{:?}", x.1)).unwrap_or_else(|| "top".into()),
            _ => "top".into(),
        }
    }
    fn has_linebreak_before(&self, src: &str, ord: usize) -> bool {
        let t = self.trivia_before(src, ord);
        // `;` is a line break token; comments may contain either character, so ask the tokens
        let start = if ord == 0 { 0 } else { self.nontrivia.get(ord - 1).map(|r| r + 1).unwrap_or(0) };
        let end = self.nontrivia.get(ord).copied().unwrap_or(self.toks.len());
        let _ = t;
        self.toks[start.min(end)..end].iter().any(|t| t.kind == TokenKind::LineBreak)
    }
    fn raw_kind(&self, ord: usize) -> Option<TokenKind> {
        self.nontrivia.get(ord).and_then(|r| self.toks.get(*r)).map(|t| t.kind)
    }
    fn stmt_at(&self, ord: usize) -> Option<(usize, Option<SyntaxKind>, usize)> {
        self.nontrivia.get(ord).and_then(|r| self.stmt.get(r)).copied()
    }
    fn ordinal_of_raw(&self, raw: usize) -> usize {
        self.nontrivia.iter().take_while(|r| **r < raw).count()
    }
    /// source text between non-trivia token ord-1 and ord
    fn trivia_before<'a>(&self, src: &'a str, ord: usize) -> &'a str {
        let start = if ord == 0 { 0 } else { self.nontrivia.get(ord - 1).map(|r| self.toks[*r].end()).unwrap_or(src.len()) };
        let end = self.nontrivia.get(ord).map(|r| self.toks[*r].start).unwrap_or(src.len());
        if start <= end { &src[start..end] } else { "" }
    }
}

/// One place where the non-trivia token sequence of the output departs from the input's.
#[derive(Clone, Debug)]
pub struct Hunk {
    pub a_ord: usize,
    /// number of input tokens covered
    pub a_len: usize,
    pub b_ord: usize,
    pub b_len: usize,
    pub class: String,
}

/// Constructs whose CST nodes are printed by concatenating their tokens (no printer of their
/// own in cst_print.rs): every event inside them is the same observation.
fn family(kind: &str) -> &str {
    match kind {
        "MatchArm" | "MatchArmList" | "MatchPattern" | "ConstructorPattern" => "MatchExpr",
        "VariantDef" => "TypeDecl",
        k => k,
    }
}
fn event_class(what: String, loc: &str) -> String {
    let loc = family(loc);
    if loc == "MatchExpr" || loc == "TypeDecl" { format!("printed-as-bare-tokens@{loc}") } else { format!("{what}@{loc}") }
}

/// Alignment of the token texts of `a` (input) and `b` (output). The formatter may only
/// re-emit tokens, so every hunk is an event worth naming; locations refer to `a`'s CST.
pub fn align(a_src: &str, a: &Cst, b_src: &str, b: &Cst) -> Vec<Hunk> {
    let na = a.nontrivia.len();
    let nb = b.nontrivia.len();
    let ta = |k: usize| a.text_at(a_src, k);
    let tb = |k: usize| b.text_at(b_src, k);
    let (mut i, mut j) = (0, 0);
    let mut hunks = vec![];
    while i < na || j < nb {
        if i < na && j < nb && ta(i) == tb(j) {
            i += 1;
            j += 1;
            continue;
        }
        // what follows a candidate hunk must agree (one token; two for larger hunks when available)
        let follows = |m: usize, nn: usize| -> bool {
            let (ni, nj) = (i + m, j + nn);
            let end_a = ni >= na;
            let end_b = nj >= nb;
            if end_a || end_b {
                return end_a && end_b;
            }
            ta(ni) == tb(nj) && (m + nn <= 2 || ni + 1 >= na || nj + 1 >= nb || ta(ni + 1) == tb(nj + 1))
        };
        let mut found = None;
        // 1. the same characters cut into tokens differently (glued or split tokens)
        'glue: for total in 2..=14usize {
            for m in 1..total {
                let nn = total - m;
                if i + m > na || j + nn > nb {
                    continue;
                }
                let ca: String = (i..i + m).map(&ta).collect();
                let cb: String = (j..j + nn).map(&tb).collect();
                let (ni, nj) = (i + m, j + nn);
                let next_agrees = if ni >= na || nj >= nb { ni >= na && nj >= nb } else { ta(ni) == tb(nj) };
                if ca == cb && next_agrees {
                    found = Some((m, nn));
                    break 'glue;
                }
            }
        }
        // 2. a whole CST node of the input is missing from the output
        let mut dropped_node: Option<(usize, SyntaxKind)> = None;
        if found.is_none()
            && i < na
            && let Some(ch) = a.nontrivia.get(i).and_then(|r| a.chain.get(r))
        {
            // ancestors of a[i] that start at a[i], outermost first
            for (serial, kind) in ch.iter() {
                let starts_here = i == 0 || !a.nontrivia.get(i - 1).and_then(|r| a.chain.get(r)).is_some_and(|c| c.iter().any(|x| x.0 == *serial));
                if !starts_here {
                    continue;
                }
                let mut m = 0;
                while i + m < na && a.nontrivia.get(i + m).and_then(|r| a.chain.get(r)).is_some_and(|c| c.iter().any(|x| x.0 == *serial)) {
                    m += 1;
                }
                // demand two agreeing tokens after the node (a single one is too easily a coincidence)
                let (ni, nj) = (i + m, j);
                let strong = ni >= na || nj >= nb || ni + 1 >= na || nj + 1 >= nb || b.text_at(b_src, nj + 1).starts_with(a.text_at(a_src, ni + 1));
                // ... or another token change starts right behind the node (tokens glued: `| |` -> `||`)
                let glue_follows = ni + 1 < na && nj < nb && {
                    let t = b.text_at(b_src, nj);
                    let x = a.text_at(a_src, ni);
                    t.len() > x.len() && t.starts_with(x) && t[x.len()..].starts_with(a.text_at(a_src, ni + 1))
                };
                let first_agrees = if ni >= na || nj >= nb { ni >= na && nj >= nb } else { a.text_at(a_src, ni) == b.text_at(b_src, nj) };
                if m >= 1 && ((first_agrees && strong) || glue_follows) {
                    found = Some((m, 0));
                    dropped_node = Some((m, *kind));
                    break;
                }
            }
        }
        // 3. tokens missing from the output (a separator comma first), 4. tokens only in the output
        if found.is_none() {
            for m in 1..=80usize {
                if i + m <= na && follows(m, 0) {
                    found = Some((m, 0));
                    break;
                }
                if m <= 6 && j + m <= nb && follows(0, m) {
                    found = Some((0, m));
                    break;
                }
            }
        }
        let Some((m, nn)) = found else {
            hunks.push(Hunk { a_ord: i, a_len: na - i, b_ord: j, b_len: nb - j, class: event_class(format!("changed:{}->{}", a.kind_at(i), b.kind_at(j)), &a.where_at(i)) });
            return hunks;
        };
        let class = if m == 0 {
            event_class(format!("inserted:{}-before-{}", b.kind_at(j), a.kind_at(i)), &a.where_at(i))
        } else if let Some((_, kind)) = dropped_node {
            event_class(format!("dropped-node:{kind:?}"), &a.lca(i.saturating_sub(1), i))
        } else if nn == 0 {
            if (i..i + m).all(|k| a.kind_at(k) == "Comma") {
                event_class("dropped:Comma".to_string(), &a.where_at(i))
            } else {
                event_class(format!("dropped-tokens:{}", a.kind_at(i)), &a.where_at(i))
            }
        } else {
            // same characters, other tokens; across a statement boundary?
            let across = (i..i + m - 1).find(|k| a.stmt_at(*k).map(|s| s.0) != a.stmt_at(*k + 1).map(|s| s.0) && a.stmt_at(*k).map(|s| s.2) == a.stmt_at(*k + 1).map(|s| s.2));
            match across {
                Some(k) => {
                    let holder = a.stmt_at(k + 1).and_then(|s| s.1).map(|k| format!("{k:?}")).unwrap_or_else(|| "top".into());
                    event_class("statements-glued".to_string(), &holder)
                }
                None if m > nn => event_class(format!("glued-after:{}", a.kind_at(i)), &a.lca(i, i + 1)),
                None if m >= 2 => event_class(format!("retokenized-after:{}", a.kind_at(i)), &a.lca(i, i + m - 1)),
                None => event_class(format!("split:{}", a.kind_at(i)), &a.where_at(i)),
            }
        };
        hunks.push(Hunk { a_ord: i, a_len: m, b_ord: j, b_len: nn, class });
        i += m;
        j += nn;
    }
    hunks
}

fn ends_expression(k: TokenKind) -> bool {
    matches!(
        k,
        TokenKind::Ident
            | TokenKind::IdentFunction
            | TokenKind::IdentParameter
            | TokenKind::IdentVariable
            | TokenKind::Int
            | TokenKind::Float
            | TokenKind::Str
            | TokenKind::SelfLit
            | TokenKind::Now
            | TokenKind::SampleRate
            | TokenKind::PlaceHolder
            | TokenKind::ParenEnd
            | TokenKind::ArrayEnd
            | TokenKind::BlockEnd
    )
}
/// Line breaks mimium's parser is sensitive to, compared between input `a` and output `b`
/// at token boundaries that the alignment maps onto each other (a_ord, b_ord, class):
/// postfix continuations do not cross a line break (`parse_postfix_expr`), so
/// * removing the line break in front of `(`, `[` or `.` after the end of an expression turns two
///   expressions into a call, index or field access;
/// * adding one stops a call, index or field access that the input had.
pub fn linebreak_events(a_src: &str, a: &Cst, b_src: &str, b: &Cst, hunks: &[Hunk]) -> Vec<Hunk> {
    let mut ev = vec![];
    let na = a.nontrivia.len();
    let nb = b.nontrivia.len();
    let (mut i, mut j) = (0usize, 0usize);
    let mut h = 0;
    // `fresh`: the previous pair of tokens was matched one to one
    let mut fresh = false;
    while i < na && j < nb {
        if h < hunks.len() && hunks[h].a_ord == i && hunks[h].b_ord == j {
            i += hunks[h].a_len;
            j += hunks[h].b_len;
            h += 1;
            fresh = false;
            continue;
        }
        if a.text_at(a_src, i) != b.text_at(b_src, j) {
            return ev;
        }
        if fresh {
            let la = a.has_linebreak_before(a_src, i);
            let lb = b.has_linebreak_before(b_src, j);
            if la != lb {
                let prev = a.raw_kind(i - 1).unwrap_or(TokenKind::Eof);
                let cur = a.raw_kind(i).unwrap_or(TokenKind::Eof);
                // only postfix continuations are sensitive to line breaks in mimium's parser
                let postfix = matches!(cur, TokenKind::ParenBegin | TokenKind::ArrayBegin | TokenKind::Dot);
                let lca = a.lca(i - 1, i);
                let in_decl_header = matches!(lca.as_str(), "FunctionDecl" | "ModuleDecl" | "TypeDecl" | "VariantDef" | "UseStmt" | "top");
                let (s1, s2) = (a.stmt_at(i - 1), a.stmt_at(i));
                if la && !lb && s1.map(|x| x.0) != s2.map(|x| x.0) && s1.map(|x| x.2) == s2.map(|x| x.2) && b.trivia_before(b_src, j).is_empty() {
                    // two statements of the input end up on one line with nothing between them
                    let holder = s2.and_then(|x| x.1).map(|k| format!("{k:?}")).unwrap_or_else(|| "top".into());
                    ev.push(Hunk { a_ord: i, a_len: 0, b_ord: j, b_len: 0, class: event_class("statements-glued".to_string(), &holder) });
                } else if postfix && ends_expression(prev) && prev != TokenKind::IdentFunction && !in_decl_header {
                    let what = if la && !lb { "linebreak-removed-before-postfix" } else { "linebreak-added-before-postfix" };
                    ev.push(Hunk { a_ord: i, a_len: 0, b_ord: j, b_len: 0, class: event_class(what.to_string(), &lca) });
                }
            }
        }
        fresh = true;
        i += 1;
        j += 1;
    }
    ev
}

/// The observable cause a wrong output is attributed to: token-sequence changes other than
/// dropped commas first, then parser-relevant line-break changes, then dropped commas.
/// `upto`: only events at or before this output token (parse errors), nearest first.
pub fn attribute(hunks: &[Hunk], lbs: &[Hunk], upto: Option<usize>) -> Option<String> {
    let ok = |h: &&Hunk| upto.is_none_or(|u| h.b_ord <= u);
    let strong: Vec<&Hunk> = hunks.iter().filter(|h| !h.class.starts_with("dropped:Comma")).filter(ok).collect();
    let lb: Vec<&Hunk> = lbs.iter().filter(ok).collect();
    let pick = |v: &Vec<&Hunk>| if upto.is_some() { v.last().map(|h| (*h).clone()) } else { v.first().map(|h| (*h).clone()) };
    match (pick(&strong), pick(&lb)) {
        (Some(s), Some(l)) => {
            if upto.is_some() {
                Some(if l.b_ord > s.b_ord { l.class } else { s.class })
            } else {
                Some(if l.b_ord < s.b_ord { l.class } else { s.class })
            }
        }
        (Some(s), None) => Some(s.class),
        (None, Some(l)) => Some(l.class),
        (None, None) => hunks.iter().filter(ok).next_back().map(|h| h.class.clone()),
    }
}

/// For two texts with identical token sequences: the first token whose preceding trivia differs.
pub fn layout_divergence(a_src: &str, a: &Cst, b_src: &str, b: &Cst) -> String {
    let n = a.nontrivia.len().min(b.nontrivia.len());
    for k in 0..=n {
        let x = a.trivia_before(a_src, k);
        let y = b.trivia_before(b_src, k);
        if x != y {
            let c = if x.contains("//") || x.contains("/*") || y.contains("//") || y.contains("/*") { "+comment" } else { "" };
            return format!("layout{c}@{}", a.where_at(k));
        }
    }
    "layout:none".into()
}

// =====================================================================================
// the oracle
// =====================================================================================

/// What the real front end says about a text.
pub struct Parsed {
    pub errors: Vec<String>,
    pub tree: N,
    /// comments in order of appearance (real tokenizer)
    pub comments: Vec<String>,
    pub nontrivia_tokens: usize,
}

pub fn comments_of(src: &str) -> (Vec<String>, usize) {
    let toks = parser::tokenize(src);
    let mut cs = vec![];
    let mut nt = 0;
    for t in &toks {
        match t.kind {
            TokenKind::SingleLineComment | TokenKind::MultiLineComment => cs.push(t.text(src).trim_end().to_string()),
            TokenKind::Eof => {}
            _ if t.is_trivia() => {}
            _ => nt += 1,
        }
    }
    (cs, nt)
}

pub fn parse_text(src: &str) -> Parsed {
    let (prog, errs) = parser::parse_program(src, PathBuf::new());
    let (comments, nontrivia_tokens) = comments_of(src);
    Parsed { errors: errs.iter().map(|e| format!("{e} @token {}", e.token_index)).collect(), tree: program_tree(&prog), comments, nontrivia_tokens }
}

/// `parse_to_expr` view (the entry point the compiler uses): expression tree + number of errors.
pub fn expr_view(src: &str, path: &Option<PathBuf>) -> (N, usize) {
    let (e, _mi, errs) = parser::parse_to_expr(src, path.clone());
    (ex(e, 0), errs.len())
}

pub fn set_indent(i: usize) {
    match mimium_fmt::GLOBAL_DATA.lock() {
        Ok(mut g) => g.indent_size = i,
        Err(p) => p.into_inner().indent_size = i,
    }
}

pub fn format_real(src: &str, width: usize) -> Result<Result<String, usize>, crate::util::Panic> {
    catch(|| mimium_fmt::pretty_print_cst(src, &None, width).map_err(|e| e.len()))
}

#[derive(Clone, Debug)]
pub struct Viol {
    pub sig: String,
    pub detail: String,
    pub width: usize,
    pub indent: usize,
}

fn clip(s: &str, n: usize) -> String {
    if s.len() <= n {
        s.to_string()
    } else {
        let mut e = n;
        while !s.is_char_boundary(e) {
            e -= 1;
        }
        format!("{}…[{} bytes]", &s[..e], s.len())
    }
}

/// Greedy in-order matching of the input comments in the output: indices of the input
/// comments that cannot be matched (each is a refuting event of the comment clause).
fn unmatched_comments(a: &[String], b: &[String]) -> Vec<usize> {
    let mut j = 0;
    let mut miss = vec![];
    for (i, x) in a.iter().enumerate() {
        match b[j..].iter().position(|y| y == x) {
            Some(p) => j += p + 1,
            None => miss.push(i),
        }
    }
    miss
}

/// Which token the `k`-th comment of the input is attached to (real preparser) and where that
/// token sits in the CST: "trailing-of-Comma@ArgList<CallExpr".
pub fn comment_owner(src: &str, cst: &Cst, k: usize, hunks: &[Hunk]) -> String {
    let mut seen = 0;
    for (raw, t) in cst.toks.iter().enumerate() {
        if matches!(t.kind, TokenKind::SingleLineComment | TokenKind::MultiLineComment) {
            if seen == k {
                let ck = if t.kind == TokenKind::SingleLineComment { "line" } else { "block" };
                let _ = src;
                let _ = ck;
                // the token that carries the comment is itself missing from the output
                if let Some((ord, _)) = cst.owner.get(&raw)
                    && let Some(h) = hunks.iter().find(|h| (h.class.starts_with("dropped-tokens") || h.class.starts_with("dropped-node")) && h.a_ord <= *ord && *ord < h.a_ord + h.a_len)
                {
                    return format!("with-{}", h.class);
                }
                return match cst.owner.get(&raw) {
                    // separator commas are handled alike by all list printers: one class
                    Some((ord, _)) if cst.kind_at(*ord) == "Comma" => "attached-to-Comma".to_string(),
                    Some((ord, _)) if matches!(family(&cst.where_at(*ord)), "MatchExpr" | "TypeDecl") => format!("in-printed-as-bare-tokens@{}", family(&cst.where_at(*ord))),
                    Some((ord, _)) => format!("attached-to-{}@{}", cst.kind_at(*ord), cst.where_at(*ord)),
                    None => "unattached".to_string(),
                };
            }
            seen += 1;
        }
    }
    "?".into()
}

pub struct Input {
    pub src: String,
    pub parsed: Parsed,
    pub expr: (N, usize),
    pub cst: Cst,
    pub path: Option<PathBuf>,
}

pub struct ConfigObs {
    pub output: String,
    pub changed: bool,
}

/// All clauses for one (text, width, indent). `memo` remembers outputs that were already
/// fully examined for this program. Every violated clause is reported (not only the first).
pub fn check_config(input: &Input, width: usize, indent: usize, memo: &mut HashMap<String, Vec<Viol>>, out: &mut Out) -> Result<ConfigObs, Vec<Viol>> {
    let v = |sig: String, detail: String| Viol { sig, detail, width, indent };
    set_indent(indent);
    let formatted = match format_real(&input.src, width) {
        Err(p) => return Err(vec![v(format!("format-panics/{}", p.sig()), format!("pretty_print_cst panicked: {} @ {}", p.msg, p.loc))]),
        Ok(Err(nerr)) => {
            return Err(vec![v("format-fails-on-valid-program".into(), format!("pretty_print_cst returned Err({nerr} errors) although parse_program reports no error"))]);
        }
        Ok(Ok(s)) => s,
    };
    out.count("formatter_calls", 1);
    let mut viols: Vec<Viol> = vec![];
    // clauses that only depend on the output text
    match memo.get(&formatted) {
        Some(m) => {
            out.count("outputs_identical_to_an_examined_one", 1);
            viols.extend(m.iter().cloned().map(|mut x| {
                x.width = width;
                x.indent = indent;
                x
            }));
        }
        None => {
            out.count("distinct_outputs_parsed_and_compared", 1);
            let r = check_output_text(input, &formatted, width, indent, memo.len(), out);
            memo.insert(formatted.clone(), r.clone());
            viols.extend(r);
        }
    }
    // idempotence depends on (output, width, indent). An output that already refutes the property by
    // not parsing or by parsing to another tree is not examined further at this configuration
    // (whatever a second pass does to it is a consequence, not a separate observation).
    if viols.iter().any(|x| x.sig.starts_with("output-does-not-parse") || x.sig.starts_with("ast-differs")) {
        out.count("idempotence_not_examined(output_already_wrong)", 1);
        return Err(viols);
    }
    match format_real(&formatted, width) {
        Err(p) => viols.push(v(format!("reformat-panics/{}", p.sig()), format!("formatting the output again panicked: {} @ {}\n--- output\n{}", p.msg, p.loc, clip(&formatted, 1500)))),
        Ok(Err(nerr)) => {
            // the output does not parse: already reported by the parse clause; only a separate event if that clause held
            if !viols.iter().any(|x| x.sig.starts_with("output-does-not-parse")) {
                viols.push(v("reformat-fails".into(), format!("formatting the output again returned Err({nerr})\n--- output\n{}", clip(&formatted, 1500))));
            }
        }
        Ok(Ok(a)) if a != formatted => {
            out.count("formatter_calls", 1);
            let (la, lb) = first_line_diff(&formatted, &a);
            let third = format_real(&a, width).ok().and_then(|r| r.ok());
            let conv = match &third {
                Some(t) if *t == a => "second pass is a fixed point",
                Some(_) => "third pass changes it again",
                None => "third pass fails",
            };
            let tag = idempotence_class(&formatted, &a);
            viols.push(v(
                format!("not-idempotent/{tag}"),
                format!(
                    "fmt(fmt(x)) != fmt(x) ({conv}); first differing line:\n  once : {}\n  twice: {}\n--- fmt(x)\n{}\n--- fmt(fmt(x))\n{}",
                    clip(&la, 200),
                    clip(&lb, 200),
                    clip(&formatted, 1500),
                    clip(&a, 1500)
                ),
            ));
        }
        Ok(Ok(_)) => {
            out.count("formatter_calls", 1);
            out.count("idempotence_held", 1);
        }
    }
    if viols.is_empty() { Ok(ConfigObs { changed: formatted != input.src, output: formatted }) } else { Err(viols) }
}

fn first_line_diff(a: &str, b: &str) -> (String, String) {
    let mut ia = a.lines();
    let mut ib = b.lines();
    loop {
        match (ia.next(), ib.next()) {
            (Some(x), Some(y)) if x == y => continue,
            (x, y) => return (x.unwrap_or("<eof>").to_string(), y.unwrap_or("<eof>").to_string()),
        }
    }
}

/// How the second pass differs from the first.
fn idempotence_class(a: &str, b: &str) -> String {
    let ca = cst_of(a);
    let cb = cst_of(b);
    let (ma, _) = comments_of(a);
    let (mb, _) = comments_of(b);
    if mb.len() > ma.len() {
        return "comment-duplicated".into();
    } else if mb.len() < ma.len() {
        return "comment-lost-on-second-pass".into();
    } else if ma != mb {
        return "comments-change".into();
    }
    match align(a, &ca, b, &cb).first() {
        Some(h) => h.class.clone(),
        None => layout_divergence(a, &ca, b, &cb),
    }
}

fn check_output_text(input: &Input, formatted: &str, width: usize, indent: usize, expr_views_done: usize, out: &mut Out) -> Vec<Viol> {
    let mut viols = vec![];
    let mut v = |sig: String, detail: String| viols.push(Viol { sig, detail, width, indent });
    let o = parse_text(formatted);
    out.count("outputs_reparsed", 1);
    let ocst = cst_of(formatted);
    let hunks = align(&input.src, &input.cst, formatted, &ocst);
    // --- comment clause
    let miss = unmatched_comments(&input.parsed.comments, &o.comments);
    let mut seen_tags = BTreeSet::new();
    for i in &miss {
        let tag = comment_owner(&input.src, &input.cst, *i, &hunks);
        if tag.starts_with("with-dropped") {
            // the token carrying the comment is itself missing: part of that (separately reported) event
            out.count("comments_lost_together_with_dropped_tokens", 1);
            continue;
        }
        let c = &input.parsed.comments[*i];
        let elsewhere = o.comments.iter().filter(|x| *x == c).count() >= input.parsed.comments.iter().filter(|x| *x == c).count();
        let kind = if elsewhere { "comment-out-of-order" } else { "comment-lost" };
        if seen_tags.insert(format!("{kind}/{tag}")) {
            v(
                format!("{kind}/{tag}"),
                format!(
                    "input comment #{i} {:?} is {} in the output (input has {} comments, output {}; {} unmatched)\n--- output\n{}",
                    c,
                    if elsewhere { "not in input order" } else { "missing" },
                    input.parsed.comments.len(),
                    o.comments.len(),
                    miss.len(),
                    clip(formatted, 1500)
                ),
            );
        }
    }
    out.count("comments_checked", input.parsed.comments.len() as u64);
    out.count("comments_found_in_order", (input.parsed.comments.len() - miss.len()) as u64);
    if o.comments.len() > input.parsed.comments.len() {
        out.count("outputs_with_more_comments_than_input", 1);
    }
    // --- parse clause
    if !hunks.is_empty() {
        out.count("outputs_whose_token_sequence_differs_from_input", 1);
        for h in &hunks {
            out.set("token_sequence_changes_seen", h.class.clone());
        }
    }
    if !o.errors.is_empty() {
        // blame the nearest token-sequence change at or before the first error token; without one,
        // a line break (or its absence) changed the parse
        let e_ord = match ocst.errors.first() {
            // errors at the end of the input carry token index 0
            Some((_, msg)) if msg.starts_with("Unexpected end of input") => usize::MAX,
            Some((raw, _)) => ocst.ordinal_of_raw(*raw),
            None => 0,
        };
        let lbs = linebreak_events(&input.src, &input.cst, formatted, &ocst, &hunks);
        let tag = match attribute(&hunks, &lbs, Some(e_ord)) {
            Some(c) => c,
            None => format!("layout@{}", input.cst.where_at(e_ord.min(input.cst.nontrivia.len()))),
        };
        v(
            format!("output-does-not-parse/{tag}"),
            format!(
                "the output has {} parse errors, first: {} (token changes: {:?})\n--- output\n{}",
                o.errors.len(),
                o.errors[0],
                hunks.iter().map(|h| h.class.as_str()).take(6).collect::<Vec<_>>(),
                clip(formatted, 1500)
            ),
        );
        return viols;
    }
    out.count("outputs_parsed_without_error", 1);
    // --- AST clause
    if let Some(d) = first_diff(&input.parsed.tree, &o.tree) {
        let lbs = linebreak_events(&input.src, &input.cst, formatted, &ocst, &hunks);
        let tag = if d.tag == "one-element-tuple->its-element" {
            // the tree difference itself names the cause
            "dropped:Comma@TupleExpr".to_string()
        } else {
            match attribute(&hunks, &lbs, None) {
                Some(c) if !c.starts_with("dropped:Comma") => c,
                _ => format!("layout/{}", d.tag),
            }
        };
        v(
            format!("ast-differs/{tag}"),
            format!(
                "parse_program trees differ at {} ({}; token changes: {:?})\n--- input subtree\n{}--- output subtree\n{}--- output\n{}",
                d.path.join(" > "),
                d.tag,
                hunks.iter().map(|h| h.class.as_str()).take(6).collect::<Vec<_>>(),
                d.left,
                d.right,
                clip(formatted, 1500)
            ),
        );
        return viols;
    }
    out.count("program_trees_compared_equal", 1);
    out.count("ast_nodes_compared", input.parsed.tree.size() as u64);
    // parse_to_expr is a function of the Program just compared (plus include files); it is the
    // entry point the compiler uses, so it is run too, on the first distinct outputs of a program
    // (every parse interns its nodes for the life of the process)
    if expr_views_done >= 2 {
        return viols;
    }
    let oe = expr_view(formatted, &input.path);
    if let Some(d) = first_diff(&input.expr.0, &oe.0) {
        v(
            format!("ast-differs/parse_to_expr/{}", d.tag),
            format!("parse_to_expr trees differ at {}\n--- input subtree\n{}--- output subtree\n{}--- output\n{}", d.path.join(" > "), d.left, d.right, clip(formatted, 1500)),
        );
    } else if oe.1 != input.expr.1 {
        v(
            "ast-differs/parse_to_expr-error-count".into(),
            format!("parse_to_expr reports {} errors on the input and {} on the output\n--- output\n{}", input.expr.1, oe.1, clip(formatted, 1500)),
        );
    } else {
        out.count("expr_trees_compared_equal", 1);
    }
    viols
}

// =====================================================================================
// cases
// =====================================================================================

#[derive(Clone, Debug, Serialize, Deserialize)]
pub struct Case {
    /// where the text comes from: "corpus:<rel path>", "mut:<kind>:<rel path>", "gen"
    pub origin: String,
    /// the program text itself
    pub src: String,
    /// (width, indent) configurations to run
    pub configs: Vec<(usize, usize)>,
    /// path handed to parse_to_expr (include resolution), relative to the repo; None for generated text
    #[serde(default)]
    pub rel_path: Option<String>,
}

fn all_configs() -> Vec<(usize, usize)> {
    let mut v = vec![];
    for i in INDENTS {
        for w in WIDTHS {
            v.push((w, i));
        }
    }
    v
}

pub struct ExecCtx {
    pub repo: String,
    pub max_viol_per_sig: u64,
}

pub fn load_input(ctx: &ExecCtx, c: &Case) -> Input {
    let parsed = parse_text(&c.src);
    let path = c.rel_path.as_ref().map(|r| PathBuf::from(&ctx.repo).join(r));
    let expr = if parsed.errors.is_empty() { expr_view(&c.src, &path) } else { (n("unparsed", vec![]), 0) };
    Input { src: c.src.clone(), parsed, expr, cst: cst_of(&c.src), path }
}

pub fn exec_case(ctx: &ExecCtx, c: &Case, idx: usize, out: &mut Out) -> bool {
    out.count("texts_offered", 1);
    let input = load_input(ctx, c);
    if !input.parsed.errors.is_empty() {
        out.count("texts_rejected_by_parser(not_counted)", 1);
        return false;
    }
    if input.parsed.nontrivia_tokens == 0 {
        out.count("texts_without_tokens(not_counted)", 1);
        return false;
    }
    out.count("valid_programs", 1);
    out.count("input_comments", input.parsed.comments.len() as u64);
    out.count("input_tokens", input.parsed.nontrivia_tokens as u64);
    if !input.parsed.comments.is_empty() {
        out.count("valid_programs_with_comments", 1);
    }
    let mut kinds = BTreeSet::new();
    input.parsed.tree.kinds(&mut kinds);
    input.expr.0.kinds(&mut kinds);
    for k in kinds {
        out.set("ast_node_kinds_seen", k);
    }
    for ch in input.cst.chain.values() {
        for (_, p) in ch {
            out.set("cst_node_kinds_seen", format!("{p:?}"));
        }
    }
    let origin_class = c.origin.split(':').take(2).collect::<Vec<_>>().join(":");
    out.set("origins", if c.origin.starts_with("corpus") { "corpus".to_string() } else { origin_class });
    let mut memo: HashMap<String, Vec<Viol>> = HashMap::new();
    let mut outputs: BTreeSet<String> = BTreeSet::new();
    let mut reported: BTreeSet<String> = BTreeSet::new();
    let mut all_held = true;
    for &(w, i) in &c.configs {
        out.count("configs_run", 1);
        out.set("configs_seen", format!("w{w}/i{i}"));
        match check_config(&input, w, i, &mut memo, out) {
            Ok(obs) => {
                out.count("configs_all_clauses_held", 1);
                if obs.changed {
                    out.count("configs_where_output_differs_from_input", 1);
                }
                outputs.insert(fp(&obs.output));
            }
            Err(vs) => {
                all_held = false;
                for v in vs {
                    if reported.insert(v.sig.clone()) {
                        let key = format!("refuting_events:{}", v.sig);
                        let seen = out.counters.get(&key).copied().unwrap_or(0);
                        out.count(&key, 1);
                        if seen < ctx.max_viol_per_sig {
                            let one = Case { origin: c.origin.clone(), src: c.src.clone(), configs: vec![(v.width, v.indent)], rel_path: c.rel_path.clone() };
                            out.violation(
                                idx,
                                &v.sig,
                                &format!("width={} indent={} origin={}\n{}\n--- input\n{}", v.width, v.indent, c.origin, v.detail, clip(&c.src, 1500)),
                                &serde_json::to_value(&one).unwrap(),
                            );
                        }
                    }
                }
            }
        }
    }
    if outputs.len() >= 2 {
        out.count("valid_programs_whose_layout_depends_on_config", 1);
    }
    out.count("distinct_outputs", outputs.len() as u64);
    if all_held {
        out.count("valid_programs_on_which_every_clause_held_at_every_config", 1);
    }
    all_held
}

// =====================================================================================
// corpus
// =====================================================================================

pub const CORPUS_DIRS: [&str; 4] = ["lib", "examples", "crates/lib/mimium-test/tests/mmm", "crates/bin/mimium-fmt/tests"];

pub fn corpus_files(repo: &str) -> Vec<(String, String)> {
    let mut v = vec![];
    for d in CORPUS_DIRS {
        let dir = PathBuf::from(repo).join(d);
        let Ok(rd) = std::fs::read_dir(&dir) else { continue };
        let mut names: Vec<_> = rd.filter_map(|e| e.ok()).map(|e| e.file_name().to_string_lossy().to_string()).filter(|n| n.ends_with(".mmm")).collect();
        names.sort();
        for nme in names {
            if let Ok(txt) = std::fs::read_to_string(dir.join(&nme)) {
                v.push((format!("{d}/{nme}"), txt.replace("\r\n", "\n")));
            }
        }
    }
    v
}

/// (mutants of corpus files, generated programs); `MUT_BATCH`/`GEN_BATCH` programs form one case
fn plan(args: &Args) -> (usize, usize) {
    if args.thorough() { (6000, 24000) } else { (700, 2000) }
}
const MUT_BATCH: usize = 4;
const GEN_BATCH: usize = 8;

/// What the driver iterates over: one program, or a block of programs (keeps the event stream small).
#[derive(Clone, Debug, Serialize, Deserialize)]
#[serde(untagged)]
pub enum Unit {
    One(Case),
    Many { items: Vec<Case> },
}

pub fn meta(args: &Args) -> Value {
    let (m, g) = plan(args);
    json!({
        "level": "exploration",
        "rule": format!("every program text is run at all 24 configurations (widths {WIDTHS:?} x indents {INDENTS:?}; GLOBAL_DATA.indent_size set before each call). Texts: (a) every *.mmm under lib/, examples/, crates/lib/mimium-test/tests/mmm/, crates/bin/mimium-fmt/tests/ of the repository under test, one case each; (b) {m} layout/comment mutations of them (token stream of the real tokenizer re-emitted with random spacing, line breaks, `;` and numbered comments of both kinds at token boundaries), {MUT_BATCH} per case; (c) {g} generated programs (functions, let/letrec, patterns, tuples, records and record update, arrays, if/else, lambdas, all infix operators incl. pipes, calls, field/index access, match, macro definitions and expansions, quote/escape, type annotations and declarations, modules, use, include, stage declarations) printed with randomised layout (5 styles) and comments, {GEN_BATCH} per case; half of (b) and (c) avoid the constructs of the known findings so that the AST and fixed-point clauses are reached. Only texts on which parse_program reports no error take part ('syntactically valid'); the others are counted under texts_rejected_by_parser and ignored. A program counts (valid_programs_on_which_every_clause_held_at_every_config) iff it is valid, has at least one token, and every clause (format ok, output parses, parse_program tree equal, parse_to_expr tree equal, comments kept in order, second pass identical) was evaluated and held at all 24 configurations; a case is non-trivial iff at least one of its programs counts. Distinctness = hash of the case (texts + configurations)."),
        "assumptions": [
            "'syntactically valid' is decided by the real parser (parse_program reports no ParserError); lowering errors (Expr::Error nodes) are compared like any other node",
            "AST equality = equality of a span-free tree built from the public Program/Expr/Type/Pattern enums by the harness (Paren nodes included; spans, interned ids and type-variable identities excluded)",
            "comments are extracted with the real tokenizer; the clause checked is 'input comment texts (right-trimmed) occur in the output in input order'; additional comments in the output are only counted",
            "clauses that depend only on the output text are evaluated once per distinct output of a program; the fixed-point clause is not evaluated at a configuration whose output already fails the parse or AST clause",
            "violation signatures name the clause and the nearest observable cause (token-sequence change, parser-relevant line-break change, owner token of a lost comment) computed from the real tokenizer, pre-parser and CST; only the first cause per output is named"
        ],
        "floor": {"quick": 250, "thorough": 2500},
        "exhaustive": false,
        "case_timeout_s": 120,
        "hang_is_violation": false,
    })
}

pub fn run(args: &Args, out: &mut Out) {
    if let Some(f) = args.extra.get("file") {
        return dev_probe(args, f);
    }
    if let Some(f) = args.extra.get("minimize") {
        return dev_minimize(args, f);
    }
    let corpus = corpus_files(&args.repo);
    let (nm, ng) = plan(args);
    let nc = corpus.len();
    let (mb, gb) = (nm.div_ceil(MUT_BATCH), ng.div_ceil(GEN_BATCH));
    let total = args.budget.map(|b| b.min(nc + mb + gb)).unwrap_or(nc + mb + gb);
    out.max_samples = 1;
    let ctx = ExecCtx { repo: args.repo.clone(), max_viol_per_sig: 3 };
    let quarantine = args.quarantine.clone();
    drive(
        args,
        out,
        total,
        |idx, rng| {
            if idx < nc {
                let (rel, txt) = &corpus[idx];
                Some(Unit::One(Case { origin: format!("corpus:{rel}"), src: txt.clone(), configs: all_configs(), rel_path: Some(rel.clone()) }))
            } else if idx < nc + mb {
                if corpus.is_empty() {
                    return None;
                }
                let items = (0..MUT_BATCH)
                    .map(|_| {
                        let (rel, txt) = rng.pick(&corpus).clone();
                        let (kind, src) = mutate_layout(rng, &txt);
                        Case { origin: format!("mut:{kind}:{rel}"), src, configs: all_configs(), rel_path: Some(rel) }
                    })
                    .collect();
                Some(Unit::Many { items })
            } else {
                let items = (0..GEN_BATCH).map(|_| Case { origin: "gen".into(), src: gen_program(rng, &quarantine), configs: all_configs(), rel_path: None }).collect();
                Some(Unit::Many { items })
            }
        },
        |u, idx, out| exec_unit(&ctx, u, idx, out),
    );
}

fn exec_unit(ctx: &ExecCtx, u: &Unit, idx: usize, out: &mut Out) -> bool {
    match u {
        Unit::One(c) => exec_case(ctx, c, idx, out),
        Unit::Many { items } => {
            let mut any = false;
            for c in items {
                any |= exec_case(ctx, c, idx, out);
            }
            any
        }
    }
}

pub fn replay(args: &Args, out: &mut Out, case: &Value) {
    let ctx = ExecCtx { repo: args.repo.clone(), max_viol_per_sig: 100 };
    replay_one::<Unit>(out, case, |u, idx, out| exec_unit(&ctx, u, idx, out));
}

// =====================================================================================
// layout / comment mutation of an existing text
// =====================================================================================

/// Re-emit the token stream of `txt` (real tokenizer) with new trivia. In the `*-clean`
/// variants no comment is placed where the unchanged formatter is known to lose it
/// (next to a separator comma, after `}`, before `}`/`{`, inside a `use` statement).
pub fn mutate_layout(rng: &mut Rng, txt: &str) -> (&'static str, String) {
    let toks = parser::tokenize(txt);
    let kind = *rng.pick(&["comments", "comments-clean", "relayout", "squeeze", "both", "both-clean"]);
    let clean = kind.ends_with("-clean");
    let comments = kind.starts_with("comments") || kind.starts_with("both");
    let relayout = kind == "relayout" || kind.starts_with("both");
    let mut s = String::new();
    let mut counter = 0;
    let mut prev_tok = String::new();
    let mut in_use = false;
    let p_comment = if comments { rng.range(2, 12) as u32 } else { 0 };
    for (i, t) in toks.iter().enumerate() {
        if t.kind == TokenKind::Eof {
            break;
        }
        let text = t.text(txt);
        if !t.is_trivia() {
            s.push_str(text);
            prev_tok = text.to_string();
            if text == "use" {
                in_use = true;
            }
            continue;
        }
        let next_tok = toks[i + 1..].iter().find(|x| !x.is_trivia()).map(|x| x.text(txt)).unwrap_or("");
        let ok_here = !clean || !(prev_tok == "," || prev_tok == "}" || next_tok == "," || next_tok == "}" || next_tok == "{" || in_use || prev_tok.is_empty());
        match t.kind {
            TokenKind::SingleLineComment | TokenKind::MultiLineComment => s.push_str(text),
            TokenKind::LineBreak => {
                in_use = false;
                // `;` and newlines are statement separators: keep one, vary the rest
                if relayout {
                    if text.contains(';') && rng.chance(1, 2) {
                        s.push(';');
                    } else {
                        s.push('\n');
                    }
                    if rng.chance(1, 6) {
                        s.push('\n');
                    }
                    for _ in 0..rng.below(9) {
                        s.push(' ');
                    }
                } else if kind == "squeeze" {
                    s.push_str(if text.contains(';') { ";" } else { "\n" });
                } else {
                    s.push_str(text);
                }
                if ok_here && p_comment > 0 && rng.chance(p_comment, 100) {
                    counter += 1;
                    if rng.chance(1, 2) {
                        s.push_str(&format!("// c{counter}\n"));
                    } else {
                        s.push_str(&format!("/* c{counter} */"));
                    }
                }
            }
            TokenKind::Whitespace => {
                if kind == "squeeze" {
                    s.push(' ');
                } else if relayout {
                    s.push(' ');
                    if rng.chance(1, 5) {
                        s.push_str("  ");
                    }
                    if rng.chance(1, 25) {
                        // a line break where there was only a blank: may or may not stay valid
                        s.push('\n');
                    }
                } else {
                    s.push_str(text);
                }
                if ok_here && p_comment > 0 && rng.chance(p_comment, 100) {
                    counter += 1;
                    if rng.chance(1, 3) {
                        s.push_str(&format!("// c{counter}\n"));
                    } else if rng.chance(1, 4) {
                        // a block comment over several lines whose inner lines end in blanks / a tab
                        s.push_str(&format!("/* c{counter} \n   inner line \t\n   last */ "));
                    } else {
                        s.push_str(&format!("/* c{counter} */ "));
                    }
                }
            }
            _ => s.push_str(text),
        }
    }
    (kind, s)
}

// =====================================================================================
// generator of syntactically valid programs with randomised layout
// =====================================================================================

/// Gap before a token.
#[derive(Clone, Copy, Debug, PartialEq, Eq)]
enum Gap {
    /// nothing needed; anything allowed in risky mode
    Free,
    /// a line break here is known to be harmless
    NlOk,
    /// a statement separator (line break or `;`) is required
    Sep,
    /// must stay on the same line, no trivia with line breaks (callee-`(`, `[`)
    Tight,
    /// no trivia at all (inside `a.0.1` chains: the tokenizer only splits `0.1` right after a dot)
    Glue,
}

/// Constructs for which the formatter is known to be wrong on the unchanged tree (see
/// KNOWN_FINDINGS.txt). Half of the generated programs avoid all of them, so that the clauses
/// behind the parse clause (AST equality, idempotence) are exercised on programs the formatter
/// can handle; each program of the other half uses exactly one of them.
#[derive(Clone, Copy, Debug, Default)]
pub struct Feat {
    typed_params: bool,
    param_defaults: bool,
    record_type: bool,
    record_pattern: bool,
    match_expr: bool,
    type_decl: bool,
    macro_decl: bool,
    empty_lambda: bool,
    one_tuple: bool,
    use_in_module: bool,
    /// then-branch of an `if` on the next line (joined with the condition when it starts with a bracket)
    then_on_next_line: bool,
    /// comments next to separator commas, after `}` / on a line of their own before `}`, inside `use {..}`
    comments_anywhere: bool,
}
impl Feat {
    fn pick(rng: &mut Rng) -> Feat {
        if rng.chance(1, 2) {
            return Feat::default();
        }
        // one construct per program: interactions of two known defects produce an open-ended
        // family of symptoms without showing anything new
        let mut f = Feat { comments_anywhere: rng.chance(1, 3), ..Feat::default() };
        match rng.below(12) {
            0 => f.typed_params = true,
            1 => f.param_defaults = true,
            2 => f.record_type = true,
            3 => f.record_pattern = true,
            4 => f.match_expr = true,
            5 => f.type_decl = true,
            6 => f.macro_decl = true,
            7 => f.empty_lambda = true,
            8 => f.one_tuple = true,
            9 => f.use_in_module = true,
            10 => f.then_on_next_line = true,
            _ => f.comments_anywhere = true,
        }
        f
    }
    fn any(&self) -> bool {
        self.typed_params || self.param_defaults || self.record_type || self.record_pattern || self.match_expr || self.type_decl || self.macro_decl || self.empty_lambda || self.one_tuple || self.use_in_module || self.then_on_next_line || self.comments_anywhere
    }
}

struct G<'a> {
    feat: Feat,
    rng: &'a mut Rng,
    toks: Vec<(Gap, String)>,
    depth: usize,
    budget: isize,
    q: &'a BTreeSet<String>,
    names: usize,
}

const IDENTS: [&str; 14] = ["x", "y", "freq", "gain", "phase", "acc", "foo", "bar_baz", "osc1", "n", "cutoff_hz", "i", "tmp", "sig"];
const FNAMES: [&str; 8] = ["dsp", "osc", "lowpass", "mix", "helper", "counter", "env", "f"];
const MODS: [&str; 4] = ["util", "math", "dspmod", "m"];
const TYNAMES: [&str; 4] = ["Shape", "Num", "MyT", "Opt"];
const CTORS: [&str; 5] = ["Circle", "Rect", "One", "Two", "Nil"];
const BINOPS: [&str; 17] = ["+", "-", "*", "/", "%", "^", "&&", "||", "==", "!=", "<", ">", "<=", ">=", "@", "|>", "||>"];

impl<'a> G<'a> {
    fn t(&mut self, gap: Gap, s: &str) {
        self.toks.push((gap, s.to_string()));
        self.budget -= 1;
    }
    fn free(&mut self, s: &str) {
        self.t(Gap::Free, s)
    }
    fn nl(&mut self, s: &str) {
        self.t(Gap::NlOk, s)
    }
    fn ident(&mut self) -> String {
        self.rng.pick(&IDENTS).to_string()
    }
    fn small(&self) -> bool {
        self.depth > 5 || self.budget <= 0
    }

    fn ty(&mut self, gap: Gap) {
        let k = if self.small() { self.rng.below(3) } else { self.rng.below(10) };
        match k {
            0 => self.t(gap, "float"),
            1 => self.t(gap, "int"),
            2 => self.t(gap, "string"),
            3 => {
                // tuple type
                self.t(gap, "(");
                let nn = self.rng.range(2, 3);
                self.depth += 1;
                for i in 0..nn {
                    if i > 0 {
                        self.free(",");
                    }
                    self.ty(Gap::NlOk);
                }
                self.depth -= 1;
                self.nl(")");
            }
            4 if !self.feat.record_type => self.t(gap, "float"),
            4 => {
                self.t(gap, "{");
                let nn = self.rng.range(1, 3);
                self.depth += 1;
                for i in 0..nn {
                    if i > 0 {
                        self.free(",");
                    }
                    let id = self.ident();
                    self.nl(&id);
                    self.free(":");
                    self.ty(Gap::Free);
                }
                self.depth -= 1;
                self.nl("}");
            }
            5 => {
                self.t(gap, "[");
                self.depth += 1;
                self.ty(Gap::Free);
                self.depth -= 1;
                self.free("]");
            }
            6 => {
                // function type
                self.t(gap, "(");
                let nn = self.rng.range(0, 2);
                self.depth += 1;
                for i in 0..nn {
                    if i > 0 {
                        self.free(",");
                    }
                    self.ty(Gap::Free);
                }
                self.free(")");
                self.free("->");
                self.ty(Gap::Free);
                self.depth -= 1;
            }
            7 => {
                self.t(gap, "`");
                self.depth += 1;
                self.ty(Gap::Free);
                self.depth -= 1;
            }
            8 => {
                let nme = self.rng.pick(&TYNAMES).to_string();
                self.t(gap, &nme);
            }
            _ => {
                self.t(gap, "(");
                self.free(")");
            }
        }
    }

    fn pattern(&mut self, gap: Gap) {
        let k = if self.small() { self.rng.below(2) } else { self.rng.weighted(&[6, 1, 2, if self.feat.record_pattern { 1 } else { 0 }]) };
        match k {
            0 => {
                let id = self.ident();
                self.t(gap, &id)
            }
            1 => self.t(gap, "_"),
            2 => {
                self.t(gap, "(");
                let nn = self.rng.range(2, 3);
                self.depth += 1;
                for i in 0..nn {
                    if i > 0 {
                        self.free(",");
                    }
                    self.pattern(Gap::NlOk);
                }
                self.depth -= 1;
                self.nl(")");
            }
            _ => {
                self.t(gap, "{");
                let nn = self.rng.range(1, 2);
                self.depth += 1;
                for i in 0..nn {
                    if i > 0 {
                        self.free(",");
                    }
                    let id = self.ident();
                    self.nl(&id);
                    self.free("=");
                    self.pattern(Gap::Free);
                }
                self.depth -= 1;
                self.nl("}");
            }
        }
    }

    fn params(&mut self, defaults: bool) {
        self.t(Gap::Free, "(");
        let nn = self.rng.below(4);
        for i in 0..nn {
            if i > 0 {
                self.free(",");
            }
            let id = self.ident();
            self.nl(&id);
            if self.feat.typed_params && self.rng.chance(1, 2) {
                self.free(":");
                self.depth += 2;
                self.ty(Gap::Free);
                self.depth -= 2;
            }
            if defaults && self.feat.param_defaults && self.rng.chance(1, 3) {
                self.free("=");
                self.depth += 3;
                self.expr(Gap::Free, 3);
                self.depth -= 3;
            }
        }
        self.nl(")");
    }

    fn literal(&mut self, gap: Gap) {
        let k = self.rng.weighted(&[5, 5, 1, 2, 1, 1]);
        let s = match k {
            0 => format!("{}", self.rng.below(2000)),
            1 => format!("{}.{}", self.rng.below(500), self.rng.below(100)),
            2 => format!("\"s{}\"", self.rng.below(10)),
            3 => "self".to_string(),
            4 => "now".to_string(),
            _ => "samplerate".to_string(),
        };
        self.t(gap, &s);
    }

    fn args(&mut self) {
        // "(" of a call must stay on the callee's line
        self.t(Gap::Tight, "(");
        let nn = self.rng.below(4);
        self.depth += 1;
        for i in 0..nn {
            if i > 0 {
                self.free(",");
            }
            self.expr(Gap::NlOk, 0);
        }
        self.depth -= 1;
        self.nl(")");
    }

    /// an atom, possibly with postfix operations
    fn postfix(&mut self, gap: Gap) {
        let k = if self.small() { self.rng.weighted(&[5, 5, 0, 0, 0, 0, 0, 0, 0, 0, 0, 0]) } else { self.rng.weighted(&[8, 8, 5, 3, 3, 2, 3, 2, 2, 2, 2, 1]) };
        match k {
            0 => self.literal(gap),
            1 => {
                let id = self.ident();
                self.t(gap, &id)
            }
            2 => {
                // call
                let f = if self.rng.chance(1, 5) { self.ident() } else { self.rng.pick(&FNAMES).to_string() };
                if self.rng.chance(1, 8) {
                    let m = self.rng.pick(&MODS).to_string();
                    self.t(gap, &m);
                    self.t(Gap::Free, "::");
                    self.t(Gap::Free, &f);
                } else {
                    self.t(gap, &f);
                }
                self.args();
                if self.rng.chance(1, 10) {
                    self.args();
                }
            }
            3 => {
                // paren
                self.t(gap, "(");
                self.depth += 1;
                self.expr(Gap::NlOk, 0);
                self.depth -= 1;
                self.nl(")");
            }
            4 => {
                // tuple
                self.t(gap, "(");
                let one = self.feat.one_tuple && self.rng.chance(1, 3);
                let nn = if one { 1 } else { self.rng.range(2, 4) };
                self.depth += 1;
                for i in 0..nn {
                    if i > 0 {
                        self.free(",");
                    }
                    self.expr(Gap::NlOk, 0);
                }
                self.depth -= 1;
                if one || self.rng.chance(1, 8) {
                    self.free(",");
                }
                self.nl(")");
            }
            5 => {
                // array
                self.t(gap, "[");
                let nn = self.rng.range(0, 4);
                self.depth += 1;
                for i in 0..nn {
                    if i > 0 {
                        self.free(",");
                    }
                    self.expr(Gap::NlOk, 0);
                }
                self.depth -= 1;
                self.nl("]");
            }
            6 => {
                // record literal / update / incomplete
                self.t(gap, "{");
                let form = self.rng.weighted(&[5, 2, 2]);
                self.depth += 1;
                if form == 1 {
                    let id = self.ident();
                    self.nl(&id);
                    self.free("<-");
                }
                let nn = self.rng.range(1, 3);
                for i in 0..nn {
                    if i > 0 {
                        self.free(",");
                    }
                    let id = self.ident();
                    self.nl(&id);
                    self.free("=");
                    self.expr(Gap::Free, 0);
                }
                if form == 2 {
                    self.free(",");
                    self.nl("..");
                }
                self.depth -= 1;
                self.nl("}");
            }
            7 => {
                // macro expansion
                let f = self.rng.pick(&FNAMES).to_string();
                self.t(gap, &f);
                self.t(Gap::Free, "!");
                self.t(Gap::Free, "(");
                let nn = self.rng.below(3);
                self.depth += 1;
                for i in 0..nn {
                    if i > 0 {
                        self.free(",");
                    }
                    self.expr(Gap::NlOk, 0);
                }
                self.depth -= 1;
                self.nl(")");
            }
            8 => {
                // field access / projection on a simple base
                let id = self.ident();
                self.t(gap, &id);
                let nn = self.rng.range(1, 2);
                for _ in 0..nn {
                    self.t(Gap::Glue, ".");
                    if self.rng.chance(1, 2) {
                        let f = self.ident();
                        self.t(Gap::Glue, &f);
                    } else {
                        let k = format!("{}", self.rng.below(3));
                        self.t(Gap::Glue, &k);
                    }
                }
            }
            9 => {
                // index
                let id = self.ident();
                self.t(gap, &id);
                self.t(Gap::Tight, "[");
                self.depth += 1;
                self.expr(Gap::Free, 0);
                self.depth -= 1;
                self.free("]");
            }
            10 => {
                // block as expression
                self.block(gap);
            }
            _ => self.t(gap, "_"),
        }
    }

    fn unary(&mut self, gap: Gap) {
        let k = if self.small() { 0 } else { self.rng.weighted(&[30, 3, 2, 2]) };
        match k {
            0 => self.postfix(gap),
            1 => {
                self.t(gap, "-");
                self.depth += 1;
                self.postfix(Gap::Free);
                self.depth -= 1;
            }
            2 => {
                self.t(gap, "`");
                self.depth += 1;
                if self.rng.chance(1, 2) {
                    self.block(Gap::Free);
                } else {
                    self.postfix(Gap::Free);
                }
                self.depth -= 1;
            }
            _ => {
                self.t(gap, "$");
                self.depth += 1;
                self.postfix(Gap::Free);
                self.depth -= 1;
            }
        }
    }

    /// expression; `ctx` 0 = anything, 3 = no statement-level forms (param default)
    fn expr(&mut self, gap: Gap, ctx: u8) {
        self.depth += 1;
        let k = if self.small() { 0 } else if ctx == 3 { self.rng.weighted(&[6, 4, 0, 0, 0]) } else { self.rng.weighted(&[10, 10, 3, 3, 2]) };
        match k {
            0 => self.unary(gap),
            1 => {
                // binary chain
                self.unary(gap);
                let nn = self.rng.range(1, 4);
                for _ in 0..nn {
                    let op = self.rng.pick(&BINOPS).to_string();
                    // a break before an infix operator continues the expression, after it too
                    let g = if self.rng.chance(1, 2) { Gap::NlOk } else { Gap::Free };
                    self.t(g, &op);
                    self.unary(Gap::NlOk);
                }
            }
            2 => {
                // lambda
                self.t(gap, "|");
                let mut nn = self.rng.below(3);
                if nn == 0 && !self.feat.empty_lambda {
                    nn = 1;
                }
                for i in 0..nn {
                    if i > 0 {
                        self.free(",");
                    }
                    let id = self.ident();
                    self.free(&id);
                    if self.rng.chance(1, 4) {
                        self.free(":");
                        self.depth += 3;
                        self.ty(Gap::Free);
                        self.depth -= 3;
                    }
                }
                // `||` would be the OR operator: the renderer separates tokens that would glue
                self.free("|");
                if self.rng.chance(1, 6) {
                    self.free("->");
                    self.depth += 3;
                    self.ty(Gap::Free);
                    self.depth -= 3;
                }
                if self.rng.chance(1, 3) {
                    self.block(Gap::Free);
                } else {
                    self.expr(Gap::NlOk, 0);
                }
            }
            3 => {
                // if
                self.t(gap, "if");
                self.free("(");
                self.expr(Gap::Free, 0);
                self.free(")");
                let blocks = self.rng.chance(1, 2);
                let then_gap = if self.feat.then_on_next_line { Gap::NlOk } else { Gap::Tight };
                if blocks {
                    self.block(Gap::Free);
                } else {
                    self.unary(then_gap);
                }
                if self.rng.chance(3, 4) {
                    self.nl("else");
                    if self.rng.chance(1, 5) {
                        self.t(Gap::Free, "if");
                        self.free("(");
                        self.expr(Gap::Free, 0);
                        self.free(")");
                        self.block(Gap::Free);
                        self.nl("else");
                        self.block(Gap::Free);
                    } else if blocks {
                        self.block(Gap::Free);
                    } else {
                        self.unary(Gap::NlOk);
                    }
                }
            }
            _ => {
                if self.q.contains("match-expr") || !self.feat.match_expr {
                    self.unary(gap);
                } else {
                    self.match_expr(gap);
                }
            }
        }
        self.depth -= 1;
    }

    fn match_pattern(&mut self, gap: Gap, d: usize) {
        let k = if d > 1 { self.rng.weighted(&[3, 2, 2, 2, 0]) } else { self.rng.weighted(&[3, 2, 2, 4, 2]) };
        match k {
            0 => {
                let s = format!("{}", self.rng.below(10));
                self.t(gap, &s)
            }
            1 => {
                let s = format!("{}.{}", self.rng.below(10), self.rng.below(10));
                self.t(gap, &s)
            }
            2 => self.t(gap, "_"),
            3 => {
                let c = if self.rng.chance(1, 4) { self.rng.pick(&["float", "int", "string"]).to_string() } else { self.rng.pick(&CTORS).to_string() };
                self.t(gap, &c);
                match self.rng.below(4) {
                    0 => {}
                    1 => {
                        self.free("(");
                        let id = self.ident();
                        self.free(&id);
                        self.free(")");
                    }
                    2 => {
                        self.free("(");
                        self.free("_");
                        self.free(")");
                    }
                    _ => {
                        self.free("(");
                        let a = self.ident();
                        self.free(&a);
                        self.free(",");
                        let b = self.ident();
                        self.free(&b);
                        self.free(")");
                    }
                }
            }
            _ => {
                self.t(gap, "(");
                let nn = self.rng.range(2, 3);
                for i in 0..nn {
                    if i > 0 {
                        self.free(",");
                    }
                    self.match_pattern(Gap::Free, d + 1);
                }
                self.free(")");
            }
        }
    }

    fn match_expr(&mut self, gap: Gap) {
        self.t(gap, "match");
        let id = self.ident();
        self.free(&id);
        self.free("{");
        let nn = self.rng.range(1, 4);
        let commas = self.rng.chance(1, 2);
        for i in 0..nn {
            if i > 0 {
                if commas {
                    self.free(",");
                    self.match_pattern(Gap::NlOk, 0);
                } else {
                    self.match_pattern(Gap::Sep, 0);
                }
            } else {
                self.match_pattern(Gap::NlOk, 0);
            }
            self.free("=>");
            if self.rng.chance(1, 4) {
                self.block(Gap::Free);
            } else {
                self.unary(Gap::Free);
            }
        }
        self.nl("}");
    }

    fn block(&mut self, gap: Gap) {
        self.t(gap, "{");
        self.depth += 1;
        let nn = if self.small() { 1 } else { self.rng.range(1, 4) };
        for i in 0..nn {
            let g = if i == 0 { Gap::NlOk } else { Gap::Sep };
            if i + 1 < nn {
                self.local_stmt(g);
            } else {
                self.expr(g, 0);
            }
        }
        self.depth -= 1;
        self.nl("}");
    }

    fn local_stmt(&mut self, gap: Gap) {
        match self.rng.weighted(&[6, 1, 2, 2]) {
            0 => self.let_stmt(gap),
            1 => {
                self.t(gap, "letrec");
                let id = self.ident();
                self.free(&id);
                self.free("=");
                self.expr(Gap::NlOk, 0);
            }
            2 => {
                // assignment
                let id = self.ident();
                self.t(gap, &id);
                self.free("=");
                self.expr(Gap::NlOk, 0);
            }
            _ => self.expr(gap, 0),
        }
    }

    fn let_stmt(&mut self, gap: Gap) {
        self.t(gap, "let");
        self.pattern(Gap::Free);
        if self.rng.chance(1, 5) {
            self.free(":");
            self.depth += 2;
            self.ty(Gap::Free);
            self.depth -= 2;
        }
        self.free("=");
        self.expr(Gap::NlOk, 0);
    }

    fn fn_decl(&mut self, gap: Gap, allow_pub: bool) {
        let mut g = gap;
        if allow_pub && self.rng.chance(1, 3) {
            self.t(g, "pub");
            g = Gap::Free;
        }
        let is_macro = self.rng.chance(1, 8) && !self.q.contains("macro-decl") && self.feat.macro_decl;
        self.t(g, if is_macro { "macro" } else { "fn" });
        self.names += 1;
        let nme = if self.names == 1 { "dsp".to_string() } else { format!("{}{}", self.rng.pick(&FNAMES), self.names) };
        self.free(&nme);
        self.params(true);
        if self.rng.chance(1, 4) {
            self.free("->");
            self.depth += 2;
            self.ty(Gap::Free);
            self.depth -= 2;
        }
        self.block(Gap::Free);
    }

    fn top_stmt(&mut self, gap: Gap, in_mod: bool) {
        let k = self.rng.weighted(&[10, 5, 1, 1, 1, if in_mod { 1 } else { 2 }, 2, 2, 2, 1]);
        match k {
            0 => self.fn_decl(gap, true),
            1 => self.let_stmt(gap),
            2 => {
                self.t(gap, "letrec");
                let id = self.ident();
                self.free(&id);
                self.free("=");
                self.expr(Gap::NlOk, 0);
            }
            3 => {
                self.t(gap, "include");
                self.free("(");
                let f = format!("\"{}.mmm\"", self.rng.pick(&["osc", "math", "filter"]));
                self.free(&f);
                self.free(")");
            }
            4 => {
                self.t(gap, "#");
                self.free("stage");
                self.free("(");
                let s = self.rng.pick(&["main", "macro"]).to_string();
                self.free(&s);
                self.free(")");
            }
            5 => {
                // module
                let mut g = gap;
                if self.rng.chance(1, 3) {
                    self.t(g, "pub");
                    g = Gap::Free;
                }
                self.t(g, "mod");
                let m = self.rng.pick(&MODS).to_string();
                self.free(&m);
                self.free("{");
                self.depth += 2;
                let nn = self.rng.range(1, 3);
                for i in 0..nn {
                    let g = if i == 0 { Gap::NlOk } else { Gap::Sep };
                    if self.feat.use_in_module {
                        self.top_stmt(g, true);
                    } else {
                        // statements of a module body are printed without a separator: only
                        // statements that end in a closing bracket keep the text parseable
                        self.fn_decl(g, true);
                    }
                }
                self.depth -= 2;
                self.nl("}");
            }
            6 => {
                // use
                let mut g = gap;
                if self.rng.chance(1, 4) {
                    self.t(g, "pub");
                    g = Gap::Free;
                }
                self.t(g, "use");
                let m = self.rng.pick(&MODS).to_string();
                self.free(&m);
                if self.rng.chance(1, 3) {
                    self.free("::");
                    let m2 = self.rng.pick(&MODS).to_string();
                    self.free(&m2);
                }
                self.free("::");
                match self.rng.below(3) {
                    0 => {
                        let f = self.rng.pick(&FNAMES).to_string();
                        self.free(&f);
                    }
                    1 => {
                        self.free("{");
                        let nn = self.rng.range(1, 3);
                        for i in 0..nn {
                            if i > 0 {
                                self.free(",");
                            }
                            let f = self.rng.pick(&FNAMES).to_string();
                            self.free(&f);
                        }
                        self.free("}");
                    }
                    _ => self.free("*"),
                }
            }
            7 => {
                // type declarations
                if self.q.contains("type-decl") || !self.feat.type_decl {
                    return self.let_stmt(gap);
                }
                let mut g = gap;
                if self.rng.chance(1, 4) {
                    self.t(g, "pub");
                    g = Gap::Free;
                }
                self.t(g, "type");
                if self.rng.chance(1, 3) {
                    self.free("alias");
                    let nme = self.rng.pick(&TYNAMES).to_string();
                    self.free(&nme);
                    self.free("=");
                    self.depth += 1;
                    self.ty(Gap::Free);
                    self.depth -= 1;
                } else {
                    if self.rng.chance(1, 3) {
                        self.free("rec");
                    }
                    let nme = self.rng.pick(&TYNAMES).to_string();
                    self.free(&nme);
                    self.free("=");
                    let nn = self.rng.range(1, 3);
                    for i in 0..nn {
                        if i > 0 {
                            self.free("|");
                        }
                        let c = self.rng.pick(&CTORS).to_string();
                        self.free(&c);
                        if self.rng.chance(1, 2) {
                            self.free("(");
                            self.depth += 3;
                            self.ty(Gap::Free);
                            if self.rng.chance(1, 3) {
                                self.free(",");
                                self.ty(Gap::Free);
                            }
                            self.depth -= 3;
                            self.free(")");
                        }
                    }
                }
            }
            8 => {
                // global expression statement / assignment
                if self.rng.chance(1, 2) {
                    let id = self.ident();
                    self.t(gap, &id);
                    self.free("=");
                    self.expr(Gap::NlOk, 0);
                } else {
                    self.expr(gap, 0);
                }
            }
            _ => self.fn_decl(gap, false),
        }
    }
}

/// Does `a` immediately followed by `b` tokenize differently from the two tokens apart?
fn glues(cache: &mut HashMap<(String, String), bool>, a: &str, b: &str) -> bool {
    if a.is_empty() {
        return false;
    }
    let key = (a.to_string(), b.to_string());
    if let Some(v) = cache.get(&key) {
        return *v;
    }
    let kinds = |s: &str| parser::tokenize(s).iter().filter(|t| t.kind != TokenKind::Eof).map(|t| (t.kind, t.length)).collect::<Vec<_>>();
    let joined = kinds(&format!("{a}{b}"));
    let mut apart = kinds(a);
    apart.extend(kinds(b));
    let r = joined != apart;
    cache.insert(key, r);
    r
}

struct Layout {
    /// false: no comment next to a separator comma, after `}`, alone on a line before `}`, or inside `use`
    comments_anywhere: bool,
    /// per cent
    p_space: u32,
    p_nl_ok: u32,
    p_nl_risky: u32,
    p_block_comment: u32,
    p_line_comment: u32,
    p_blank_line: u32,
    semicolons: u32,
}

fn render(toks: &[(Gap, String)], rng: &mut Rng, l: &Layout, cache: &mut HashMap<(String, String), bool>) -> String {
    let mut s = String::new();
    let mut counter = 0usize;
    let mut indent = 0usize;
    let mut prev = String::new();
    let mut in_use = false;
    for (gap, text) in toks {
        if *gap == Gap::Sep {
            in_use = false;
        }
        if text == "use" {
            in_use = true;
        }
        let trailing_ok = l.comments_anywhere || !(prev == "," || prev == "}" || in_use);
        let leading_ok = l.comments_anywhere || !(text == "," || text == "}" || text == "{" || in_use);
        let mut trivia = String::new();
        let mut had_nl = false;
        let newline = |trivia: &mut String, rng: &mut Rng, indent: usize| {
            trivia.push('\n');
            let k = match rng.below(4) {
                0 => 0,
                1 => indent * 4,
                2 => rng.below(12),
                _ => indent * 2,
            };
            for _ in 0..k {
                trivia.push(' ');
            }
        };
        let nl_allowed = match gap {
            Gap::Sep => true,
            Gap::NlOk => rng.chance(l.p_nl_ok, 100),
            Gap::Free => rng.chance(l.p_nl_risky, 100),
            Gap::Tight | Gap::Glue => false,
        };
        if *gap == Gap::Glue {
            s.push_str(text);
            prev = text.clone();
            continue;
        }
        if !prev.is_empty() {
            // comments
            if trailing_ok && rng.chance(l.p_block_comment, 100) {
                counter += 1;
                if rng.chance(1, 2) || prev.ends_with('/') || prev.ends_with('*') {
                    trivia.push(' ');
                }
                trivia.push_str(&format!("/* c{counter} */"));
                if rng.chance(1, 2) {
                    trivia.push(' ');
                }
            }
            if *gap == Gap::Sep {
                if rng.chance(l.semicolons, 100) {
                    trivia.push(';');
                    if rng.chance(1, 2) {
                        newline(&mut trivia, rng, indent);
                    }
                } else {
                    if trailing_ok && rng.chance(l.p_line_comment, 100) {
                        counter += 1;
                        trivia.push_str(&format!(" // c{counter}"));
                    }
                    newline(&mut trivia, rng, indent);
                }
                had_nl = true;
                if rng.chance(l.p_blank_line, 100) {
                    newline(&mut trivia, rng, indent);
                }
            } else if nl_allowed {
                if trailing_ok && rng.chance(l.p_line_comment, 100) {
                    counter += 1;
                    if prev.ends_with('/') {
                        trivia.push(' ');
                    }
                    trivia.push_str(&format!("// c{counter}"));
                }
                newline(&mut trivia, rng, indent);
                had_nl = true;
                if rng.chance(l.p_blank_line, 100) {
                    newline(&mut trivia, rng, indent);
                }
            } else if rng.chance(l.p_space, 100) {
                trivia.push(' ');
                if rng.chance(1, 10) {
                    trivia.push_str("  ");
                }
            }
            if had_nl && leading_ok && rng.chance(l.p_block_comment, 100) {
                counter += 1;
                trivia.push_str(&format!("/* c{counter} */ "));
            }
            if trivia.is_empty() && glues(cache, &prev, text) {
                trivia.push(' ');
            }
        }
        s.push_str(&trivia);
        s.push_str(text);
        match text.as_str() {
            "{" | "(" | "[" => indent += 1,
            "}" | ")" | "]" => indent = indent.saturating_sub(1),
            _ => {}
        }
        prev = text.clone();
    }
    if rng.chance(1, 2) {
        s.push('\n');
    }
    if (l.comments_anywhere || prev != "}") && rng.chance(l.p_line_comment, 100) {
        s.push_str(&format!("// c{}\n", counter + 1));
    }
    s
}

/// One generated program (text). Validity is decided by the real parser; risky layouts that
/// the parser rejects are re-rendered conservatively.
pub fn gen_program(rng: &mut Rng, q: &BTreeSet<String>) -> String {
    let mut toks = vec![];
    let feat = Feat::pick(rng);
    {
        let budget = rng.range(15, 220) as isize;
        let mut g = G { feat, rng, toks: vec![], depth: 0, budget, q, names: 0 };
        let nn = g.rng.range(1, 6);
        for i in 0..nn {
            g.top_stmt(if i == 0 { Gap::Free } else { Gap::Sep }, false);
            if g.budget < -400 {
                break;
            }
        }
        std::mem::swap(&mut toks, &mut g.toks);
    }
    let mut cache = HashMap::new();
    let style = rng.below(5);
    let mut l = match style {
        0 => Layout { comments_anywhere: feat.comments_anywhere, p_space: 70, p_nl_ok: 10, p_nl_risky: 0, p_block_comment: 0, p_line_comment: 0, p_blank_line: 5, semicolons: 5 }, // tidy, no comments
        1 => Layout { comments_anywhere: feat.comments_anywhere, p_space: 10, p_nl_ok: 0, p_nl_risky: 0, p_block_comment: 0, p_line_comment: 0, p_blank_line: 0, semicolons: 30 }, // dense
        2 => Layout { comments_anywhere: feat.comments_anywhere, p_space: 60, p_nl_ok: 35, p_nl_risky: 4, p_block_comment: 4, p_line_comment: 15, p_blank_line: 15, semicolons: 5 }, // airy with comments
        3 => Layout { comments_anywhere: feat.comments_anywhere, p_space: 50, p_nl_ok: 15, p_nl_risky: 1, p_block_comment: 10, p_line_comment: 30, p_blank_line: 5, semicolons: 10 }, // comment heavy
        _ => Layout { comments_anywhere: feat.comments_anywhere, p_space: 50, p_nl_ok: 60, p_nl_risky: 8, p_block_comment: 1, p_line_comment: 3, p_blank_line: 10, semicolons: 0 }, // one token per line
    };
    for attempt in 0..4 {
        let s = render(&toks, rng, &l, &mut cache);
        let (_, errs) = parser::parse_program(&s, PathBuf::new());
        if errs.is_empty() {
            return s;
        }
        // less risk on every retry
        l.p_nl_risky = 0;
        if attempt >= 1 {
            l.p_nl_ok /= 2;
        }
        if attempt >= 2 {
            l.p_block_comment = 0;
            l.p_line_comment = 0;
            l.p_nl_ok = 0;
        }
    }
    // give the rejected text to the oracle anyway: it is counted as rejected there
    render(&toks, rng, &l, &mut cache)
}

// =====================================================================================
// developer probe:  mmv C14 --file x.mmm [--width 20] [--indent 4] [--gen N]
// =====================================================================================

fn dev_probe(args: &Args, file: &str) {
    let width: usize = args.extra.get("width").and_then(|s| s.parse().ok()).unwrap_or(80);
    let indent: usize = args.extra.get("indent").and_then(|s| s.parse().ok()).unwrap_or(4);
    let src = if file == "gen" {
        let mut rng = args.case_rng(args.extra.get("n").and_then(|s| s.parse().ok()).unwrap_or(0));
        gen_program(&mut rng, &args.quarantine)
    } else {
        std::fs::read_to_string(file).expect("read file")
    };
    println!("--- input\n{src}");
    let ctx = ExecCtx { repo: args.repo.clone(), max_viol_per_sig: 100 };
    let case = Case { origin: "probe".into(), src: src.clone(), configs: vec![(width, indent)], rel_path: None };
    let input = load_input(&ctx, &case);
    println!("--- parse errors: {:?}", input.parsed.errors);
    if args.extra.contains_key("tree") {
        println!("--- tree\n{}", input.parsed.tree.render(400));
    }
    set_indent(indent);
    match format_real(&src, width) {
        Ok(Ok(s)) => {
            println!("--- fmt(x) width={width} indent={indent}\n{s}");
            let mut o = Out::new(Some("/dev/null"));
            let mut memo = HashMap::new();
            if !input.parsed.errors.is_empty() {
                return;
            }
            match check_config(&input, width, indent, &mut memo, &mut o) {
                Ok(_) => println!("--- all clauses hold"),
                Err(vs) => {
                    for v in vs {
                        println!("--- VIOLATION {}\n{}", v.sig, if args.extra.contains_key("detail") { v.detail.clone() } else { String::new() });
                    }
                }
            }
        }
        other => println!("--- formatter: {other:?}"),
    }
}

/// developer tool: `mmv C14 --minimize <replay.json> [--to <out.json>]` shrinks the text of a
/// recorded violation by deleting token ranges while the same signature is still produced.
fn dev_minimize(args: &Args, file: &str) {
    let txt = std::fs::read_to_string(file).expect("read replay");
    let v: Value = serde_json::from_str(&txt).expect("json");
    let sig = v.get("sig").and_then(|s| s.as_str()).expect("sig").to_string();
    let case: Case = serde_json::from_value(v.get("case").cloned().expect("case")).expect("case");
    let ctx = ExecCtx { repo: args.repo.clone(), max_viol_per_sig: 0 };
    let (w, i) = case.configs[0];
    let mut sink = Out::new(Some("/dev/null"));
    let tests = std::cell::Cell::new(0usize);
    let allow_error_nodes = {
        let input = load_input(&ctx, &case);
        let mut ks = BTreeSet::new();
        input.parsed.tree.kinds(&mut ks);
        input.expr.0.kinds(&mut ks);
        ks.iter().any(|k| k.ends_with("Error"))
    };
    let mut still = |src: &str| -> bool {
        tests.set(tests.get() + 1);
        let c = Case { origin: case.origin.clone(), src: src.to_string(), configs: vec![(w, i)], rel_path: case.rel_path.clone() };
        let input = load_input(&ctx, &c);
        if !input.parsed.errors.is_empty() || input.parsed.nontrivia_tokens == 0 {
            return false;
        }
        // keep the witness a sensible program: no lowering errors unless the original had them
        if !allow_error_nodes {
            let mut ks = BTreeSet::new();
            input.parsed.tree.kinds(&mut ks);
            input.expr.0.kinds(&mut ks);
            if ks.iter().any(|k| k.ends_with("Error")) {
                return false;
            }
        }
        let mut memo = HashMap::new();
        match check_config(&input, w, i, &mut memo, &mut sink) {
            Ok(_) => false,
            Err(vs) => vs.iter().any(|x| x.sig == sig),
        }
    };
    let mut cur = case.src.clone();
    if !still(&cur) {
        println!("NOT-REPRODUCED {sig}");
        return;
    }
    loop {
        let toks: Vec<String> = {
            let t = parser::tokenize(&cur);
            t.iter().filter(|t| t.kind != TokenKind::Eof).map(|t| t.text(&cur).to_string()).collect()
        };
        let mut pieces = toks.clone();
        let mut chunk = (pieces.len() / 2).max(1);
        let mut progress = false;
        while chunk >= 1 {
            let mut k = 0;
            while k < pieces.len() {
                let end = (k + chunk).min(pieces.len());
                let cand: String = pieces[..k].iter().chain(pieces[end..].iter()).cloned().collect();
                if !cand.trim().is_empty() && still(&cand) {
                    pieces.drain(k..end);
                    progress = true;
                } else {
                    k += chunk;
                }
            }
            if chunk == 1 {
                break;
            }
            chunk /= 2;
        }
        // cosmetic: collapse runs of blanks, shorten identifiers is left alone
        let next: String = pieces.concat();
        let changed = next != cur;
        cur = next;
        if !progress || !changed || tests.get() > 20000 {
            break;
        }
    }
    let outc = Case { origin: format!("minimised from {}", case.origin), src: cur.clone(), configs: vec![(w, i)], rel_path: None };
    // the include path does not matter for a minimised text unless the violation needs it
    let keep_path = !still(&cur);
    let outc = if keep_path { Case { rel_path: case.rel_path.clone(), ..outc } } else { outc };
    let j = json!({"property": "C14", "sig": sig, "case": outc});
    if let Some(to) = args.extra.get("to") {
        std::fs::write(to, serde_json::to_string_pretty(&j).unwrap()).expect("write");
    }
    println!("MINIMISED {sig} ({} tests, {} bytes)\n{}", tests.get(), cur.len(), cur);
}
