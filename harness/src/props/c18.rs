//! C18 — generated Rust behaves like the VM: differential oracle between the bytecode VM
//! and the Rust source emitted by `Context::emit_rust`, compiled with rustc and executed.
//!
//! Per case: (1) the program runs on the VM (CLI code path, no plugins beyond the audio
//! driver's builtins); a program the VM refuses or crashes on is not a C18 case. (2) A
//! plugin-free `ExecContext` (as in `rust_codegen_test.rs`) emits Rust; `Err` is a refusal
//! and fine, a panic is counted and left to C03/C04. (3) The emitted source gets a `main`
//! modelled on the repository's own test (host supplies `now` = sample index and
//! `samplerate` = 48000, every external call is answered with an error, inputs per sample,
//! every output word printed as hex bits), is compiled with plain `rustc --edition=2024`
//! and run. Refuting events: rustc fails; the binary exits non-zero / dies by a signal;
//! the number of output words of a sample differs; any output word differs from the VM's
//! (bitwise, NaN == NaN).

use super::progcase::{Case, feat_for, input_fn, minimise, norm};
use super::{drive, replay_one};
use crate::gens::core::{BinOp, Block, E, Program, Stmt, generate};
use crate::run::{Backend, BuildError, RunError, run_program};
use crate::util::{Args, Out, Rng, bits_eq, catch};
use mimium_lang::utils::error::ReportableError;
use mimium_lang::{Config, ExecContext};
use serde_json::{Value, json};
use std::path::{Path, PathBuf};
use std::process::{Command, Stdio};
use std::time::{Duration, Instant};

// ------------------------------------------------------------------ child processes

pub struct ChildOut {
    /// exit code (None if killed by a signal)
    pub code: Option<i32>,
    pub signal: Option<i32>,
    pub timed_out: bool,
    pub stdout: String,
    pub stderr: String,
    pub ms: u128,
}

/// Run a command with stdout/stderr captured into files of `dir`, a wall-clock limit and an
/// address-space limit (bytes; 0 = none). Err = could not even be started (harness trouble).
fn run_child(mut cmd: Command, dir: &Path, tag: &str, timeout: Duration, as_limit: u64) -> Result<ChildOut, String> {
    use std::os::unix::process::{CommandExt, ExitStatusExt};
    let so = dir.join(format!("{tag}.stdout"));
    let se = dir.join(format!("{tag}.stderr"));
    let fo = std::fs::File::create(&so).map_err(|e| format!("create {so:?}: {e}"))?;
    let fe = std::fs::File::create(&se).map_err(|e| format!("create {se:?}: {e}"))?;
    cmd.stdin(Stdio::null()).stdout(fo).stderr(fe).current_dir(dir).env("RUST_BACKTRACE", "0");
    if as_limit > 0 {
        unsafe {
            cmd.pre_exec(move || {
                let lim = libc::rlimit { rlim_cur: as_limit, rlim_max: as_limit };
                libc::setrlimit(libc::RLIMIT_AS, &lim);
                let core = libc::rlimit { rlim_cur: 0, rlim_max: 0 };
                libc::setrlimit(libc::RLIMIT_CORE, &core);
                Ok(())
            });
        }
    }
    let t0 = Instant::now();
    let mut child = cmd.spawn().map_err(|e| format!("spawn {tag}: {e}"))?;
    let mut timed_out = false;
    let status = loop {
        match child.try_wait() {
            Ok(Some(st)) => break st,
            Ok(None) => {
                if t0.elapsed() > timeout {
                    timed_out = true;
                    let _ = child.kill();
                    break child.wait().map_err(|e| format!("wait {tag}: {e}"))?;
                }
                std::thread::sleep(Duration::from_millis(3));
            }
            Err(e) => return Err(format!("wait {tag}: {e}")),
        }
    };
    let read = |p: &Path| -> String {
        let b = std::fs::read(p).unwrap_or_default();
        let b = if b.len() > 4_000_000 { b[..4_000_000].to_vec() } else { b };
        String::from_utf8_lossy(&b).to_string()
    };
    Ok(ChildOut {
        code: status.code(),
        signal: status.signal(),
        timed_out,
        stdout: read(&so),
        stderr: read(&se),
        ms: t0.elapsed().as_millis(),
    })
}

fn signame(s: i32) -> String {
    match s {
        4 => "SIGILL".into(),
        6 => "SIGABRT".into(),
        7 => "SIGBUS".into(),
        8 => "SIGFPE".into(),
        9 => "SIGKILL".into(),
        11 => "SIGSEGV".into(),
        15 => "SIGTERM".into(),
        n => format!("SIG{n}"),
    }
}

fn scratch_dir() -> PathBuf {
    std::env::temp_dir().join(format!("mmv-rustgen-{}", std::process::id()))
}

/// scratch directories of workers that were killed (their pid is gone)
fn remove_stale_scratch_dirs() {
    let Ok(rd) = std::fs::read_dir(std::env::temp_dir()) else { return };
    for e in rd.filter_map(|e| e.ok()) {
        let name = e.file_name().to_string_lossy().to_string();
        if let Some(pid) = name.strip_prefix("mmv-rustgen-")
            && pid.chars().all(|c| c.is_ascii_digit())
            && !Path::new(&format!("/proc/{pid}")).exists()
        {
            let _ = std::fs::remove_dir_all(e.path());
        }
    }
}

// ------------------------------------------------------------------ the harness `main`

const HOST_DECLS: &str = r#"
struct VerifHost {
    now: f64,
    sample_rate: f64,
}

impl MimiumHost for VerifHost {
    fn call_ext(
        &mut self,
        name: &str,
        _args: &[Word],
        _ret_words: usize,
    ) -> Result<Vec<Word>, String> {
        Err(format!("unexpected external call: {}", name))
    }

    fn current_time(&mut self) -> f64 {
        self.now
    }

    fn sample_rate(&mut self) -> f64 {
        self.sample_rate
    }
}
"#;

/// `main` appended to the emitted source (cf. `compile_and_run_rust_fixture` in
/// rust_codegen_test.rs): host with now/samplerate, optional `call_main`, then `n` calls of
/// `call_dsp` with this sample's input words; one line of hex words per sample.
fn harness_main(rust_src: &str, n: usize, ich: usize, inputs: &[u64]) -> String {
    let mut s = String::with_capacity(rust_src.len() + 4096 + inputs.len() * 20);
    s.push_str(rust_src);
    s.push_str(HOST_DECLS);
    s.push_str(&format!("static VERIF_INPUTS: [u64; {}] = [", inputs.len()));
    for w in inputs {
        s.push_str(&format!("0x{w:016x},"));
    }
    s.push_str("];\n");
    s.push_str("fn main() {\n");
    s.push_str("    let host = VerifHost { now: 0.0, sample_rate: 48_000.0 };\n");
    s.push_str("    let mut program = MimiumProgram::with_host(host);\n");
    if rust_src.contains("pub fn call_main") {
        s.push_str("    if let Err(e) = program.call_main() { eprintln!(\"call_main error: {}\", e); std::process::exit(16); }\n");
    }
    s.push_str(&format!("    for t in 0..{n}usize {{\n"));
    s.push_str("        program.host.now = t as f64;\n");
    s.push_str(&format!("        let output = match program.call_dsp(&VERIF_INPUTS[t * {ich}..(t + 1) * {ich}]) {{\n"));
    s.push_str("            Ok(o) => o,\n");
    s.push_str("            Err(e) => { eprintln!(\"call_dsp error: {}\", e); std::process::exit(17); }\n");
    s.push_str("        };\n");
    s.push_str("        let mut line = String::from(\"S\");\n");
    s.push_str("        for word in output { line.push_str(&format!(\" {:016x}\", word)); }\n");
    s.push_str("        println!(\"{}\", line);\n");
    s.push_str("    }\n}\n");
    s
}

// ------------------------------------------------------------------ the oracle

#[derive(Debug, Clone, Copy, PartialEq, Eq)]
pub enum Stage {
    /// the VM itself refuses / crashes: not a C18 case
    VmRefused,
    /// panic inside emit_rust: C03/C04's business, counted
    EmitPanicked,
    /// emit_rust = Err: refusal, fine
    Refused,
    RustcFailed,
    RunFailed,
    /// harness trouble / timeouts
    Undecided,
    /// binary ran to completion and its output was compared
    Compared,
}

pub struct Checked {
    pub violations: Vec<(String, String)>,
    pub inconclusive: Option<String>,
    pub stage: Stage,
    pub note: String,
    pub words_compared: usize,
    pub samples_compared: usize,
    pub nontrivial: bool,
    pub rust_lines: usize,
    pub rustc_ms: u128,
    pub run_ms: u128,
    pub has_call_main: bool,
    pub channels: (usize, usize),
}

fn vm_outcome(e: &RunError) -> String {
    match e {
        RunError::Build(BuildError::Rejected(d)) => format!("rejected({})", d.first().map(|d| norm(&d.message)).unwrap_or_default()),
        RunError::Build(BuildError::BackendRefused(s)) => format!("backend-refused({})", norm(s)),
        RunError::Build(BuildError::NoDsp) => "no-dsp".into(),
        RunError::Build(BuildError::Panicked(ph, p)) => format!("{}@{ph}", p.sig()),
        RunError::DspPanic(_, p) => format!("{}@dsp", p.sig()),
    }
}

/// digits collapsed, identifiers of generated registers/blocks do not matter
fn class_of(line: &str, max: usize) -> String {
    let mut o = String::new();
    let mut last_n = false;
    for ch in line.trim().chars() {
        if o.len() >= max {
            break;
        }
        if ch.is_ascii_digit() {
            if !last_n {
                o.push('N');
            }
            last_n = true;
        } else {
            last_n = false;
            o.push(ch);
        }
    }
    o
}

/// class tag of a rustc failure: first `error…` line; for a type mismatch also what was
/// expected / found (first label line saying so)
fn rustc_class(stderr: &str) -> String {
    let l = stderr.lines().find(|l| l.starts_with("error")).unwrap_or("no error line");
    // keep the error code, collapse digits in the message
    let mut c = match (l.strip_prefix("error["), l.find(']')) {
        (Some(_), Some(end)) => format!("{}{}", &l[..=end], class_of(&l[end + 1..], 110)),
        _ => class_of(l, 110),
    };
    if l.contains("mismatched types")
        && let Some(x) = stderr.lines().find_map(|l| l.find("expected `").map(|i| &l[i..]))
    {
        c.push_str(" / ");
        c.push_str(&class_of(x, 70));
    }
    c
}

/// builtin functions of the VM (plugin/builtin_functins.rs) that the emitted runtime's own
/// `call_ext` does not implement and hands to the host
const LEFT_TO_HOST: [&str; 12] = ["round", "floor", "ceil", "not", "tan", "sinh", "cosh", "tanh", "asin", "acos", "atan", "atan2"];

/// class tag of a failed run: panic message / error line of the harness main
fn run_class(stderr: &str) -> String {
    let lines: Vec<&str> = stderr.lines().collect();
    if let Some(name) = stderr.find("unexpected external call: ").map(|i| &stderr[i + 26..]) {
        let name: String = name.chars().take_while(|c| c.is_ascii_alphanumeric() || *c == '_' || *c == '$').collect();
        if LEFT_TO_HOST.contains(&name.as_str()) {
            return "core-math-builtin-left-to-host".into();
        }
        return format!("unexpected external call: {name}");
    }
    for (i, l) in lines.iter().enumerate() {
        if l.contains("panicked at") {
            // `thread 'main' panicked at file:line:col:` + message on the next line
            if let Some(m) = lines.get(i + 1) {
                return format!("panic: {}", class_of(m, 90));
            }
        }
        if l.starts_with("call_dsp error:") || l.starts_with("call_main error:") {
            return class_of(l, 100);
        }
        if l.contains("has overflowed its stack") {
            return "stack overflow".into();
        }
    }
    class_of(lines.first().copied().unwrap_or("no message"), 90)
}

fn rustc_path() -> String {
    std::env::var("MMV_RUSTC").unwrap_or_else(|_| "rustc".to_string())
}

const RUSTC_TIMEOUT_S: u64 = 600;
const RUN_TIMEOUT_S: u64 = 60;
const RUSTC_AS_LIMIT: u64 = 8 << 30;
const RUN_AS_LIMIT: u64 = 1 << 30;

/// The oracle. Pure with respect to the event stream so that the minimiser can call it.
/// `keep`: leave the scratch directory in place (developer aid).
pub fn check(c: &Case, keep: bool) -> Checked {
    let mut res = Checked {
        violations: vec![],
        inconclusive: None,
        stage: Stage::Undecided,
        note: String::new(),
        words_compared: 0,
        samples_compared: 0,
        nontrivial: false,
        rust_lines: 0,
        rustc_ms: 0,
        run_ms: 0,
        has_call_main: false,
        channels: (0, 0),
    };
    let inp = input_fn(c.input_seed, c.finite_inputs);
    let path = c.path.as_ref().map(PathBuf::from);

    // 1. the VM (reference side of this property)
    let vm = match run_program(Backend::Vm, &c.src, false, c.n, &inp, false, path.clone()) {
        Ok(r) => r,
        Err(e) => {
            res.stage = Stage::VmRefused;
            res.note = vm_outcome(&e);
            return res;
        }
    };
    let (ich, och) = (vm.in_channels, vm.channels);
    res.channels = (ich, och);

    // 2. emit Rust from a plugin-free context, as rust_codegen_test.rs does
    let emitted = catch(|| {
        let mut ctx = ExecContext::new([].into_iter(), path.clone(), Config::default());
        ctx.prepare_compiler();
        let comp = ctx.get_compiler().expect("compiler prepared");
        comp.emit_rust(&c.src).map(|o| (o.source, o.io_channels)).map_err(|errs| errs.first().map(|e| e.get_message()).unwrap_or_default())
    });
    let (rust_src, io) = match emitted {
        Err(p) => {
            res.stage = Stage::EmitPanicked;
            res.note = p.sig();
            return res;
        }
        Ok(Err(msg)) => {
            res.stage = Stage::Refused;
            res.note = norm(&msg);
            return res;
        }
        Ok(Ok(x)) => x,
    };
    res.rust_lines = rust_src.lines().count();
    res.has_call_main = rust_src.contains("pub fn call_main");
    if let Some(io) = io
        && (io.input as usize != ich || io.output as usize != och)
    {
        res.violations.push((
            "io-channels-differ".into(),
            format!("VM runs dsp with {ich} in / {och} out, RustOutput.io_channels says {} in / {} out", io.input, io.output),
        ));
    }

    // 3. rustc
    let mut inputs = Vec::with_capacity(c.n * ich);
    for t in 0..c.n {
        for ch in 0..ich {
            inputs.push(inp(t, ch).to_bits());
        }
    }
    let full = harness_main(&rust_src, c.n, ich, &inputs);
    let dir = scratch_dir();
    let _ = std::fs::remove_dir_all(&dir);
    if let Err(e) = std::fs::create_dir_all(&dir) {
        res.inconclusive = Some(format!("cannot create scratch dir: {e}"));
        return res;
    }
    struct Cleanup(PathBuf, bool);
    impl Drop for Cleanup {
        fn drop(&mut self) {
            if !self.1 {
                let _ = std::fs::remove_dir_all(&self.0);
            }
        }
    }
    let _cleanup = Cleanup(dir.clone(), keep);
    let src_path = dir.join("case.rs");
    let bin_path = dir.join("case");
    if let Err(e) = std::fs::write(&src_path, &full) {
        res.inconclusive = Some(format!("cannot write generated source: {e}"));
        return res;
    }
    let mut cmd = Command::new(rustc_path());
    cmd.arg("--edition=2024")
        .arg("-C")
        .arg("opt-level=0")
        .arg("-C")
        .arg("debuginfo=0")
        .arg("-C")
        .arg("codegen-units=2")
        .arg("--cap-lints")
        .arg("allow")
        .arg("case.rs")
        .arg("-o")
        .arg("case");
    let rc = match run_child(cmd, &dir, "rustc", Duration::from_secs(RUSTC_TIMEOUT_S), RUSTC_AS_LIMIT) {
        Ok(r) => r,
        Err(e) => {
            res.inconclusive = Some(format!("rustc could not be run: {e}"));
            return res;
        }
    };
    res.rustc_ms = rc.ms;
    if rc.timed_out {
        res.inconclusive = Some(format!("rustc did not finish within {RUSTC_TIMEOUT_S}s"));
        return res;
    }
    if rc.signal.is_some() || rc.code != Some(0) {
        let has_error_line = rc.stderr.lines().any(|l| l.starts_with("error"));
        let resource = rc.stderr.contains("memory allocation of")
            || rc.stderr.contains("out of memory")
            || rc.stderr.contains("Cannot allocate memory")
            || rc.stderr.contains("No space left")
            || rc.stderr.contains("internal compiler error")
            || rc.stderr.contains("Resource temporarily unavailable");
        if rc.signal.is_some() || !has_error_line || resource || rc.code != Some(1) {
            res.inconclusive = Some(format!(
                "rustc ended abnormally (code {:?} signal {:?}): {}",
                rc.code,
                rc.signal,
                rc.stderr.lines().take(3).collect::<Vec<_>>().join(" | ")
            ));
            return res;
        }
        res.stage = Stage::RustcFailed;
        let head: String = rc.stderr.lines().take(24).collect::<Vec<_>>().join("\n");
        res.violations.push((
            format!("rustc-fails/{}", rustc_class(&rc.stderr)),
            format!("emit_rust returned Ok ({} lines of Rust) but rustc --edition=2024 rejects the source:\n{head}", res.rust_lines),
        ));
        return res;
    }
    if !bin_path.exists() {
        res.inconclusive = Some("rustc exited 0 without producing a binary".into());
        return res;
    }

    // 4. run
    let run = match run_child(Command::new(&bin_path), &dir, "run", Duration::from_secs(RUN_TIMEOUT_S), RUN_AS_LIMIT) {
        Ok(r) => r,
        Err(e) => {
            res.inconclusive = Some(format!("generated binary could not be started: {e}"));
            return res;
        }
    };
    res.run_ms = run.ms;
    if run.timed_out {
        res.inconclusive = Some(format!("generated binary did not finish {} samples within {RUN_TIMEOUT_S}s (VM finished)", c.n));
        return res;
    }
    if let Some(sig) = run.signal {
        if sig == 9 {
            res.inconclusive = Some("generated binary was killed (SIGKILL)".into());
            return res;
        }
        if run.stderr.contains("memory allocation of") {
            res.inconclusive = Some(format!("generated binary ran out of its {} GiB address space within {} samples (VM finished them)", RUN_AS_LIMIT >> 30, c.n));
            return res;
        }
        let overflow = run.stderr.contains("has overflowed its stack");
        res.stage = Stage::RunFailed;
        res.violations.push((
            format!("binary-dies/{}", if overflow { "stack overflow".to_string() } else { signame(sig) }),
            format!("the compiled program died with {} (VM ran {} samples); stderr: {}", signame(sig), c.n, run.stderr.lines().take(6).collect::<Vec<_>>().join(" | ")),
        ));
        return res;
    }
    if run.code != Some(0) {
        if run.stderr.contains("memory allocation of") {
            res.inconclusive = Some(format!("generated binary ran out of its {} GiB address space within {} samples (VM finished them)", RUN_AS_LIMIT >> 30, c.n));
            return res;
        }
        res.stage = Stage::RunFailed;
        let printed = run.stdout.lines().filter(|l| l.starts_with('S')).count();
        res.violations.push((
            format!("binary-exits-nonzero/{}", run_class(&run.stderr)),
            format!(
                "the compiled program exited with status {:?} after printing {printed} of {} samples (VM ran them all); stderr: {}",
                run.code,
                c.n,
                run.stderr.lines().take(6).collect::<Vec<_>>().join(" | ")
            ),
        ));
        return res;
    }

    // 5. compare every output word
    res.stage = Stage::Compared;
    let lines: Vec<&str> = run.stdout.lines().filter(|l| l.starts_with('S')).collect();
    if lines.len() != c.n {
        res.violations.push(("sample-count-differs".into(), format!("binary printed {} sample lines, expected {}", lines.len(), c.n)));
        return res;
    }
    'outer: for (t, l) in lines.iter().enumerate() {
        let words: Vec<u64> = l.split_whitespace().skip(1).filter_map(|w| u64::from_str_radix(w, 16).ok()).collect();
        if words.len() != och {
            res.violations.push((
                "output-word-count-differs".into(),
                format!("sample {t}: call_dsp returned {} words, the VM's dsp has {och} output channels", words.len()),
            ));
            break 'outer;
        }
        res.samples_compared += 1;
        for (k, w) in words.iter().enumerate() {
            let v = vm.out[t * och + k];
            let r = f64::from_bits(*w);
            res.words_compared += 1;
            if !bits_eq(v, r) {
                let lo = t.saturating_sub(2);
                let vmw: Vec<String> = (lo..=t).map(|tt| format!("{:?}", &vm.out[tt * och..(tt + 1) * och])).collect();
                let rsw: Vec<String> = (lo..=t)
                    .map(|tt| {
                        let ws: Vec<f64> = lines[tt].split_whitespace().skip(1).filter_map(|w| u64::from_str_radix(w, 16).ok()).map(f64::from_bits).collect();
                        format!("{ws:?}")
                    })
                    .collect();
                res.violations.push((
                    "output-differs".into(),
                    format!(
                        "sample {t} channel {k}: vm = {v:?} ({:#018x}) rust = {r:?} ({w:#018x}); window vm {} rust {}",
                        v.to_bits(),
                        vmw.join(" "),
                        rsw.join(" ")
                    ),
                ));
                break 'outer;
            }
        }
    }
    let first = vm.out.first().copied().unwrap_or(0.0);
    res.nontrivial = res.violations.is_empty() && res.samples_compared == c.n && vm.out.iter().any(|x| !bits_eq(*x, first));
    res
}

// ------------------------------------------------------------------ reporting

/// JSON of a case for a violation event. serde_json refuses to parse documents nested
/// deeper than 128 levels, and `--replay` parses the file before the property sees it: a
/// case whose G-AST is that deep is stored without `prog` (the program text, which is all
/// the oracle needs, stays).
fn replayable(c: &Case) -> Value {
    let v = serde_json::to_value(c).unwrap();
    let txt = v.to_string();
    let (mut depth, mut max, mut in_str, mut esc) = (0usize, 0usize, false, false);
    for ch in txt.chars() {
        if in_str {
            if esc {
                esc = false;
            } else if ch == '\\' {
                esc = true;
            } else if ch == '"' {
                in_str = false;
            }
            continue;
        }
        match ch {
            '"' => in_str = true,
            '[' | '{' => {
                depth += 1;
                max = max.max(depth);
            }
            ']' | '}' => depth = depth.saturating_sub(1),
            _ => {}
        }
    }
    if max > 110 {
        let mut t = c.clone();
        t.prog = None;
        t.origin = Some(format!("{} (G-AST dropped: nested {max} levels deep)", c.origin.as_deref().unwrap_or("generated")));
        return serde_json::to_value(&t).unwrap();
    }
    v
}

fn violations_of(c: &Case) -> Vec<(String, String)> {
    check(c, false).violations
}

/// First hit of a signature in this worker is minimised (bounded: every evaluation is a
/// rustc run), a few more are reported as they are, the rest only counted.
fn report(args: &Args, out: &mut Out, idx: usize, c: &Case, found: &[(String, String)]) {
    for (sig, detail) in found {
        let key = format!("violations:{sig}");
        let seen = out.counters.get(&key).copied().unwrap_or(0);
        out.count(&key, 1);
        if seen == 0 {
            let known_class = sig == "binary-exits-nonzero/core-math-builtin-left-to-host" && args.q("rustgen-math-builtin-left-to-host");
            let text_only_quick = c.prog.is_none() && !args.thorough();
            let budget = if args.replay.is_some() || known_class || text_only_quick || std::env::var("MMV_C18_NOMIN").is_ok() { 0 } else if args.thorough() { 120 } else { 24 };
            let t0 = Instant::now();
            let limit = Duration::from_secs(if args.thorough() { 300 } else { 45 });
            let evals = std::cell::Cell::new(0usize);
            let oracle = |t: &Case| {
                if t0.elapsed() > limit {
                    return vec![];
                }
                evals.set(evals.get() + 1);
                violations_of(t)
            };
            let small = if budget == 0 { c.clone() } else { minimise(c, sig, budget, &oracle) };
            let d2 = if small.src == c.src { detail.clone() } else { violations_of(&small).into_iter().find(|v| &v.0 == sig).map(|v| v.1).unwrap_or(detail.clone()) };
            out.count("minimiser_evaluations", evals.get() as u64);
            out.violation(idx, sig, &format!("{d2}\n(minimised from a {}-byte program)", c.src.len()), &replayable(&small));
        } else if seen < 3 {
            out.violation(idx, sig, detail, &replayable(c));
        }
    }
}

fn exec_with(args: &Args) -> impl Fn(&Case, usize, &mut Out) -> bool + '_ {
    move |c, idx, out| {
        let keep = args.extra.contains_key("keep");
        let r = check(c, keep);
        let origin = c.origin.as_deref().unwrap_or(if c.prog.is_some() { "generated" } else { "witness" });
        let okind = origin.split(':').next().unwrap_or("").to_string();
        out.count(&format!("origin:{okind}"), 1);
        if let Some(rw) = origin.strip_prefix("generated:rewritten-for(") {
            for q in rw.trim_end_matches(')').split(',') {
                out.count(&format!("generated_programs_rewritten_for_quarantine:{q}"), 1);
            }
        }
        if let Some(w) = &r.inconclusive {
            out.inconclusive(idx, w);
            return false;
        }
        let stage = match r.stage {
            Stage::VmRefused => "vm_refused_or_crashed(not_a_case)",
            Stage::EmitPanicked => "emit_rust_panicked(not_judged)",
            Stage::Refused => "emit_rust_refused",
            Stage::RustcFailed => "rustc_failed",
            Stage::RunFailed => "binary_failed",
            Stage::Compared => "binary_ran_and_compared",
            Stage::Undecided => "undecided",
        };
        out.count(&format!("outcome:{stage}"), 1);
        out.count(&format!("outcome:{stage}/{okind}"), 1);
        match r.stage {
            Stage::VmRefused => out.set("vm_refusals", r.note.clone()),
            Stage::EmitPanicked => out.set("emit_rust_panics", r.note.clone()),
            Stage::Refused => out.set("refusal_messages", r.note.clone()),
            _ => {}
        }
        let accepted = matches!(r.stage, Stage::RustcFailed | Stage::RunFailed | Stage::Compared);
        if accepted {
            out.count("emit_rust_ok", 1);
            out.count("rustc_runs", 1);
            out.count("rustc_ms_total", r.rustc_ms as u64);
            out.count("rust_lines_compiled", r.rust_lines as u64);
            if r.has_call_main {
                out.count("programs_with_call_main", 1);
            }
            out.set("io_shapes(in/out)", format!("{}/{}", r.channels.0, r.channels.1));
        }
        if r.stage == Stage::Compared {
            out.count("samples_compared", r.samples_compared as u64);
            out.count("words_compared", r.words_compared as u64);
        }
        if !matches!(r.stage, Stage::VmRefused) {
            for f in c.prog.iter().flat_map(|p| p.features.iter()) {
                let what = match r.stage {
                    Stage::Refused => "refused",
                    Stage::EmitPanicked => "emit_panicked",
                    Stage::Compared if r.violations.is_empty() => "agreed",
                    _ => "accepted_but_wrong",
                };
                out.count(&format!("feature:{f}:{what}"), 1);
            }
        }
        if okind == "table"
            && let Some(f) = origin.split(':').nth(1)
        {
            out.set(if r.stage == Stage::Compared && r.violations.is_empty() { "operator_tables_agreed" } else { "operator_tables_not_agreed" }, f);
        } else if okind != "generated"
            && let Some(f) = origin.split(':').nth(1)
        {
            match r.stage {
                Stage::Compared if r.violations.is_empty() => out.set("corpus_files_agreed", f),
                Stage::Refused => out.set("corpus_files_refused", f),
                Stage::VmRefused => out.set("corpus_files_not_a_case", f),
                _ => {}
            }
        }
        if !r.violations.is_empty() {
            // keep the supervisor's stall detector informed while the minimiser runs rustc
            out.emit(json!({"ev": "progress", "idx": idx, "what": "violation found, minimising"}));
        }
        report(args, out, idx, c, &r.violations);
        r.nontrivial
    }
}


// ------------------------------------------------------------------ fixed operator tables

/// Hand-written programs that enumerate operator x operand-class grids from `now` (no
/// inputs needed): every binary / unary numeric and logic operator over {-1.5 .. 1.5} x
/// {-1.5 .. 1.5} and NaN/inf operands, every delay time 0..max+1 (integral and fractional),
/// mem, scalar and tuple `self`, captured and assigned upvalues, function values with
/// state, array indexing inside / outside the bounds. (name, samples, source)
const TABLES: [(&str, usize, &str); 10] = [
    (
        "operators",
        49,
        "fn dsp(){\n  let i = now % 7\n  let j = ((now - i) / 7) % 7\n  let x = (i - 3) * 0.5\n  let y = (j - 3) * 0.5\n  let c = if (x) y else x + 10\n  let z = x / (y * 0)\n  (x % y, x / y, x ^ y, x && y, x || y, x < y, x <= y, x == y, x != y, -x, abs(x), sqrt(x), sin(x), cos(x), log(x), min(x,y), max(x,y), c, z % y, z && x, z || y, z < y, min(z, y), max(x, z), x > y, x >= y, (x + y) * (x - y))\n}\n",
    ),
    (
        "delay_mem",
        30,
        "fn dsp(){\n  let i = now % 6\n  (delay(4, now, i), delay(4, now + 100, i * 0.5), delay(1, now, 0), mem(now), delay(3, now, 0 - 1), delay(5, mem(now), 4), delay(2, now, 1))\n}\n",
    ),
    (
        "self_state",
        12,
        "fn cnt(){ self + 1 }\nfn acc(x)->(float,float){\n  let (a, b) = self\n  (a + x, b * 0.5 + x)\n}\nfn leak(x){ x + self * 0.5 }\nfn dsp(){\n  let c = cnt()\n  let a = acc(c)\n  (c, a.0, a.1, leak(c), leak(1.0), cnt())\n}\n",
    ),
    (
        "closures",
        10,
        "fn mk(){\n  let c = 0.0\n  |x| {\n    c = c + x\n    c\n  }\n}\nfn adder(k){\n  |x| { x + k }\n}\nlet f = mk()\nlet add3 = adder(3.0)\nfn dsp(){\n  let g = mk()\n  (f(1.0), g(now), g(2.0), add3(now), adder(now)(1.0))\n}\n",
    ),
    (
        // variables shared between a closure and its defining function / a sibling closure:
        // every party must see every assignment
        "shared_upvalues",
        6,
        "fn make(){\n  let x = 0.0\n  let inc = | | {\n    x = x + 1.0\n    x\n  }\n  let get = | | { x * 10.0 }\n  (inc, get)\n}\nlet (ginc, gget) = make()\nfn dsp(){\n  let x = now\n  let inc = | | {\n    x = x + 100.0\n    x\n  }\n  let peek = |k| { x * k }\n  let a = inc()\n  let b = inc()\n  let c = peek(2.0)\n  let ga = ginc()\n  (x, a, b, c, ga, gget())\n}\n",
    ),
    (
        "function_values",
        10,
        "fn fb(x){ x + self * 0.5 }\nfn twice(f:(float)->float, x){ f(f(x)) }\nfn pick(c){ if (c) fb else |y| { y * 2.0 } }\nfn dsp(){\n  let h = pick(now % 2)\n  (twice(fb, 1.0), twice(|y| { y * mem(y) }, now), h(3.0), now |> fb)\n}\n",
    ),
    (
        // functions and lambdas with tuple / record parameters in every position, reached through
        // function values (higher-order call, value chosen at run time, immediate lambda call)
        "indirect_calls_with_aggregates",
        8,
        "fn scale(p:(float,float), k:float){ p.0 * k + p.1 }\nfn scale3(k:float, p:(float,float), m:float){ p.0 * k + p.1 * m }\nfn app2(f:((float,float),float)->float, p:(float,float), k:float){ f(p, k) }\nfn app3(f:(float,(float,float),float)->float, p:(float,float)){ f(2.0, p, 1000.0) }\nfn dsp(){\n  let t = (now, now + 0.25)\n  let g = |p:(float,float), k:float| { p.0 - p.1 * k }\n  let g3 = |a:float, q:(float,float), z:float| { a + q.1 * z + q.0 }\n  let h = if (now % 2) scale else g\n  (app2(scale, t, 100.0), app2(g, t, 3.0), h(t, 7.0), app3(scale3, t), app3(g3, t), (|a:float, q:(float,float), z:float| a + q.1 * z)(1.0, t, 1000.0))\n}\n",
    ),
    (
        // arrays are values: appending yields a new array and leaves every other reference as it was
        "array_append_aliasing",
        6,
        "let ga = [1.0, 2.0]\nfn dsp(){\n  let a = [10.0, 20.0, 30.0]\n  let b = append(a, now)\n  let c = append(b, 5.0)\n  let g2 = append(ga, now)\n  let g3 = append(ga, 7.0)\n  (len(a), len(b), len(c), b[3], c[3], c[4], len(ga), len(g2), g2[2], g3[2], len(g3))\n}\n",
    ),
    (
        // lambdas that keep state (self / mem / delay / a stateful callee) with and without captured
        // variables, called in the function that makes them, once and twice, unconditionally and only on
        // some samples, with stateful code of the caller before and after the call
        "stateful_lambdas",
        12,
        "fn cnt(){ self + 1 }\nfn dbl(f:(float)->float, x){ f(x) * 2.0 }\nfn dsp(){\n  let k = 3.0\n  let a0 = cnt()\n  let acc = |x| { self + x }\n  let lag = |x| { mem(x) + delay(3, x, 2) }\n  let viacnt = |x| { cnt() * x }\n  let capt = |x| { self + x + k }\n  let r1 = acc(1.0)\n  let r2 = acc(10.0)\n  let r3 = lag(now)\n  let r4 = viacnt(2.0)\n  let r5 = capt(1.0)\n  let r6 = if (now % 3) { dbl(acc, now) } else { 0.5 }\n  let a1 = cnt()\n  let r7 = if (now % 2) { capt(100.0) } else { acc(1000.0) }\n  let a2 = cnt()\n  (a0, r1, r2, r3, r4, r5, r6, a1, r7, a2, mem(a2))\n}\n",
    ),
    (
        "arrays",
        12,
        "let a = [10.0, 20.0, 30.0]\nfn dsp(){\n  let b = [now, now * 2.0, 7.0, 0.0 - now]\n  (a[now - 2], a[now * 0.5], b[1], b[now % 4], a[0 - 1], a[100])\n}\n",
    ),
];

fn table_case(k: usize) -> Case {
    let (name, n, src) = TABLES[k];
    Case { src: src.to_string(), n, input_seed: 0, finite_inputs: true, prog: None, expect: None, scheduler: false, path: None, origin: Some(format!("table:{name}")), split: None }
}

// ------------------------------------------------------------------ workload

/// the fixtures `run_all_annotated_fixtures_via_rust_codegen` runs: `// @test` header in
/// the first 8 lines, not parser_combinators.mmm (plugin-backed ones are refused by the VM
/// context used here, which has no plugins, and so are no C18 cases)
fn is_rust_codegen_fixture(file: &Path, src: &str) -> bool {
    file.to_string_lossy().contains("mimium-test/tests/mmm")
        && src.lines().take(8).map(str::trim).any(|l| l.starts_with("// @test "))
        && file.file_name().is_some_and(|n| n != "parser_combinators.mmm")
}

fn corpus_case(args: &Args, file: &Path, rng: &mut Rng) -> Option<Case> {
    let src = std::fs::read_to_string(file).ok()?;
    let name = file.file_name()?.to_string_lossy().to_string();
    // `corpus:<file>` quarantines of other properties (leaks, WASM defects, crashes the VM
    // side of this check turns into "not a case") do not concern the VM's output stream;
    // C18 has its own names
    if args.q(&format!("c18-corpus:{name}")) {
        return None;
    }
    let kind = if is_rust_codegen_fixture(file, &src) { "fixture" } else { "corpus" };
    Some(Case {
        src,
        n: *rng.pick(&[4usize, 12, 32]),
        input_seed: rng.next(),
        finite_inputs: true,
        prog: None,
        expect: None,
        scheduler: false,
        path: Some(file.to_string_lossy().to_string()),
        origin: Some(format!("{kind}:{name}")),
        split: None,
    })
}

// ---- static quarantines of C18 (shapes with a registered known finding), applied to the
// generated G-AST before printing: the construct stays in the program, only the narrow
// shape that trips the known defect is rewritten.

fn walk_block_mut(b: &mut Block, f: &mut dyn FnMut(&mut E)) {
    for s in &mut b.stmts {
        match s {
            Stmt::Let(_, _, e) | Stmt::Assign(_, e) => walk_mut(e, f),
        }
    }
    walk_mut(&mut b.result, f);
}

/// post-order mutable traversal
fn walk_mut(e: &mut E, f: &mut dyn FnMut(&mut E)) {
    match e {
        E::Num(..) | E::Var(_) | E::FnRef(_) | E::SelfE | E::Now | E::SampleRate => {}
        E::Bin(_, a, b) | E::PipeVal(a, b) => {
            walk_mut(a, f);
            walk_mut(b, f);
        }
        E::Neg(a) | E::Not(a) | E::Proj(a, _) | E::Field(a, _) | E::Mem(a, _) => walk_mut(a, f),
        E::PipeFn { arg, .. } => walk_mut(arg, f),
        E::Builtin(_, v) | E::Tuple(v) => v.iter_mut().for_each(|x| walk_mut(x, f)),
        E::CallFn { args, .. } => args.iter_mut().for_each(|x| walk_mut(x, f)),
        E::CallVal(c, v) => {
            walk_mut(c, f);
            v.iter_mut().for_each(|x| walk_mut(x, f));
        }
        E::If(c, a, b) => {
            walk_mut(c, f);
            walk_mut(a, f);
            walk_mut(b, f);
        }
        E::Record(fs) => fs.iter_mut().for_each(|(_, x)| walk_mut(x, f)),
        E::Lambda(_, b) | E::Block(b) => walk_block_mut(b, f),
        E::Delay(_, x, t, _) => {
            walk_mut(x, f);
            walk_mut(t, f);
        }
    }
    f(e);
}

fn walk_program_mut(p: &mut Program, f: &mut dyn FnMut(&mut E)) {
    for (_, _, e) in p.pre_globals.iter_mut().chain(p.globals.iter_mut()) {
        walk_mut(e, f);
    }
    for d in p.fns.iter_mut().chain(std::iter::once(&mut p.dsp)) {
        walk_block_mut(&mut d.body, f);
    }
}

fn ends_in_projection(e: &E) -> bool {
    match e {
        E::Proj(..) | E::Field(..) => true,
        E::Block(b) => ends_in_projection(&b.result),
        _ => false,
    }
}

/// builtin functions of the VM that the emitted runtime's `call_ext` leaves to the host
const HOST_MATH: [(&str, &str); 5] = [("floor", "abs"), ("ceil", "sqrt"), ("round", "sin"), ("tanh", "cos"), ("atan", "abs")];

/// returns the names of the quarantines that changed the program
fn apply_static_quarantines(args: &Args, p: &mut Program) -> Vec<&'static str> {
    let mut hit = vec![];
    if args.q("rustgen-math-builtin-left-to-host") {
        let mut n = 0;
        walk_program_mut(p, &mut |e| {
            if let E::Builtin(name, _) = e
                && let Some((_, to)) = HOST_MATH.iter().find(|(from, _)| from == name)
            {
                *name = to.to_string();
                n += 1;
            }
        });
        if n > 0 {
            hit.push("rustgen-math-builtin-left-to-host");
        }
    }
    if args.q("rustgen-projection-operand-of-mem-delay") {
        let mut n = 0;
        let mut wrap = |x: &mut Box<E>| {
            if ends_in_projection(x) {
                let inner = std::mem::replace(&mut **x, E::Now);
                **x = E::Bin(BinOp::Mul, Box::new(inner), Box::new(E::Num(1.0, false)));
                n += 1;
            }
        };
        walk_program_mut(p, &mut |e| match e {
            E::Mem(a, _) => wrap(a),
            E::Delay(_, x, t, _) => {
                wrap(x);
                wrap(t);
            }
            _ => {}
        });
        if n > 0 {
            hit.push("rustgen-projection-operand-of-mem-delay");
        }
    }
    hit
}

fn gen_case(args: &Args, rng: &mut Rng) -> Case {
    let mut feat = feat_for(args, rng);
    // `%` is fmod on the VM and in the emitted Rust; the `modulo` quarantine is about WASM
    feat.modulo = true;
    // && / || / if on arbitrary operands: VM and emitted Rust both state "true iff > 0"
    feat.raw_logic = rng.chance(1, 3);
    let mut prog = generate(rng, feat);
    let rewritten = apply_static_quarantines(args, &mut prog);
    let src = prog.print();
    let n = *rng.pick(&[8usize, 16, 24, 40]);
    let finite = rng.chance(3, 4);
    let origin = if rewritten.is_empty() { None } else { Some(format!("generated:rewritten-for({})", rewritten.join(","))) };
    Case { src, n, input_seed: rng.next(), finite_inputs: finite, prog: Some(prog), expect: None, scheduler: false, path: None, origin, split: None }
}

fn budgets(args: &Args) -> (usize, usize) {
    // (generated programs, corpus stride; stride 1 = every shipped file in both tiers)
    if args.thorough() { (args.cases(0, 1500), 1) } else { (args.cases(64, 0), 1) }
}

pub fn meta(args: &Args) -> Value {
    let (ngen, stride) = budgets(args);
    json!({
        "level": "exploration",
        "rule": format!("differential VM vs compiled emitted Rust. Cases: (t) 7 fixed operator tables (hand-written programs enumerating, from `now`, every numeric/logic operator over a 7x7 operand grid incl. negative, zero, NaN and inf operands, delay times 0..max+1, mem, scalar/tuple self, upvalues shared between closures and their defining function, function values with state, array indices in and out of bounds); (a) {ngen} random well-typed core-language programs from the typed generator (all features the transpiler's documentation claims, `%` included; shapes listed under quarantined_features are not generated because the VM itself miscompiles them), n in 8..40 samples, seeded dsp inputs (1/4 of the cases with NaN/inf/-0.0/subnormals); (b) every shipped source of lib/, examples/, tests/mmm (stride {stride}) that is not quarantined by name, among them the fixtures rust_codegen_test.rs runs. Per case: run on the VM through the CLI's code path (a program the VM refuses or crashes on is no case), Context::emit_rust on a plugin-free ExecContext (Err = refusal = fine and counted; panic = counted, not judged), append a main modelled on rust_codegen_test.rs (host gives now = sample index, samplerate = 48000, errors on every external call; call_main if present; call_dsp per sample with that sample's input words), rustc --edition=2024 -C opt-level=0, run the binary. Refuting: rustc rejects the source; binary exits non-zero or dies by a signal; word count of a sample differs; any output word differs bitwise from the VM's (NaN == NaN). Non-trivial = emit_rust Ok, rustc Ok, binary exit 0, all n samples compared equal and the VM output stream has at least two distinct values; distinct = hash of program text + run parameters."),
        "assumptions": [
            "rustc on PATH (default toolchain) is the compiler the property means; linked against the same libm as the worker, so sin/cos/pow/ln agree bitwise if the same operation is applied",
            "`now` counts samples from 0 and the sample rate is 48000, as LocalBufferDriver gives them to the VM",
            "a host that answers every external call with an error (like TestHost of rust_codegen_test.rs / PanicHost): core programs make no plugin calls",
            "NaN payload/sign is not compared",
            "timeouts of rustc / of the binary, SIGKILL and resource exhaustion are inconclusive, never violations"
        ],
        "floor": {"quick": 30, "thorough": 500},
        "case_timeout_s": 1500,
        "hang_is_violation": false,
        "crash_is_violation": false,
        "deadline_s": if args.thorough() { 3 * 3600 } else { 900 },
    })
}

pub fn run(args: &Args, out: &mut Out) {
    if args.shard == 0 {
        remove_stale_scratch_dirs();
    }
    let files = super::c01::corpus_files(&args.repo);
    let (ngen, stride) = budgets(args);
    // fixed operator tables, then shipped files (cheap to refuse), then generated programs
    let picked: Vec<PathBuf> = files.iter().enumerate().filter(|(i, _)| (i + args.seed as usize) % stride == 0).map(|(_, f)| f.clone()).collect();
    let ncorpus = picked.len();
    let ntab = TABLES.len();
    let total = ntab + ncorpus + ngen;
    let exec = exec_with(args);
    drive(
        args,
        out,
        total,
        |idx, rng| {
            if idx < ntab {
                Some(table_case(idx))
            } else if idx < ntab + ncorpus {
                corpus_case(args, &picked[idx - ntab], rng)
            } else {
                Some(gen_case(args, rng))
            }
        },
        exec,
    );
    let _ = std::fs::remove_dir_all(scratch_dir());
}

pub fn replay(args: &Args, out: &mut Out, case: &Value) {
    let exec = exec_with(args);
    replay_one::<Case>(out, case, exec);
    if !args.extra.contains_key("keep") {
        let _ = std::fs::remove_dir_all(scratch_dir());
    }
}
