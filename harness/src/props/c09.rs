//! C09 — staged (macro) code means the same as the code it generates.
//!
//! One description (a G-AST program whose sub-expressions carry *staging markers*, a text
//! template with a hole, or a macro-stage arithmetic expression) is printed twice: as the
//! staged program (quotes, splices, macro calls, macro-stage functions / closures / numeric
//! recursion building code, lift) and as its hand expansion. Both texts are compiled and run
//! by the real compiler on the VM and on WASM; the oracle compares accept/reject and every
//! output bit of staged vs expanded *per back end* (never VM against WASM), and lifted numbers
//! against the value the reference interpreter computes for the macro-stage expression.

use super::progcase::{feat_for, input_fn, norm};
use super::{drive, replay_one};
use crate::gens::core::*;
use crate::gens::shrink::visit;
use crate::refsem;
use crate::run::{Backend, BuildError, RunError, RunOut, run_program};
use crate::util::{Args, Out, Rng, bits_eq};
use serde::{Deserialize, Serialize};
use serde_json::{Value, json};
use std::collections::{BTreeMap, BTreeSet, HashMap};

// ====================================================================== case

#[derive(Clone, Debug, Serialize, Deserialize)]
pub struct SCase {
    /// "program" | "form" | "fixture" | "lift"
    pub family: String,
    pub staged: String,
    /// hand expansion (empty for the lift family, whose expectation is `lifts`)
    #[serde(default)]
    pub expanded: String,
    /// (form x context) tags of the staging constructs in `staged`
    #[serde(default)]
    pub tags: Vec<String>,
    /// class tag used in violation signatures
    #[serde(default)]
    pub class: String,
    pub n: usize,
    #[serde(default)]
    pub input_seed: u64,
    /// program family: the marked G-AST both texts were printed from (minimiser, reference run)
    #[serde(default)]
    pub marked: Option<Program>,
    /// lift family: per output channel (spelling, macro-stage expression, expected f64 bits in hex)
    #[serde(default)]
    pub lifts: Vec<(String, String, String)>,
}

// ====================================================================== G-AST utilities

fn map_block(b: &Block, f: &mut dyn FnMut(&E) -> E) -> Block {
    let mut stmts = Vec::with_capacity(b.stmts.len());
    for s in &b.stmts {
        stmts.push(match s {
            Stmt::Let(p, t, e) => Stmt::Let(p.clone(), t.clone(), f(e)),
            Stmt::Assign(n, e) => Stmt::Assign(n.clone(), f(e)),
        });
    }
    let result = f(&b.result);
    Block { stmts, result }
}

/// Rebuild `e` with every direct child mapped by `f` (left to right).
fn map_children(e: &E, f: &mut dyn FnMut(&E) -> E) -> E {
    let bx = |x: &E, f: &mut dyn FnMut(&E) -> E| Box::new(f(x));
    match e {
        E::Num(..) | E::Var(_) | E::FnRef(_) | E::SelfE | E::Now | E::SampleRate => e.clone(),
        E::Bin(op, a, b) => {
            let a2 = bx(a, f);
            let b2 = bx(b, f);
            E::Bin(*op, a2, b2)
        }
        E::PipeVal(a, b) => {
            let a2 = bx(a, f);
            let b2 = bx(b, f);
            E::PipeVal(a2, b2)
        }
        E::Neg(a) => E::Neg(bx(a, f)),
        E::Not(a) => E::Not(bx(a, f)),
        E::Proj(a, i) => E::Proj(bx(a, f), *i),
        E::Field(a, n) => E::Field(bx(a, f), n.clone()),
        E::Mem(a, s) => E::Mem(bx(a, f), *s),
        E::PipeFn { arg, name, site } => E::PipeFn { arg: bx(arg, f), name: name.clone(), site: *site },
        E::Builtin(n, v) => E::Builtin(n.clone(), v.iter().map(|x| f(x)).collect()),
        E::Tuple(v) => E::Tuple(v.iter().map(|x| f(x)).collect()),
        E::CallFn { name, args, style, site } => {
            E::CallFn { name: name.clone(), args: args.iter().map(|x| f(x)).collect(), style: *style, site: *site }
        }
        E::CallVal(c, v) => {
            let c2 = bx(c, f);
            E::CallVal(c2, v.iter().map(|x| f(x)).collect())
        }
        E::If(c, a, b) => {
            let c2 = bx(c, f);
            let a2 = bx(a, f);
            let b2 = bx(b, f);
            E::If(c2, a2, b2)
        }
        E::Record(fs) => E::Record(fs.iter().map(|(n, x)| (n.clone(), f(x))).collect()),
        E::Lambda(ps, b) => E::Lambda(ps.clone(), Box::new(map_block(b, f))),
        E::Block(b) => E::Block(Box::new(map_block(b, f))),
        E::Delay(n, x, t, s) => {
            let x2 = bx(x, f);
            let t2 = bx(t, f);
            E::Delay(*n, x2, t2, *s)
        }
    }
}

/// Top-down rewrite: where `g` answers, its answer replaces the node (no descent).
fn rewrite(e: &E, g: &mut dyn FnMut(&E) -> Option<E>) -> E {
    if let Some(n) = g(e) {
        return n;
    }
    map_children(e, &mut |c| rewrite(c, g))
}
fn rewrite_block(b: &Block, g: &mut dyn FnMut(&E) -> Option<E>) -> Block {
    map_block(b, &mut |c| rewrite(c, g))
}
/// Bottom-up rewrite.
fn rewrite_up(e: &E, g: &mut dyn FnMut(E) -> E) -> E {
    let e2 = map_children(e, &mut |c| rewrite_up(c, g));
    g(e2)
}
fn rewrite_up_block(b: &Block, g: &mut dyn FnMut(E) -> E) -> Block {
    map_block(b, &mut |c| rewrite_up(c, g))
}

fn blk(e: E) -> E {
    E::Block(Box::new(Block { stmts: vec![], result: e }))
}
fn num(v: f64) -> E {
    E::Num(v, false)
}
fn bin(op: BinOp, a: E, b: E) -> E {
    E::Bin(op, Box::new(a), Box::new(b))
}
fn var(n: &str) -> E {
    E::Var(n.to_string())
}

fn pat_names(p: &Pat, out: &mut BTreeSet<String>) {
    match p {
        Pat::Var(v) => {
            out.insert(v.clone());
        }
        Pat::Tup(v) => v.iter().for_each(|x| pat_names(x, out)),
        Pat::Rec(v) => v.iter().for_each(|(_, b)| {
            out.insert(b.clone());
        }),
    }
}

/// (names bound inside `e`, variables used in order of first use, variables assigned)
fn names_of(e: &E) -> (BTreeSet<String>, Vec<String>, Vec<String>) {
    let mut bound = BTreeSet::new();
    let mut used: Vec<String> = vec![];
    let mut assigned: Vec<String> = vec![];
    visit(e, &mut |x| match x {
        E::Var(n) => {
            if !used.contains(n) {
                used.push(n.clone());
            }
        }
        E::Lambda(ps, b) => {
            for p in ps {
                bound.insert(p.name.clone());
            }
            for s in &b.stmts {
                match s {
                    Stmt::Let(p, _, _) => pat_names(p, &mut bound),
                    Stmt::Assign(n, _) => assigned.push(n.clone()),
                }
            }
        }
        E::Block(b) => {
            for s in &b.stmts {
                match s {
                    Stmt::Let(p, _, _) => pat_names(p, &mut bound),
                    Stmt::Assign(n, _) => assigned.push(n.clone()),
                }
            }
        }
        _ => {}
    });
    (bound, used, assigned)
}
fn free_vars(e: &E) -> Vec<String> {
    let (bound, used, _) = names_of(e);
    used.into_iter().filter(|n| !bound.contains(n)).collect()
}
fn assigns_outer(e: &E) -> bool {
    let (bound, _, assigned) = names_of(e);
    assigned.iter().any(|n| !bound.contains(n))
}
fn mentions_self(e: &E) -> bool {
    let mut f = false;
    visit(e, &mut |x| {
        if matches!(x, E::SelfE) {
            f = true
        }
    });
    f
}
fn mentions_fn(e: &E, name: &str) -> bool {
    let mut f = false;
    visit(e, &mut |x| match x {
        E::FnRef(n) if n == name => f = true,
        E::CallFn { name: n, .. } | E::PipeFn { name: n, .. } if n == name => f = true,
        E::Builtin(n, _) if n.starts_with(MK) && n.ends_with(&format!(":{name}")) => f = true,
        _ => {}
    });
    f
}
/// a projection / field access whose base is a variable free in `e` (or `self`): as an untyped
/// macro parameter its tuple / record type could not be inferred
fn projects_free_var(e: &E) -> bool {
    let fv = free_vars(e);
    let mut f = false;
    visit(e, &mut |x| {
        if let E::Proj(b, _) | E::Field(b, _) = x {
            match &**b {
                E::Var(n) if fv.contains(n) => f = true,
                E::SelfE => f = true,
                _ => {}
            }
        }
    });
    f
}
fn node_count(e: &E) -> usize {
    let mut n = 0;
    visit(e, &mut |_| n += 1);
    n
}
fn has_state(e: &E) -> bool {
    let mut f = false;
    visit(e, &mut |x| {
        if matches!(x, E::SelfE | E::Mem(..) | E::Delay(..)) {
            f = true
        }
    });
    f
}
fn form_name(e: &E) -> &'static str {
    match e {
        E::Num(_, true) => "lit-int",
        E::Num(..) => "lit-float",
        E::Var(_) => "var",
        E::Bin(op, ..) => match op {
            BinOp::Add | BinOp::Sub | BinOp::Mul | BinOp::Div | BinOp::Mod | BinOp::Pow => "binop-arith",
            BinOp::And | BinOp::Or => "binop-logic",
            _ => "binop-compare",
        },
        E::Neg(_) => "neg",
        E::Not(_) => "not",
        E::Builtin(..) => "builtin-call",
        E::CallFn { style: CallStyle::Positional, args, .. } => match args.len() {
            0 => "call-0",
            1 => "call-1",
            2 => "call-2",
            _ => "call-3+",
        },
        E::CallFn { .. } => "call-record-args",
        E::CallVal(..) => "call-fn-value",
        E::PipeFn { .. } | E::PipeVal(..) => "pipe",
        E::If(..) => "if",
        E::Tuple(_) => "tuple",
        E::Proj(..) => "projection",
        E::Record(_) => "record",
        E::Field(..) => "field-access",
        E::Lambda(ps, _) => {
            if ps.len() == 1 {
                "lambda-1"
            } else {
                "lambda-n"
            }
        }
        E::FnRef(_) => "fn-ref",
        E::Block(_) => "block",
        E::SelfE => "self",
        E::Mem(..) => "mem",
        E::Delay(..) => "delay",
        E::Now => "now",
        E::SampleRate => "samplerate",
    }
}

fn max_site(p: &Program) -> u32 {
    let mut m = 0u32;
    let mut f = |x: &E| match x {
        E::CallFn { site, .. } | E::PipeFn { site, .. } | E::Mem(_, site) | E::Delay(_, _, _, site) => m = m.max(*site),
        _ => {}
    };
    for (_, _, e) in p.pre_globals.iter().chain(p.globals.iter()) {
        visit(e, &mut f);
    }
    for fd in p.fns.iter().chain(std::iter::once(&p.dsp)) {
        crate::gens::shrink::visit_block_pub(&fd.body, &mut f);
    }
    m
}
/// a textual copy of `e` is a new set of call sites
fn copy_fresh_sites(e: &E, next: &mut u32) -> E {
    rewrite_up(e, &mut |x| match x {
        E::CallFn { name, args, style, .. } => {
            *next += 1;
            E::CallFn { name, args, style, site: *next }
        }
        E::PipeFn { arg, name, .. } => {
            *next += 1;
            E::PipeFn { arg, name, site: *next }
        }
        E::Mem(a, _) => {
            *next += 1;
            E::Mem(a, *next)
        }
        E::Delay(n, x, t, _) => {
            *next += 1;
            E::Delay(n, x, t, *next)
        }
        o => o,
    })
}

/// Evaluate a closed float expression with the reference interpreter ("stage 0" value).
fn eval_closed(e: &E) -> Option<f64> {
    let prog = Program {
        pre_globals: vec![],
        fns: vec![],
        globals: vec![],
        dsp: FnDef { name: "dsp".into(), params: vec![], ret: Ty::F, ret_annot: false, body: Block { stmts: vec![], result: e.clone() }, stateful: true },
        features: vec![],
    };
    match refsem::run(&prog, 1, &|_, _| 0.0) {
        Ok((v, _)) if v.len() == 1 => Some(v[0]),
        _ => None,
    }
}
/// can the G-AST printer write this value as a literal that reads back exactly?
fn printable_literal(v: f64) -> bool {
    v.is_finite() && (v > 0.0 || v.to_bits() == 0) && !format!("{v:?}").contains('e')
}
fn expr_text(e: &E) -> String {
    let mut p = Printer::new();
    p.expr(e);
    p.out
}

// ====================================================================== staging markers

/// A marker is `E::Builtin("c09:<kind>", [wrapped expression])`: the one description from
/// which the staged text (`Rend`) and the hand expansion (`erase`) are both produced.
const MK: &str = "c09:";

fn mark(kind: &str, e: E) -> E {
    E::Builtin(format!("{MK}{kind}"), vec![e])
}
fn as_marker(e: &E) -> Option<(&str, &[E])> {
    match e {
        E::Builtin(n, a) => n.strip_prefix(MK).map(|k| (k, a.as_slice())),
        _ => None,
    }
}
fn ctx_of(kind: &str) -> String {
    // context tag without numeric parameters / names
    let parts: Vec<&str> = kind.split(':').collect();
    match parts[0] {
        "rec" => format!("rec:{}", parts[1]),
        "lift" => format!("lift:{}", parts.get(1).copied().unwrap_or("")),
        _ => kind.to_string(),
    }
}

const W: &str = "c9w";

/// The hand expansion of marker `kind` around the (already expanded) expression `e`.
fn expand(kind: &str, e: E, next_site: &mut u32) -> E {
    let parts: Vec<&str> = kind.split(':').collect();
    let n: usize = parts.get(2).and_then(|s| s.parse().ok()).unwrap_or(1);
    match (parts[0], parts.get(1).copied().unwrap_or("")) {
        ("qs", "b") => blk(e),
        ("qs", "p") => e,
        ("qs", "n") => blk(blk(e)),
        ("mac", _) => blk(e),
        ("letc", "1a") => blk(e),
        ("letc", "1b") => blk(blk(e)),
        ("letc", "2") => {
            let c = copy_fresh_sites(&e, next_site);
            blk(bin(BinOp::Add, blk(e), blk(c)))
        }
        ("letc", "3") => {
            let c1 = copy_fresh_sites(&e, next_site);
            let c2 = copy_fresh_sites(&e, next_site);
            blk(bin(BinOp::Sub, bin(BinOp::Add, blk(e), blk(c1)), blk(c2)))
        }
        ("fn", "id") => blk(e),
        ("fn", "app") => E::Block(Box::new(Block { stmts: vec![Stmt::Let(Pat::Var(W.into()), None, blk(e))], result: var(W) })),
        ("fn", "mul") => blk(bin(BinOp::Mul, blk(e), num(2.0))),
        ("fn", "twice") => blk(bin(BinOp::Add, blk(bin(BinOp::Add, blk(e), num(1.0))), num(1.0))),
        ("fn", "glob") => blk(bin(BinOp::Mul, blk(e), num(0.5))),
        ("rec", "rep") => {
            let mut acc = num(0.0);
            for k in 0..n {
                let c = if k == 0 { e.clone() } else { copy_fresh_sites(&e, next_site) };
                acc = blk(bin(BinOp::Add, acc, blk(c)));
            }
            acc
        }
        ("rec", "nest") => {
            let mut acc = blk(e);
            for _ in 0..n {
                acc = E::Block(Box::new(Block { stmts: vec![Stmt::Let(Pat::Var(W.into()), None, acc)], result: var(W) }));
            }
            acc
        }
        ("rec", "pow") => {
            let mut body = num(1.0);
            for _ in 0..n {
                body = blk(bin(BinOp::Mul, body, var("c9x")));
            }
            let lam = E::Lambda(
                vec![Param { name: "c9x".into(), ty: Ty::F, annot: true, default: None }],
                Box::new(Block { stmts: vec![], result: body }),
            );
            E::CallVal(Box::new(blk(lam)), vec![e])
        }
        ("rec", "iter") => {
            let fname = parts.get(3).copied().unwrap_or("");
            let mut acc = blk(e);
            for _ in 0..n {
                *next_site += 1;
                acc = blk(E::CallFn { name: fname.to_string(), args: vec![acc], style: CallStyle::Positional, site: *next_site });
            }
            acc
        }
        ("lift", _) => match eval_closed(&e) {
            Some(v) if printable_literal(v) => num(v),
            // not writable as a literal of the language: the run-time computation stands in
            _ => e,
        },
        _ => e,
    }
}

/// Remove all markers: the G-AST of the hand expansion.
fn erase_expr(e: &E, next_site: &mut u32) -> E {
    rewrite_up(e, &mut |x| {
        let kind = as_marker(&x).map(|(k, _)| k.to_string());
        match (kind, x) {
            (Some(k), E::Builtin(_, mut a)) if a.len() == 1 => expand(&k, a.remove(0), next_site),
            (_, x) => x,
        }
    })
}
pub fn erase(p: &Program) -> Program {
    let mut next = max_site(p) + 1000;
    let mut q = p.clone();
    for (_, _, e) in q.pre_globals.iter_mut() {
        *e = erase_expr(e, &mut next);
    }
    for f in q.fns.iter_mut() {
        f.body = map_block(&f.body, &mut |c| erase_expr(c, &mut next));
    }
    for (_, _, e) in q.globals.iter_mut() {
        *e = erase_expr(e, &mut next);
    }
    q.dsp.body = map_block(&q.dsp.body, &mut |c| erase_expr(c, &mut next));
    q
}
fn marker_kinds(p: &Program) -> Vec<(String, &'static str)> {
    let mut out = vec![];
    let mut f = |x: &E| {
        if let Some((k, a)) = as_marker(x) {
            out.push((k.to_string(), a.first().map(form_name).unwrap_or("none")));
        }
    };
    for (_, _, e) in p.pre_globals.iter().chain(p.globals.iter()) {
        visit(e, &mut f);
    }
    for fd in p.fns.iter().chain(std::iter::once(&p.dsp)) {
        crate::gens::shrink::visit_block_pub(&fd.body, &mut f);
    }
    out
}

// ====================================================================== staged text

const HELPERS: [(&str, &str); 9] = [
    ("c9_id", "fn c9_id(c){ c }"),
    ("c9_app", "fn c9_app(f, c){ f(c) }"),
    ("c9_twice", "fn c9_twice(f, c){ f(f(c)) }"),
    ("c9_half", "let c9_half = |c| `{ ($c) * 0.5 }"),
    ("c9_rep", "fn c9_rep(n, c){\n  if (n > 0.0) {\n    `{ $(c9_rep(n - 1.0, c)) + $c }\n  } else {\n    `0.0\n  }\n}"),
    ("c9_nest", "fn c9_nest(n, c){\n  if (n > 0.0) {\n    `{ let c9w = $(c9_nest(n - 1.0, c))\n      c9w }\n  } else {\n    c\n  }\n}"),
    ("c9_powaux", "fn c9_powaux(n, x){\n  if (n > 0.0) {\n    `{ $(c9_powaux(n - 1.0, x)) * $x }\n  } else {\n    `1.0\n  }\n}"),
    ("c9_pow", "fn c9_pow(n){ `{ |c9x:float| $(c9_powaux(n, `c9x)) } }"),
    ("c9_iter", "fn c9_iter(n, f, c){\n  if (n > 0.0) {\n    c9_iter(n - 1.0, f, `{ ($f)($c) })\n  } else {\n    c\n  }\n}"),
];

fn helper_section(used: &BTreeSet<&'static str>) -> String {
    let mut s = String::new();
    if used.is_empty() {
        return s;
    }
    s.push_str("#stage(macro)\n");
    for (n, d) in HELPERS.iter() {
        // c9_pow needs c9_powaux
        if used.contains(n) || (*n == "c9_powaux" && used.contains("c9_pow")) {
            s.push_str(d);
            s.push('\n');
        }
    }
    s.push_str("#stage(main)\n");
    s
}

struct Rend {
    /// macro-stage definitions needed by the item being printed
    defs: Vec<String>,
    /// helper definitions (macro stage, top of the file) in order of first use
    hdefs: Vec<String>,
    hseen: BTreeSet<String>,
    nid: usize,
    tags: Vec<String>,
}

fn ph(k: usize) -> String {
    format!("\u{1}{k}\u{2}")
}

impl Rend {
    fn new() -> Rend {
        Rend { defs: vec![], hdefs: vec![], hseen: BTreeSet::new(), nid: 0, tags: vec![] }
    }
    fn fill(&mut self, mut s: String, found: Vec<E>) -> String {
        for (k, m) in found.iter().enumerate() {
            let t = self.marker(m);
            s = s.replace(&ph(k), &format!("({t})"));
        }
        s
    }
    /// text of an expression that may contain markers
    fn text(&mut self, e: &E) -> String {
        let mut found: Vec<E> = vec![];
        let e2 = rewrite(e, &mut |x| {
            if as_marker(x).is_some() {
                found.push(x.clone());
                Some(E::Var(ph(found.len() - 1)))
            } else {
                None
            }
        });
        let s = expr_text(&e2);
        self.fill(s, found)
    }
    fn fn_text(&mut self, f: &FnDef) -> String {
        let mut found: Vec<E> = vec![];
        let body = rewrite_block(&f.body, &mut |x| {
            if as_marker(x).is_some() {
                found.push(x.clone());
                Some(E::Var(ph(found.len() - 1)))
            } else {
                None
            }
        });
        let mut p = Printer::new();
        p.fndef(&FnDef { body, ..f.clone() });
        let s = p.out;
        self.fill(s, found)
    }
    fn id(&mut self) -> usize {
        self.nid += 1;
        self.nid
    }
    /// Name of a macro-stage helper. User functions are monomorphic, so a helper that is generic in
    /// the type of the code it handles gets one instance per use.
    fn helper(&mut self, base: &'static str, generic: bool) -> String {
        let name = if generic { format!("{base}_{}", self.id()) } else { base.to_string() };
        if self.hseen.insert(name.clone()) {
            if base == "c9_pow" && self.hseen.insert("c9_powaux".into()) {
                self.hdefs.push(HELPERS.iter().find(|h| h.0 == "c9_powaux").unwrap().1.to_string());
            }
            let def = HELPERS.iter().find(|h| h.0 == base).unwrap().1;
            self.hdefs.push(def.replace(base, &name));
        }
        name
    }
    fn helper_section(&self) -> String {
        if self.hdefs.is_empty() {
            return String::new();
        }
        format!("#stage(macro)\n{}\n#stage(main)\n", self.hdefs.join("\n"))
    }
    /// staged spelling of one marker (without the surrounding parentheses)
    fn marker(&mut self, m: &E) -> String {
        let (kind, args) = as_marker(m).expect("marker");
        let kind = kind.to_string();
        let e = &args[0];
        self.tags.push(format!("{}×{}", form_name(e), ctx_of(&kind)));
        let parts: Vec<&str> = kind.split(':').collect();
        let n: usize = parts.get(2).and_then(|s| s.parse().ok()).unwrap_or(1);
        match (parts[0], parts.get(1).copied().unwrap_or("")) {
            ("qs", "b") => format!("$(`{{ {} }})", self.text(e)),
            ("qs", "p") => format!("$(`({}))", self.text(e)),
            ("qs", "n") => format!("$(`{{ $(`{{ {} }}) }})", self.text(e)),
            ("mac", sugar) => {
                let id = self.id();
                let fv = free_vars(e);
                let mut map: HashMap<String, String> = HashMap::new();
                let mut params: Vec<String> = vec![];
                let mut cargs: Vec<String> = vec![];
                for (i, v) in fv.iter().enumerate() {
                    let p = format!("c9a{id}_{i}");
                    map.insert(v.clone(), format!("(${p})"));
                    cargs.push(format!("`{v}"));
                    params.push(p);
                }
                let self_param = if mentions_self(e) {
                    let p = format!("c9s{id}");
                    cargs.push("`self".into());
                    params.push(p.clone());
                    Some(format!("(${p})"))
                } else {
                    None
                };
                let e2 = rewrite(e, &mut |x| match x {
                    E::Var(n) => map.get(n).map(|r| E::Var(r.clone())),
                    E::SelfE => self_param.as_ref().map(|r| E::Var(r.clone())),
                    _ => None,
                });
                let body = self.text(&e2);
                self.defs.push(format!("fn c9_m{id}({}){{\n  `{{ {body} }}\n}}", params.join(", ")));
                if sugar == "1" {
                    format!("c9_m{id}!({})", cargs.join(", "))
                } else {
                    format!("$(c9_m{id}({}))", cargs.join(", "))
                }
            }
            ("letc", k) => {
                let id = self.id();
                let c = format!("c9c{id}");
                let t = self.text(e);
                let sp = format!("(${c})");
                let body = match k {
                    "1a" => c.clone(),
                    "1b" => format!("`{{ {sp} }}"),
                    "2" => format!("`{{ ({sp} + {sp}) }}"),
                    _ => format!("`{{ (({sp} + {sp}) - {sp}) }}"),
                };
                format!("$({{ let {c} = `{{ {t} }}\n {body} }})")
            }
            ("fn", "id") => {
                let h = self.helper("c9_id", true);
                format!("{h}!(`{{ {} }})", self.text(e))
            }
            ("fn", "app") => {
                let h = self.helper("c9_app", true);
                format!("{h}!(|c| `{{ let {W} = $c\n {W} }}, `{{ {} }})", self.text(e))
            }
            ("fn", "mul") => {
                let h = self.helper("c9_app", true);
                format!("$({h}(|c| `{{ ($c) * 2.0 }}, `{{ {} }}))", self.text(e))
            }
            ("fn", "twice") => {
                self.helper("c9_twice", false);
                format!("c9_twice!(|c| `{{ ($c) + 1.0 }}, `{{ {} }})", self.text(e))
            }
            ("fn", "glob") => {
                self.helper("c9_half", false);
                format!("$(c9_half(`{{ {} }}))", self.text(e))
            }
            ("rec", "rep") => {
                self.helper("c9_rep", false);
                format!("c9_rep!({n}.0, `{{ {} }})", self.text(e))
            }
            ("rec", "nest") => {
                let h = self.helper("c9_nest", true);
                format!("$({h}({n}.0, `{{ {} }}))", self.text(e))
            }
            ("rec", "pow") => {
                self.helper("c9_pow", false);
                format!("(c9_pow!({n}.0))({})", self.text(e))
            }
            ("rec", "iter") => {
                self.helper("c9_iter", false);
                let fname = parts.get(3).copied().unwrap_or("");
                format!("c9_iter!({n}.0, `{fname}, `{{ {} }})", self.text(e))
            }
            ("lift", sp) => {
                let a = expr_text(e);
                match sp {
                    "splice" => format!("$(lift_f({a}))"),
                    "bang" => format!("lift_f!({a})"),
                    "pipe" => format!("$(({a}) |> lift_f)"),
                    "poly" => format!("lift!({a})"),
                    "let" => format!("$({{ let c9t = {a}\n lift_f(c9t) }})"),
                    _ => {
                        let id = self.id();
                        self.defs.push(format!("fn c9_l{id}(){{ lift_f({a}) }}"));
                        format!("c9_l{id}!()")
                    }
                }
            }
            _ => self.text(e),
        }
    }
    fn flush_defs(&mut self, out: &mut String) {
        if !self.defs.is_empty() {
            out.push_str("#stage(macro)\n");
            for d in self.defs.drain(..) {
                out.push_str(&d);
                out.push('\n');
            }
            out.push_str("#stage(main)\n");
        }
    }
}

/// staged text + tags of a marked program
pub fn render_staged(p: &Program) -> (String, Vec<String>) {
    let mut r = Rend::new();
    let mut body = String::new();
    for (n, _t, e) in &p.pre_globals {
        let t = r.text(e);
        r.flush_defs(&mut body);
        body.push_str(&format!("let {n} = {t}\n"));
    }
    for f in &p.fns {
        let t = r.fn_text(f);
        r.flush_defs(&mut body);
        body.push_str(&t);
    }
    for (n, _t, e) in &p.globals {
        let t = r.text(e);
        r.flush_defs(&mut body);
        body.push_str(&format!("let {n} = {t}\n"));
    }
    let t = r.fn_text(&p.dsp);
    r.flush_defs(&mut body);
    body.push_str(&t);
    (format!("{}{}", r.helper_section(), body), r.tags)
}

// ====================================================================== record patterns (quarantine)

/// `let {p = a, q = b} = e` -> `let c9rK = e; let a = c9rK.p; let b = c9rK.q`
/// (generator-side avoidance of the known finding `record-pattern-in-quote`).
fn desugar_stmts(b: Block, k: &mut usize) -> Block {
    let mut stmts = vec![];
    for s in b.stmts {
        match s {
            Stmt::Let(Pat::Rec(fields), _, e) => {
                *k += 1;
                let tmp = format!("c9r{k}");
                stmts.push(Stmt::Let(Pat::Var(tmp.clone()), None, e));
                for (f, bnd) in fields {
                    stmts.push(Stmt::Let(Pat::Var(bnd), None, E::Field(Box::new(E::Var(tmp.clone())), f)));
                }
            }
            o => stmts.push(o),
        }
    }
    Block { stmts, result: b.result }
}
fn desugar_expr(e: &E, k: &mut usize) -> E {
    let e2 = map_children(e, &mut |c| desugar_expr(c, k));
    match e2 {
        E::Block(b) => E::Block(Box::new(desugar_stmts(*b, k))),
        E::Lambda(ps, b) => E::Lambda(ps, Box::new(desugar_stmts(*b, k))),
        o => o,
    }
}
fn desugar_record_patterns(p: &Program) -> Program {
    let mut k = 0usize;
    let mut q = p.clone();
    for (_, _, e) in q.pre_globals.iter_mut().chain(q.globals.iter_mut()) {
        *e = desugar_expr(e, &mut k);
    }
    for f in q.fns.iter_mut().chain(std::iter::once(&mut q.dsp)) {
        let b = map_block(&f.body, &mut |c| desugar_expr(c, &mut k));
        f.body = desugar_stmts(b, &mut k);
    }
    q
}
fn has_record_pattern(p: &Program) -> bool {
    p.features.iter().any(|f| f == "let_record_pattern")
}

// ====================================================================== marker insertion

#[derive(Clone, Debug)]
struct Cand {
    idx: usize,
    is_f: bool,
    weight: u32,
    mac_ok: bool,
    size: usize,
    is_num: bool,
    item: usize,
    /// contexts that change the value (copies, x^n, lifted arithmetic) are allowed here
    value_ok: bool,
}

struct Walk<'a> {
    next: usize,
    cands: Vec<Cand>,
    chosen: Option<&'a BTreeMap<usize, String>>,
    encl: String,
    item: usize,
    prog: &'a Program,
    /// >0: inside a recursion guard / delay time, where only meaning-preserving contexts may go
    novalue: u32,
}

fn intrinsic_float(e: &E) -> bool {
    matches!(e, E::Num(..) | E::Bin(..) | E::Neg(_) | E::Not(_) | E::Mem(..) | E::Delay(..) | E::Now | E::SampleRate)
        || matches!(e, E::Builtin(n, _) if !n.starts_with(MK))
}

impl<'a> Walk<'a> {
    fn block(&mut self, b: &Block, fres: bool) -> Block {
        let mut stmts = vec![];
        for s in &b.stmts {
            stmts.push(match s {
                Stmt::Let(p, t, e) => {
                    let f = matches!(p, Pat::Var(_)) && *t == Some(Ty::F);
                    Stmt::Let(p.clone(), t.clone(), self.expr(e, f))
                }
                Stmt::Assign(n, e) => Stmt::Assign(n.clone(), self.expr(e, true)),
            });
        }
        let result = self.expr(&b.result, fres);
        Block { stmts, result }
    }
    fn args_of(&mut self, name: &str, args: &[E]) -> Vec<E> {
        let tys: Vec<bool> = match self.prog.find_fn(name) {
            Some(fd) => fd.params.iter().map(|p| p.ty == Ty::F).collect(),
            None => vec![],
        };
        let mut out = vec![];
        for (i, a) in args.iter().enumerate() {
            // the first argument of a bounded-recursion helper is its counter
            let guard = i == 0 && name.starts_with("rf");
            self.novalue += guard as u32;
            out.push(self.expr(a, tys.get(i).copied().unwrap_or(false)));
            self.novalue -= guard as u32;
        }
        out
    }
    fn expr(&mut self, e: &E, fpos: bool) -> E {
        let idx = self.next;
        self.next += 1;
        let is_f = fpos || intrinsic_float(e);
        let bx = |x: E| Box::new(x);
        let e2 = match e {
            E::Num(..) | E::Var(_) | E::FnRef(_) | E::SelfE | E::Now | E::SampleRate => e.clone(),
            E::Bin(op, a, b) => {
                let a2 = self.expr(a, true);
                let b2 = self.expr(b, true);
                E::Bin(*op, bx(a2), bx(b2))
            }
            E::Neg(a) => E::Neg(bx(self.expr(a, true))),
            E::Not(a) => E::Not(bx(self.expr(a, true))),
            E::Mem(a, s) => E::Mem(bx(self.expr(a, true)), *s),
            E::Delay(n, x, t, s) => {
                let x2 = self.expr(x, true);
                self.novalue += 1;
                let t2 = self.expr(t, true);
                self.novalue -= 1;
                E::Delay(*n, bx(x2), bx(t2), *s)
            }
            E::Builtin(n, v) => E::Builtin(n.clone(), v.iter().map(|x| self.expr(x, true)).collect()),
            E::CallFn { name, args, style, site } => {
                let args2 = match (style, args.first()) {
                    (CallStyle::Positional, _) => self.args_of(name, args),
                    (_, Some(E::Record(fs))) => {
                        // the record literal is call syntax, not an expression position
                        vec![E::Record(fs.iter().map(|(n, x)| (n.clone(), self.expr(x, false))).collect())]
                    }
                    _ => args.clone(),
                };
                E::CallFn { name: name.clone(), args: args2, style: *style, site: *site }
            }
            E::PipeFn { arg, name, site } => {
                let a2 = self.args_of(name, std::slice::from_ref(arg)).remove(0);
                E::PipeFn { arg: bx(a2), name: name.clone(), site: *site }
            }
            E::CallVal(c, v) => {
                let c2 = self.expr(c, false);
                E::CallVal(bx(c2), v.iter().map(|x| self.expr(x, false)).collect())
            }
            E::PipeVal(a, b) => {
                let a2 = self.expr(a, false);
                let b2 = self.expr(b, false);
                E::PipeVal(bx(a2), bx(b2))
            }
            E::If(c, a, b) => {
                let c2 = self.expr(c, true);
                let a2 = self.expr(a, is_f);
                let b2 = self.expr(b, is_f);
                E::If(bx(c2), bx(a2), bx(b2))
            }
            E::Tuple(v) => E::Tuple(v.iter().map(|x| self.expr(x, false)).collect()),
            E::Record(fs) => E::Record(fs.iter().map(|(n, x)| (n.clone(), self.expr(x, false))).collect()),
            E::Proj(a, i) => E::Proj(bx(self.expr(a, false)), *i),
            E::Field(a, n) => E::Field(bx(self.expr(a, false)), n.clone()),
            E::Lambda(ps, b) => E::Lambda(ps.clone(), Box::new(self.block(b, false))),
            E::Block(b) => E::Block(Box::new(self.block(b, is_f))),
        };
        // `{ x = e ...` standing alone would be read as a record literal (the generator only
        // produces such blocks as if-arms): not a position for a marker
        let assign_block = matches!(e, E::Block(b) if matches!(b.stmts.first(), Some(Stmt::Assign(..))));
        match self.chosen {
            None if assign_block => e2,
            None => {
                let leaf = matches!(e, E::Num(..) | E::Var(_) | E::FnRef(_) | E::Now | E::SampleRate);
                let weight = if has_state(e) { 6 } else if leaf { 1 } else { 3 };
                self.cands.push(Cand {
                    idx,
                    is_f,
                    weight,
                    mac_ok: !assigns_outer(e) && (self.encl.is_empty() || !mentions_fn(e, &self.encl)) && !projects_free_var(e),
                    size: node_count(e),
                    is_num: matches!(e, E::Num(..)),
                    item: self.item,
                    value_ok: self.novalue == 0,
                });
                e2
            }
            Some(ch) => match ch.get(&idx) {
                Some(kind) if kind.starts_with("lift:") => {
                    // the literal becomes macro-stage arithmetic on it
                    let E::Num(v, _) = e else { return e2 };
                    let k = kind.as_bytes().last().copied().unwrap_or(b'0') - b'0';
                    let a = lift_arith(*v, k as usize);
                    mark(kind.rsplit_once(':').map(|x| x.0).unwrap_or(kind), a)
                }
                Some(kind) => mark(kind, e2),
                None => e2,
            },
        }
    }
    fn program(&mut self) -> Program {
        let p = self.prog;
        let mut q = p.clone();
        let mut item = 0;
        for (i, (_, t, e)) in p.pre_globals.iter().enumerate() {
            self.item = item;
            self.encl = String::new();
            q.pre_globals[i].2 = self.expr(e, *t == Ty::F);
            item += 1;
        }
        for (i, f) in p.fns.iter().enumerate() {
            self.item = item;
            self.encl = f.name.clone();
            self.novalue = f.name.starts_with("rf") as u32;
            q.fns[i].body = self.block(&f.body, f.ret == Ty::F);
            self.novalue = 0;
            item += 1;
        }
        for (i, (_, t, e)) in p.globals.iter().enumerate() {
            self.item = item;
            self.encl = String::new();
            q.globals[i].2 = self.expr(e, *t == Ty::F);
            item += 1;
        }
        self.item = item;
        self.encl = "dsp".into();
        q.dsp.body = self.block(&p.dsp.body, p.dsp.ret == Ty::F);
        q
    }
}

/// macro-stage arithmetic around a literal of the program
fn lift_arith(v: f64, k: usize) -> E {
    match k % 6 {
        0 => bin(BinOp::Add, num(v), num(0.1)),
        1 => bin(BinOp::Div, num(v), num(3.0)),
        2 => bin(BinOp::Mul, bin(BinOp::Add, num(v), num(0.2)), num(0.7)),
        3 => E::Builtin("sqrt".into(), vec![bin(BinOp::Add, num(v), num(2.0))]),
        4 => bin(BinOp::Sub, bin(BinOp::Mul, num(v), num(1.1)), num(0.3)),
        _ => num(v),
    }
}

/// pure named functions float -> float defined before item `item` (print order)
fn pure_unary_fns(p: &Program, item: usize) -> Vec<String> {
    let npg = p.pre_globals.len();
    p.fns
        .iter()
        .enumerate()
        .filter(|(i, f)| {
            npg + i < item && !f.stateful && f.ret == Ty::F && f.params.len() == 1 && f.params[0].ty == Ty::F && f.params[0].default.is_none()
                && !f.name.starts_with("rf")
        })
        .map(|(_, f)| f.name.clone())
        .collect()
}

fn choose_kind(c: &Cand, p: &Program, rng: &mut Rng) -> String {
    if c.is_num && c.value_ok && rng.chance(1, 2) {
        let sp = *rng.pick(&["splice", "bang", "pipe", "poly", "let", "fn"]);
        return format!("lift:{sp}:{}", rng.below(6));
    }
    let mut ks: Vec<String> = vec!["qs:b".into(), "qs:p".into(), "qs:n".into(), "letc:1a".into(), "letc:1b".into(), "fn:id".into(), "fn:app".into()];
    ks.push(format!("rec:nest:{}", 1 + rng.below(8)));
    if c.mac_ok {
        // weight the macro-call contexts up
        for _ in 0..2 {
            ks.push("mac:0".into());
            ks.push("mac:1".into());
        }
    }
    if c.is_f && c.value_ok {
        ks.push("fn:mul".into());
        ks.push("fn:twice".into());
        ks.push("fn:glob".into());
        ks.push(format!("rec:pow:{}", rng.below(9)));
        if c.size <= 40 {
            ks.push("letc:2".into());
            ks.push("letc:3".into());
            ks.push(format!("rec:rep:{}", rng.below(9)));
        }
        let fns = pure_unary_fns(p, c.item);
        if !fns.is_empty() {
            ks.push(format!("rec:iter:{}:{}", rng.below(9), rng.pick(&fns)));
        }
    }
    rng.pick(&ks).clone()
}

pub fn insert_markers(p: &Program, rng: &mut Rng, max_markers: usize) -> Program {
    let mut w = Walk { next: 0, cands: vec![], chosen: None, encl: String::new(), item: 0, prog: p, novalue: 0 };
    let _ = w.program();
    let cands = w.cands;
    if cands.is_empty() {
        return p.clone();
    }
    let want = 1 + rng.below(max_markers);
    let weights: Vec<u32> = cands.iter().map(|c| c.weight).collect();
    let mut chosen: BTreeMap<usize, String> = BTreeMap::new();
    for _ in 0..want {
        let c = &cands[rng.weighted(&weights)];
        if chosen.contains_key(&c.idx) {
            continue;
        }
        let k = choose_kind(c, p, rng);
        chosen.insert(c.idx, k);
    }
    let mut w2 = Walk { next: 0, cands: vec![], chosen: Some(&chosen), encl: String::new(), item: 0, prog: p, novalue: 0 };
    w2.program()
}

// ====================================================================== form table (text templates)

/// One core expression form as text. `prog` is a whole program with `@` where the expression
/// goes and a line `#M#` where macro-stage definitions may be inserted (before the function that
/// contains the hole, after everything the expression refers to). In `expr`, `%name` marks a
/// local variable of the hole's scope (`%self` = self): macro-call contexts abstract over them.
struct Form {
    name: &'static str,
    prog: &'static str,
    expr: &'static str,
}

const DSP: &str = "#M#\nfn dsp(c9in:float){\n  let a = c9in * 0.5 + 1.25\n  let b = now + 2.0\n  let r = {p = a, q = 3.0}\n  let t = (b, (a, 7.0))\n  @\n}\n";

macro_rules! form {
    ($n:expr, $pre:expr, $e:expr) => {
        Form { name: $n, prog: concat!($pre, "\u{3}"), expr: $e }
    };
}

fn forms() -> Vec<Form> {
    // "\u{3}" stands for the default dsp with the bare hole as result
    vec![
        form!("lit-float", "", "1.5"),
        form!("lit-int", "", "7"),
        form!("lit-float-many-digits", "", "0.30000000000000004 + 123456.789"),
        Form { name: "lit-string", prog: "#M#\nfn dsp(c9in:float){\n  let a = c9in + 1.0\n  let s = @\n  a\n}\n", expr: "\"abc def\"" },
        form!("var", "", "%a"),
        form!("var-global", "let c9g = 3.5\n", "c9g + %a"),
        form!("apply-0", "fn c9f0(){ 42.0 }\n", "c9f0()"),
        form!("apply-1", "fn c9f1(x){ x * 2.0 + 1.0 }\n", "c9f1(%a)"),
        form!("apply-2", "fn c9f2(x, y){ x * 10.0 - y }\n", "c9f2(%a, %b)"),
        form!("apply-3", "fn c9f3(x, y, z){ x * 100.0 + y * 10.0 + z }\n", "c9f3(%a, %b, 1.0)"),
        form!("apply-5", "fn c9f5(x, y, z, u, v){ x + y * 2.0 + z * 3.0 + u * 4.0 + v * 5.0 }\n", "c9f5(%a, %b, 1.0, %a, 2.0)"),
        form!("apply-builtin", "", "sin(%a) + max(%a, %b)"),
        form!("binop-arith", "", "%a * %b - %a / 3.0 + %b ^ 2.0"),
        form!("binop-compare-logic", "", "(%a > %b) + (%a <= 2.0) * 2.0 + ((%a >= 1.0) && (%b != 2.0)) * 4.0 + ((%a == 1.25) || (%b < 0.0)) * 8.0"),
        form!("unary-minus", "", "-%a + (-(%b * 2.0))"),
        form!("apply-tuple-arg", "fn c9f2(x, y){ x * 10.0 - y }\n", "c9f2((%a, %b))"),
        form!("apply-default-arg", "fn c9fd(x:float, y:float = 5.0){ x * 10.0 + y }\n", "c9fd({x = %a}) + c9fd({x = %a, y = %b})"),
        form!("apply-hof", "fn c9f1(x){ x * 2.0 + 1.0 }\nfn c9h(f:(float)->float, x){ f(f(x)) }\n", "c9h(c9f1, %a) + c9h(|z| z - %b, 1.0)"),
        form!("lambda-0", "", "(| | %a + 1.0)()"),
        form!("lambda-1", "", "(|x| x * %a)(2.0)"),
        form!("lambda-n", "", "(|x, y, z| x * y + %a - z)(2.0, %b, 1.0)"),
        form!("lambda-typed", "", "(|x:float, y:float| -> float { x - y })(%a, %b)"),
        form!("lambda-closure-capture", "", "{ let k = %a * 2.0\n let c9l = |x| x + k\n c9l(1.0) + c9l(%b) }"),
        form!("let-single", "", "{ let u = %a * 2.0\n u + 1.0 }"),
        form!("let-typed", "", "{ let u:float = %a\n u - 1.0 }"),
        form!("let-tuple", "", "{ let (u, w) = (%a, %b)\n u * 10.0 + w }"),
        form!("let-tuple-nested", "", "{ let (u, (w, z)) = %t\n u * 100.0 + w * 10.0 + z }"),
        form!("let-tuple-nested-deep", "", "{ let ((u, w), (x, (y, z))) = ((%a, 2.0), (%b, (4.0, 5.0)))\n u + w * 2.0 + x * 3.0 + y * 4.0 + z * 5.0 }"),
        // nested sub-patterns at every combination of positions (a desugaring temporary must be unique
        // per sub-pattern, not per position): each leaf has its own prime weight
        form!("let-tuple-shape-left-deep", "", "{ let ((u, (w, x)), (y, z)) = ((%a, (2.0, 3.0)), (%b, 5.0))\n u + w * 2.0 + x * 3.0 + y * 5.0 + z * 7.0 }"),
        form!("let-tuple-shape-3level-left", "", "{ let (((u, w), x), (y, z)) = (((%a, 2.0), 3.0), (%b, 5.0))\n u + w * 2.0 + x * 3.0 + y * 5.0 + z * 7.0 }"),
        form!("let-tuple-shape-both-deep", "", "{ let ((u, (w, x)), (y, (z, v))) = ((%a, (2.0, 3.0)), (%b, (5.0, 6.0)))\n u + w * 2.0 + x * 3.0 + y * 5.0 + z * 7.0 + v * 11.0 }"),
        form!("let-tuple-shape-triple", "", "{ let (u, (w, x), (y, z)) = (%a, (2.0, 3.0), (%b, 5.0))\n u + w * 2.0 + x * 3.0 + y * 5.0 + z * 7.0 }"),
        form!("let-tuple-shape-middle-deep", "", "{ let ((u, w), (x, (y, z)), (v, k)) = ((%a, 2.0), (3.0, (%b, 5.0)), (6.0, 7.0))\n u + w * 2.0 + x * 3.0 + y * 5.0 + z * 7.0 + v * 11.0 + k * 13.0 }"),
        form!("let-tuple-shape-4level", "", "{ let (u, (w, (x, (y, z)))) = (%a, (2.0, (3.0, (%b, 5.0))))\n u + w * 2.0 + x * 3.0 + y * 5.0 + z * 7.0 }"),
        form!("let-tuple-two-nested-lets", "", "{ let (u, (w, x)) = (%a, (2.0, 3.0))\n let ((y, z), v) = ((%b, 5.0), 6.0)\n u + w * 2.0 + x * 3.0 + y * 5.0 + z * 7.0 + v * 11.0 }"),
        form!("let-tuple-nested-in-lambda", "", "(|c9p| { let ((u, (w, x)), (y, z)) = ((c9p, (2.0, 3.0)), (%b, 5.0))\n u + w * 2.0 + x * 3.0 + y * 5.0 + z * 7.0 })(%a)"),
        form!("let-record", "", "{ let {p = u, q = w} = %r\n u * 10.0 + w }"),
        form!("let-placeholder", "", "{ let _ = %a\n %b }"),
        form!("let-tuple-placeholder", "", "{ let (u, _) = (%a, %b)\n u }"),
        form!("let-shadowing", "", "{ let u = %a\n let u = u + 1.0\n let u = u * 2.0\n u }"),
        form!("letrec", "", "{ letrec c9fact = |n:float| -> float { if (n > 0.0) n * c9fact(n - 1.0) else 1.0 }\n c9fact(4.0) + %a }"),
        form!("if-else", "", "if (%a > 1.5) { %a } else { %b }"),
        form!("if-else-blocks", "", "if (%a > 1.5) { let u = %a\n u * 2.0 } else { %b + 1.0 }"),
        form!("if-else-if", "", "if (%a > 3.0) 1.0 else if (%a > 1.5) 2.0 else 3.0"),
        form!("if-else-no-braces", "", "if (%a * 2.0 > 3.0) 1.0 + %b else 2.0 * %b"),
        form!("if-nested", "", "if (%a > 1.0) { if (%b > 3.0) 10.0 else 20.0 } else { 30.0 }"),
        form!("if-without-else", "", "{ let u = %a\n if (%b > 3.0) { u = 100.0 }\n u }"),
        form!("sequence-assign", "", "{ let u = 1.0\n u = %a\n u = u + %b\n u }"),
        form!("assign-captured", "", "{ let u = %a\n let inc = | | { u = u + 1.0\n u }\n inc() + inc() * 10.0 }"),
        form!("tuple", "", "{ let c9t = (%a, %b, 3.0)\n c9t.0 + c9t.1 * 10.0 + c9t.2 * 100.0 }"),
        form!("tuple-nested", "", "{ let c9t = ((%a, 5.0), %b)\n c9t.0.1 + c9t.1 * 10.0 + c9t.0.0 * 100.0 }"),
        form!("projection", "", "%t.0 + %t.1.1"),
        form!("array-literal", "", "{ let c9arr = [%a, %b, 3.0]\n c9arr[0] + c9arr[1] * 10.0 + c9arr[2] * 100.0 }"),
        form!("array-access", "let c9garr = [10.0, 20.0, 40.0]\n", "c9garr[1] + c9garr[0] * %a"),
        form!("array-access-computed", "let c9garr = [10.0, 20.0, 40.0]\n", "c9garr[%a - %a + 2.0]"),
        form!("record-literal", "", "{ let c9r = {p = %a, q = %b}\n c9r.p * 10.0 + c9r.q }"),
        form!("record-literal-shuffled", "", "{ let c9r = {q = %b, p = %a}\n c9r.p * 10.0 + c9r.q }"),
        form!("record-update", "", "{ let c9q = %r\n let c9r = { c9q <- q = %b }\n c9r.p * 10.0 + c9r.q + c9q.q * 100.0 }"),
        form!("field-access", "", "%r.p * 2.0 + %r.q"),
        form!("field-assign", "", "{ let c9r = {p = %a, q = 2.0}\n c9r.p = %b\n c9r.p + c9r.q }"),
        Form { name: "self", prog: "#M#\nfn c9acc(x){ @ }\nfn dsp(c9in:float){ c9acc(c9in + 1.0) }\n", expr: "%self * 0.5 + %x" },
        Form { name: "self-tuple", prog: "#M#\nfn c9acc(x)->(float,float){ @ }\nfn dsp(c9in:float){ let (u, w) = c9acc(c9in + 1.0)\n u + w * 0.001 }\n", expr: "{ let (s0, s1) = %self\n (s0 + %x, s1 + s0) }" },
        form!("now-samplerate", "", "now * 2.0 + samplerate"),
        form!("block", "", "{ %a + 1.0 }"),
        form!("block-nested", "", "{ let u = { let w = %a\n w + 1.0 }\n { u * 2.0 } }"),
        // lexical scope of a block: the inner binding must not shadow the outer one afterwards
        form!("block-shadowing", "", "{ let u = %a\n let w = { let u = %b * 10.0\n u * 2.0 }\n w + u }"),
        form!("block-shadowing-lambda", "", "{ let u = %a\n let w = (|q| { let u = q * 10.0\n u * 2.0 })(%b)\n w + u * 1000.0 }"),
        form!("block-shadowing-twice", "", "{ let u = %a\n let w = { let u = %b\n { let u = 7.0\n u } + u }\n w * 100.0 + u }"),
        form!("match-int", "", "match (%a - %a + 1.0) { 0 => 100.0, 1 => 200.0 + %b, _ => 300.0 }"),
        form!("match-enum", "type C9E = One(float) | Two(float)\n", "match One(%a) { One(v) => v * 2.0, Two(v) => 0.0 - v } + match Two(%b) { One(v) => v, Two(v) => v * 3.0 }"),
        form!("match-enum-unit", "type C9D = Up | Down\n", "match Down { Up => { %a }, Down => { %b } }"),
        form!("pipe", "fn c9f1(x){ x * 2.0 + 1.0 }\nfn c9f2(x, y){ x * 10.0 - y }\n", "(%a |> c9f1) + ((%a, %b) |> c9f2)"),
        form!("pipe-macro-placeholder", "", "%a ||> _ * 2.0 ||> _ + %b"),
        form!("mem-delay", "", "mem(%a) + delay(4.0, %b, 2.0) * 10.0"),
        form!("stateful-call", "fn c9cnt(x){ self + x }\n", "c9cnt(%a) + c9cnt(1.0) * 0.5"),
        form!("stateful-call-nested", "fn c9cnt(x){ self + x }\nfn c9two(x){ c9cnt(x) * 2.0 + mem(x) }\n", "c9two(%a) + c9cnt(c9two(%b))"),
        form!("closure-returned", "fn c9mk(k){ |x| x * k }\n", "c9mk(%a)(%b)"),
    ]
}

const FORM_CTXS: [&str; 17] = [
    "qs:b", "qs:p", "qs:n", "mac:1", "mac:0", "mac:sugar=splice", "letc:1a", "letc:1b", "letc:pair", "letc:triple", "fn:id", "fn:app", "fn:glob-id",
    "rec:nest:1", "rec:nest:3", "rec:nest:8", "qs-in-mac",
];

fn plain_vars(expr: &str) -> String {
    expr.replace('%', "")
}
fn form_vars(expr: &str) -> Vec<String> {
    let mut out: Vec<String> = vec![];
    let b: Vec<char> = expr.chars().collect();
    let mut i = 0;
    while i < b.len() {
        if b[i] == '%' {
            let mut j = i + 1;
            while j < b.len() && (b[j].is_alphanumeric() || b[j] == '_') {
                j += 1;
            }
            let n: String = b[i + 1..j].iter().collect();
            if !out.contains(&n) {
                out.push(n);
            }
            i = j;
        } else {
            i += 1;
        }
    }
    out
}

/// (staged text for the hole, macro definitions, helper names, expanded text for the hole)
fn form_ctx(expr: &str, ctx: &str) -> (String, Vec<String>, Vec<&'static str>, String) {
    let e = plain_vars(expr);
    let macro_def = |name: &str, inner: &dyn Fn(&str) -> String| {
        let vars = form_vars(expr);
        let mut body = expr.to_string();
        // longest names first so that %ab is not hit by %a
        let mut vs = vars.clone();
        vs.sort_by_key(|v| std::cmp::Reverse(v.len()));
        for v in &vs {
            let i = vars.iter().position(|x| x == v).unwrap();
            body = body.replace(&format!("%{v}"), &format!("($c9a{i})"));
        }
        let params: Vec<String> = vars
            .iter()
            .enumerate()
            .map(|(i, v)| {
                let ty = match v.as_str() {
                    "r" => "`{p:float, q:float}",
                    "t" => "`(float,(float,float))",
                    "self" if expr.contains("(s0, s1)") => "`(float,float)",
                    _ => "`float",
                };
                format!("c9a{i}:{ty}")
            })
            .collect();
        let cargs: Vec<String> = vars.iter().map(|v| format!("`{v}")).collect();
        (format!("fn {name}({}){{\n  `{{ {} }}\n}}", params.join(", "), inner(&body)), cargs.join(", "))
    };
    match ctx {
        "qs:b" => (format!("$(`{{ {e} }})"), vec![], vec![], format!("{{ {e} }}")),
        "qs:p" => (format!("$(`({e}))"), vec![], vec![], format!("({e})")),
        "qs:n" => (format!("$(`{{ $(`{{ {e} }}) }})"), vec![], vec![], format!("{{ {{ {e} }} }}")),
        "mac:1" => {
            let (d, a) = macro_def("c9_m1", &|b| b.to_string());
            (format!("c9_m1!({a})"), vec![d], vec![], format!("{{ {e} }}"))
        }
        "mac:0" => {
            let (d, a) = macro_def("c9_m1", &|b| b.to_string());
            (format!("$(c9_m1({a}))"), vec![d], vec![], format!("{{ {e} }}"))
        }
        "mac:sugar=splice" => {
            // both sides staged: `f!(args)` against `$(f(args))`
            let (d, a) = macro_def("c9_m1", &|b| b.to_string());
            (format!("c9_m1!({a})"), vec![d], vec![], format!("$(c9_m1({a}))"))
        }
        "qs-in-mac" => {
            let (d, a) = macro_def("c9_m1", &|b| format!("$(`{{ {b} }})"));
            (format!("c9_m1!({a})"), vec![d], vec![], format!("{{ {{ {e} }} }}"))
        }
        "letc:1a" => (format!("$({{ let c9c = `{{ {e} }}\n c9c }})"), vec![], vec![], format!("{{ {e} }}")),
        "letc:1b" => (format!("$({{ let c9c = `{{ {e} }}\n `{{ $c9c }} }})"), vec![], vec![], format!("{{ {{ {e} }} }}")),
        "letc:pair" => (
            format!("($({{ let c9c = `{{ {e} }}\n `{{ ($c9c, $c9c) }} }})).1"),
            vec![],
            vec![],
            format!("({{ ({{ {e} }}, {{ {e} }}) }}).1"),
        ),
        "letc:triple" => (
            format!("($({{ let c9c = `{{ {e} }}\n let c9d = c9c\n `{{ ($c9c, $c9d, $c9c) }} }})).2"),
            vec![],
            vec![],
            format!("({{ ({{ {e} }}, {{ {e} }}, {{ {e} }}) }}).2"),
        ),
        "fn:id" => (format!("c9_id!(`{{ {e} }})"), vec![], vec!["c9_id"], format!("{{ {e} }}")),
        "fn:app" => (
            format!("c9_app!(|c| `{{ let {W} = $c\n {W} }}, `{{ {e} }})"),
            vec![],
            vec!["c9_app"],
            format!("{{ let {W} = {{ {e} }}\n {W} }}"),
        ),
        "fn:glob-id" => (
            format!("$(c9_wrap(`{{ {e} }}))"),
            vec!["let c9_wrap = |c| `{ let c9w = $c\n c9w }".to_string()],
            vec![],
            format!("{{ let {W} = {{ {e} }}\n {W} }}"),
        ),
        c if c.starts_with("rec:nest:") => {
            let n: usize = c[9..].parse().unwrap_or(1);
            let mut x = format!("{{ {e} }}");
            for _ in 0..n {
                x = format!("{{ let {W} = {x}\n {W} }}");
            }
            (format!("$(c9_nest({n}.0, `{{ {e} }}))"), vec![], vec!["c9_nest"], x)
        }
        _ => (e.clone(), vec![], vec![], e),
    }
}

fn form_case(f: &Form, ctx: &str, n: usize, input_seed: u64) -> SCase {
    let prog = f.prog.replace('\u{3}', DSP);
    let (st, defs, helpers, ex) = form_ctx(f.expr, ctx);
    let used: BTreeSet<&'static str> = helpers.into_iter().collect();
    let mut msec = String::new();
    if !defs.is_empty() {
        msec.push_str("#stage(macro)\n");
        for d in &defs {
            msec.push_str(d);
            msec.push('\n');
        }
        msec.push_str("#stage(main)");
    }
    let staged = format!("{}{}", helper_section(&used), prog.replace("#M#", &msec).replace('@', &format!("({st})")));
    let expanded = if ctx == "mac:sugar=splice" {
        prog.replace("#M#", &msec).replace('@', &format!("({ex})"))
    } else {
        prog.replace("#M#\n", "").replace('@', &format!("({ex})"))
    };
    SCase {
        family: "form".into(),
        staged,
        expanded,
        tags: vec![format!("{}×{}", f.name, ctx)],
        class: format!("form:{}", f.name),
        n,
        input_seed,
        marked: None,
        lifts: vec![],
    }
}

// ====================================================================== hand-written pairs

/// (name, staged, expansion written by hand)
fn fixtures() -> Vec<(&'static str, &'static str, &'static str)> {
    vec![
        // lifted aggregates: every digit of the result is one lifted number
        (
            "lift-array-of-nested-tuples",
            "#stage(macro)\nfn mk(){\n  let t = [((1.0, 2.0), 3.0), ((4.0, 5.0), 6.0)]\n  lift(t)\n}\n#stage(main)\nfn dsp(){\n  let t = mk!()\n  let (a, b) = t[0]\n  let (c, d) = t[1]\n  let (a0, a1) = a\n  let (c0, c1) = c\n  a0 + a1*10.0 + b*100.0 + c0*1000.0 + c1*10000.0 + d*100000.0\n}\n",
            "fn dsp(){\n  let t = [((1.0, 2.0), 3.0), ((4.0, 5.0), 6.0)]\n  let (a, b) = t[0]\n  let (c, d) = t[1]\n  let (a0, a1) = a\n  let (c0, c1) = c\n  a0 + a1*10.0 + b*100.0 + c0*1000.0 + c1*10000.0 + d*100000.0\n}\n",
        ),
        (
            "lift-array-of-wide-then-narrow-tuples",
            "#stage(macro)\nfn mk(){\n  let t = [((1.0, 2.0, 3.0), 4.0, (5.0, 6.0)), ((7.0, 8.0, 9.0), 1.5, (2.5, 3.5))]\n  lift(t)\n}\n#stage(main)\nfn dsp(){\n  let t = mk!()\n  let (a, b, c) = t[0]\n  let (d, e, f) = t[1]\n  a.0 + a.1*2.0 + a.2*3.0 + b*5.0 + c.0*7.0 + c.1*11.0 + d.0*13.0 + d.1*17.0 + d.2*19.0 + e*23.0 + f.0*29.0 + f.1*31.0\n}\n",
            "fn dsp(){\n  let t = [((1.0, 2.0, 3.0), 4.0, (5.0, 6.0)), ((7.0, 8.0, 9.0), 1.5, (2.5, 3.5))]\n  let (a, b, c) = t[0]\n  let (d, e, f) = t[1]\n  a.0 + a.1*2.0 + a.2*3.0 + b*5.0 + c.0*7.0 + c.1*11.0 + d.0*13.0 + d.1*17.0 + d.2*19.0 + e*23.0 + f.0*29.0 + f.1*31.0\n}\n",
        ),
        (
            "genpower-numeric-recursion",
            "#stage(macro)\nfn genpower(n:float){\n  letrec aux = |n:float,x| {\n    if (n>1){\n      `{ $x * $(aux(n-1,x)) }\n    }else{\n      x\n    }\n  }\n  `{|x:float| $(aux(n,`x))}\n}\nlet k = 3\n#stage(main)\nfn dsp(c9in:float) {\n  genpower!(k)(c9in + 2.0) + genpower!(1)(c9in)\n}\n",
            "fn dsp(c9in:float) {\n  (|x:float| { x * { x * x } })(c9in + 2.0) + (|x:float| { x })(c9in)\n}\n",
        ),
        (
            "genpower-dollar-block",
            "${\n  let genpower = |n:float|{\n    letrec aux = |n1:float,x| {\n      if (n1>0){\n        `{$( aux(n1-1,x)) * $x }\n      }else{\n        `1\n      }\n    }\n    `{|x:float| $(aux(n,`x)) }\n  }\n`{\n  let dsp = | | (now + 2.0) |> $(genpower(5))\n}\n}\n",
            "fn dsp(){\n  (now + 2.0) |> (|x:float| { { { { { 1 * x } * x } * x } * x } * x })\n}\n",
        ),
        (
            "macro-stage-closure-counter",
            "#stage(macro)\nfn makecounter(){\n  let x = 0.0\n  | | {\n    x = x+1.0\n    x\n  }\n}\nlet counter = makecounter()\n#stage(main)\nfn dsp(){\n  let l = $(counter() |> lift_f)\n  let r = $(counter() |> lift_f)\n  let m = lift_f!(counter() * 0.1)\n  (l, r, m)\n}\n",
            "fn dsp(){\n  let l = 1.0\n  let r = 2.0\n  let m = 0.30000000000000004\n  (l, r, m)\n}\n",
        ),
        (
            "stereo-synth-code-from-closure",
            "#stage(macro)\nfn c9_stereo(processor){\n  let left = processor()\n  let right = processor()\n  `{ ($left, $right) }\n}\nfn c9_seedgen(){\n  let x = 0.0\n  | | {\n    x = x + 1.0\n    lift_f(x)\n  }\n}\nlet c9_seed = c9_seedgen()\n#stage(main)\nfn osc(seed, f){ self * 0.5 + seed + f }\nfn dsp(c9in:float){\n  c9_stereo!(| | `{ osc($(c9_seed()), c9in) })\n}\n",
            "fn osc(seed, f){ self * 0.5 + seed + f }\nfn dsp(c9in:float){\n  { ({ osc(1.0, c9in) }, { osc(2.0, c9in) }) }\n}\n",
        ),
        (
            "macro-stage-tuple-arithmetic",
            "#stage(macro)\nfn make(){\n  let a = (1.0, 2.0)\n  let b = (3.0, 4.5)\n  let c = a + b\n  let d = a * 10.0\n  `{ $(c.0 |> lift_f) + $(c.1 |> lift_f) * 10.0 + $(d.0 |> lift_f) * 100.0 + $(d.1 |> lift_f) * 1000.0 }\n}\n#stage(main)\nfn dsp(){\n  make!()\n}\n",
            "fn dsp(){\n  { 4.0 + 6.5 * 10.0 + 10.0 * 100.0 + 20.0 * 1000.0 }\n}\n",
        ),
        (
            "code-array-folded-by-recursion",
            "#stage(macro)\nfn c9_sum(arr){\n  if (len(arr) > 0){\n    let (h, rest) = split_head(arr)\n    `{ $h + $(c9_sum(rest)) }\n  }else{\n    `0.0\n  }\n}\n#stage(main)\nfn cnt(x){ self + x }\nfn dsp(c9in:float){\n  let a = c9in + 1.0\n  c9_sum!([`a, `{cnt(a)}, `(a * cnt(2.0))])\n}\n",
            "fn cnt(x){ self + x }\nfn dsp(c9in:float){\n  let a = c9in + 1.0\n  { a + { { cnt(a) } + { (a * cnt(2.0)) + 0.0 } } }\n}\n",
        ),
        (
            "lifted-array",
            "#stage(macro)\nfn mk(){\n  let arr = [1.5, 0.1 + 0.2, 3.0 / 7.0]\n  arr |> lift\n}\nfn mk2(){\n  lift_arrayf([2.0 ^ 0.5, 10.0])\n}\n#stage(main)\nfn dsp(){\n  let a = mk!()\n  let b = mk2!()\n  (a[0], a[1], a[2], b[0], b[1])\n}\n",
            "fn dsp(){\n  let a = [1.5, 0.30000000000000004, 0.42857142857142855]\n  let b = [1.4142135623730951, 10.0]\n  (a[0], a[1], a[2], b[0], b[1])\n}\n",
        ),
        (
            "array-of-code-lifted",
            "#stage(macro)\nfn mk_functions(k){\n  let funcs = [\n    `|x| x + $(lift_f(k)),\n    `|x| x * 2.0,\n  ]\n  funcs |> lift_array_code\n}\n#stage(main)\nfn dsp(c9in:float){\n  let funcs = mk_functions!(0.1 + 0.2)\n  funcs[0](c9in) + funcs[1](10.0)\n}\n",
            "fn dsp(c9in:float){\n  let funcs = [ |x| x + 0.30000000000000004, |x| x * 2.0 ]\n  funcs[0](c9in) + funcs[1](10.0)\n}\n",
        ),
        (
            "stage-switching-with-main-definitions-between",
            "#stage(macro)\nlet RANDMAX = 2147483647.0\nfn urand_counter(){\n  let x = 0.0 - 1.0\n  | | {\n    x = x+1\n    lift_f(x)\n  }\n}\nlet global_seed = urand_counter()\n#stage(main)\nfn gen_rand(seed){\n  (self*48271.0) % (2.0^31.0 -1.0)+seed\n}\nfn gen_noise(seed){\n  gen_rand(seed)/$(lift_f(RANDMAX))\n}\n#stage(macro)\nfn unoise(){\n  `gen_noise($(global_seed()) + 1.0)\n}\n#stage(main)\nfn dsp(){\n  let l = unoise!()\n  let r = unoise!()\n  (l,r, global_seed!())\n}\n",
            "fn gen_rand(seed){\n  (self*48271.0) % (2.0^31.0 -1.0)+seed\n}\nfn gen_noise(seed){\n  gen_rand(seed)/2147483647.0\n}\nfn dsp(){\n  let l = gen_noise(0.0 + 1.0)\n  let r = gen_noise(1.0 + 1.0)\n  (l,r, 2.0)\n}\n",
        ),
        (
            "macro-returning-lambda-applied",
            "#stage(macro)\nfn c9_gain(g){ `{ |x| x * $(lift_f(g * 0.5)) } }\nfn c9_compose(f, g){ `{ |x| ($g)(($f)(x)) } }\n#stage(main)\nfn cnt(x){ self + x }\nfn dsp(c9in:float){\n  c9_gain!(0.3)(c9in) + c9_compose!(`cnt, c9_gain(4.0))(1.0)\n}\n",
            "fn cnt(x){ self + x }\nfn dsp(c9in:float){\n  { |x| x * 0.15 }(c9in) + { |x| ({ |x| x * 2.0 })((cnt)(x)) }(1.0)\n}\n",
        ),
    ]
}

// ====================================================================== lifted numbers

const LIFT_SPELLINGS: [&str; 11] = ["splice", "bang", "pipe", "poly", "let", "fn", "global", "in-quote", "rec-sum", "if-cond", "if-cond-in-macro"];
const LIFT_LITS: [f64; 24] = [
    0.0, 1.0, 2.0, 3.0, 10.0, 0.1, 0.2, 0.3, 0.7, 1.5, 7.0, 100.0, 10000000.0, 9007199254740992.0, 0.001, 123456789.0, 0.5, 1023.0, 52.0,
    300.0, 4503599627370497.0, 0.0001, 1e15, 6.02,
];

/// macro-stage arithmetic with awkward results first, then random trees
fn lift_special(k: usize) -> E {
    let n = num;
    let neg = |e: E| bin(BinOp::Sub, n(0.0), e);
    match k {
        0 => bin(BinOp::Add, n(0.1), n(0.2)),
        1 => bin(BinOp::Div, n(1.0), n(3.0)),
        2 => bin(BinOp::Div, n(1.0), n(10000000.0)),
        3 => bin(BinOp::Add, bin(BinOp::Pow, n(2.0), n(53.0)), n(1.0)),
        4 => bin(BinOp::Mul, n(0.0), neg(n(1.0))),
        5 => bin(BinOp::Div, n(1.0), n(0.0)),
        6 => bin(BinOp::Div, n(0.0), n(0.0)),
        7 => bin(BinOp::Div, neg(n(1.0)), n(0.0)),
        8 => bin(BinOp::Pow, n(10.0), n(300.0)),
        9 => bin(BinOp::Pow, n(10.0), neg(n(300.0))),
        10 => bin(BinOp::Div, bin(BinOp::Pow, n(10.0), neg(n(300.0))), bin(BinOp::Pow, n(10.0), n(20.0))),
        11 => bin(BinOp::Mul, bin(BinOp::Sub, n(2.0), bin(BinOp::Pow, n(2.0), neg(n(52.0)))), bin(BinOp::Pow, n(2.0), n(1023.0))),
        12 => bin(BinOp::Sub, n(9007199254740992.0), n(1.0)),
        13 => bin(BinOp::Add, n(4503599627370497.0), n(0.5)),
        14 => E::Builtin("sqrt".into(), vec![n(2.0)]),
        15 => E::Builtin("sin".into(), vec![n(1.0)]),
        16 => bin(BinOp::Mul, n(123456789.0), n(0.0001)),
        17 => bin(BinOp::Div, n(2.0), n(3.0)),
        18 => neg(bin(BinOp::Div, n(1.0), n(3.0))),
        19 => bin(BinOp::Sub, bin(BinOp::Add, n(0.1), n(0.2)), n(0.3)),
        20 => bin(BinOp::Pow, n(2.0), neg(n(1023.0))),
        _ => bin(BinOp::Mul, n(1e15), n(10.0)),
    }
}
const N_SPECIAL: usize = 22;

fn lift_random(rng: &mut Rng, depth: usize) -> E {
    if depth == 0 || rng.chance(1, 4) {
        return num(*rng.pick(&LIFT_LITS));
    }
    match rng.below(8) {
        0 => {
            let f = *rng.pick(&["sqrt", "sin", "cos", "abs", "floor", "tanh", "atan", "round", "ceil"]);
            E::Builtin(f.into(), vec![lift_random(rng, depth - 1)])
        }
        1 => bin(BinOp::Pow, lift_random(rng, depth - 1), num(*rng.pick(&[2.0, 3.0, 0.5, 10.0]))),
        k => {
            let op = [BinOp::Add, BinOp::Sub, BinOp::Mul, BinOp::Div, BinOp::Add, BinOp::Div][k - 2];
            bin(op, lift_random(rng, depth - 1), lift_random(rng, depth - 1))
        }
    }
}

fn lift_case(rng: &mut Rng, block: usize) -> Option<SCase> {
    let k = 8;
    let mut defs: Vec<String> = vec![];
    let mut chans: Vec<String> = vec![];
    let mut lifts = vec![];
    let mut tags = vec![];
    let mut pre: Vec<String> = vec![];
    for i in 0..k {
        let a = if i < 3 { lift_special((block * 3 + i) % N_SPECIAL) } else { { let d = 1 + rng.below(3); lift_random(rng, d) } };
        let at = expr_text(&a);
        let sp = LIFT_SPELLINGS[(block + i * 4 + rng.below(2)) % LIFT_SPELLINGS.len()];
        let mut want = eval_closed(&a)?;
        let text = match sp {
            "splice" => format!("$(lift_f({at}))"),
            "bang" => format!("lift_f!({at})"),
            "pipe" => format!("$(({at}) |> lift_f)"),
            "poly" => format!("lift!({at})"),
            "let" => format!("$({{ let c9t = {at}\n lift_f(c9t) }})"),
            "fn" => {
                defs.push(format!("fn c9_l{i}(){{ lift_f({at}) }}"));
                format!("c9_l{i}!()")
            }
            "global" => {
                defs.push(format!("let c9_v{i} = {at}"));
                format!("$(lift_f(c9_v{i}))")
            }
            "in-quote" => format!("$(`{{ $(lift_f({at})) }})"),
            // the lifted number as the condition of a generated `if`: the then-arm is taken for numbers
            // above zero only (negative numbers and NaN can reach a literal position in no other way)
            // (bound by a `let` before the result tuple: an `if` inside a tuple literal is a recorded defect)
            "if-cond" => {
                want = if want > 0.0 { 1.0 } else { 2.0 };
                pre.push(format!("let c9c{i} = if ($(lift_f({at}))) {{ 1.0 }} else {{ 2.0 }}"));
                format!("c9c{i}")
            }
            "if-cond-in-macro" => {
                want = if want > 0.0 { 1.0 } else { 2.0 };
                defs.push(format!("fn c9_pick{i}(flag){{ `{{ if ($(lift_f(flag))) {{ 1.0 }} else {{ 2.0 }} }} }}"));
                pre.push(format!("let c9c{i} = c9_pick{i}!({at})"));
                format!("c9c{i}")
            }
            _ => {
                // numeric recursion at the macro stage: x added m times to 0.0
                let m = 1 + rng.below(7);
                defs.push(format!("fn c9_acc{i}(n, x, acc){{ if (n > 0.0) {{ c9_acc{i}(n - 1.0, x, acc + x) }} else {{ acc }} }}"));
                let x = want;
                let mut acc = 0.0f64;
                for _ in 0..m {
                    acc += x;
                }
                want = acc;
                format!("$(lift_f(c9_acc{i}({m}.0, {at}, 0.0)))")
            }
        };
        chans.push(text);
        tags.push(format!("lift×{sp}"));
        lifts.push((sp.to_string(), at, format!("{:016x}", want.to_bits())));
    }
    let mut staged = String::new();
    if !defs.is_empty() {
        staged.push_str("#stage(macro)\n");
        for d in &defs {
            staged.push_str(d);
            staged.push('\n');
        }
        staged.push_str("#stage(main)\n");
    }
    let pre_txt: String = pre.iter().map(|l| format!("  {l}\n")).collect();
    staged.push_str(&format!("fn dsp(){{\n{pre_txt}  ({})\n}}\n", chans.join(",\n   ")));
    Some(SCase { family: "lift".into(), staged, expanded: String::new(), tags, class: "lift".into(), n: 2, input_seed: 0, marked: None, lifts })
}

// ====================================================================== oracle

#[derive(Default)]
pub struct Checked {
    /// (clause, back end, detail)
    pub violations: Vec<(String, String, String)>,
    pub ran_all: bool,
    pub compared: u64,
    pub both_refused: u32,
    pub inconclusive: Option<String>,
    pub lifts_checked: u64,
}

fn outcome_kind(e: &RunError) -> String {
    // no double quotes: signatures are quoted in KNOWN_FINDINGS.txt
    outcome_kind_raw(e).replace('"', "'")
}
fn outcome_kind_raw(e: &RunError) -> String {
    match e {
        RunError::Build(BuildError::Rejected(d)) => format!("rejected({})", d.first().map(|d| norm(&d.message)).unwrap_or_default()),
        RunError::Build(BuildError::BackendRefused(s)) => format!("backend-refused({})", norm(s)),
        RunError::Build(BuildError::NoDsp) => "no-dsp".into(),
        RunError::Build(BuildError::Panicked(ph, p)) => format!("{}@{}", p.sig(), ph),
        RunError::DspPanic(_, p) => format!("{}@dsp", p.sig()),
    }
}
fn is_budget(e: &RunError) -> bool {
    match e {
        RunError::Build(BuildError::Panicked(_, p)) | RunError::DspPanic(_, p) => p.is_verif_tag() == Some("VERIF-STEPS"),
        _ => false,
    }
}

fn run1(b: Backend, src: &str, c: &SCase) -> Result<RunOut, RunError> {
    let inp = input_fn(c.input_seed, true);
    run_program(b, src, false, c.n, &inp, false, None)
}

fn check_pair(c: &SCase) -> Checked {
    let mut res = Checked { ran_all: true, ..Default::default() };
    for b in [Backend::Vm, Backend::Wasm] {
        let s = run1(b, &c.staged, c);
        let x = run1(b, &c.expanded, c);
        for r in [&s, &x] {
            if let Err(e) = r
                && is_budget(e)
            {
                res.inconclusive = Some(format!("instruction budget exhausted on {}", b.name()));
                res.ran_all = false;
                return res;
            }
        }
        match (&s, &x) {
            (Ok(s), Ok(x)) => {
                res.compared += s.out.len().min(x.out.len()) as u64;
                if s.channels != x.channels || s.out.len() != x.out.len() {
                    res.violations.push((
                        "staged-channel-count-differs-from-expansion".into(),
                        b.name().into(),
                        format!("staged {} channels / {} words, expansion {} / {}", s.channels, s.out.len(), x.channels, x.out.len()),
                    ));
                } else if let Some(i) = (0..s.out.len()).find(|&i| !bits_eq(s.out[i], x.out[i])) {
                    let ch = s.channels.max(1);
                    res.violations.push((
                        "staged-output-differs-from-expansion".into(),
                        b.name().into(),
                        format!("{}: sample {} channel {}: staged {:?} expansion {:?}", b.name(), i / ch, i % ch, s.out[i], x.out[i]),
                    ));
                }
            }
            (Err(_), Err(_)) => {
                res.ran_all = false;
                res.both_refused += 1;
            }
            (Err(e), Ok(_)) => {
                res.ran_all = false;
                res.violations.push((
                    format!("expansion-runs-staged-does-not: {}", outcome_kind(e)),
                    b.name().into(),
                    format!("{}: staged text: {}", b.name(), e.short()),
                ));
            }
            (Ok(_), Err(e)) => {
                res.ran_all = false;
                res.violations.push((
                    format!("staged-runs-expansion-does-not: {}", outcome_kind(e)),
                    b.name().into(),
                    format!("{}: expansion: {}", b.name(), e.short()),
                ));
            }
        }
    }
    res
}

fn check_lift(c: &SCase) -> Checked {
    let mut res = Checked { ran_all: true, ..Default::default() };
    let want: Vec<Option<u64>> = c.lifts.iter().map(|l| u64::from_str_radix(&l.2, 16).ok()).collect();
    if want.iter().any(|w| w.is_none()) {
        res.inconclusive = Some("unparsable expected bits".into());
        res.ran_all = false;
        return res;
    }
    for b in [Backend::Vm, Backend::Wasm] {
        match run1(b, &c.staged, c) {
            Ok(r) => {
                if r.channels != want.len() {
                    res.violations.push((
                        "lifted-numbers-program-has-wrong-channel-count".into(),
                        b.name().into(),
                        format!("{} channels for {} lifted numbers", r.channels, want.len()),
                    ));
                    continue;
                }
                for (i, w) in r.out.iter().enumerate() {
                    let k = i % want.len();
                    let exp = f64::from_bits(want[k].unwrap());
                    res.lifts_checked += 1;
                    if !bits_eq(*w, exp) {
                        res.violations.push((
                            format!("lifted-number-differs/{}", c.lifts[k].0),
                            b.name().into(),
                            format!(
                                "{}: lift of `{}` ({}): generated code yields {:?} ({:016x}), macro-stage value is {:?} ({:016x})",
                                b.name(), c.lifts[k].1, c.lifts[k].0, w, w.to_bits(), exp, exp.to_bits()
                            ),
                        ));
                        break;
                    }
                }
            }
            Err(e) if is_budget(&e) => {
                res.inconclusive = Some("instruction budget".into());
                res.ran_all = false;
                return res;
            }
            Err(e) => {
                res.ran_all = false;
                res.violations.push((format!("lift-program-does-not-run: {}", outcome_kind(&e)), b.name().into(), e.short()));
            }
        }
    }
    res
}

pub fn check(c: &SCase) -> Checked {
    if c.family == "lift" { check_lift(c) } else { check_pair(c) }
}

/// merge per-back-end findings of one clause into signatures `clause/class/<vm|wasm|vm+wasm>`
fn signatures(c: &SCase, r: &Checked) -> Vec<(String, String)> {
    let mut by: BTreeMap<String, (Vec<String>, Vec<String>)> = BTreeMap::new();
    for (clause, b, d) in &r.violations {
        let e = by.entry(clause.clone()).or_default();
        e.0.push(b.clone());
        e.1.push(d.clone());
    }
    by.into_iter()
        .map(|(clause, (bs, ds))| {
            let sig = if c.family == "lift" {
                format!("{clause}/{}", bs.join("+"))
            } else {
                format!("{clause}/{}/{}", c.class, bs.join("+"))
            };
            (sig, ds.join(" | "))
        })
        .collect()
}

fn has_clause(c: &SCase, clause: &str) -> bool {
    check(c).violations.iter().any(|v| v.0 == clause)
}

// ====================================================================== program-family cases and their minimiser

fn class_of(marked: &Program) -> String {
    let ks: BTreeSet<String> = marker_kinds(marked).into_iter().map(|(k, _)| ctx_of(&k)).collect();
    format!("ctx:{}", ks.into_iter().collect::<Vec<_>>().join("+"))
}

fn program_case(marked: Program, n: usize, input_seed: u64) -> SCase {
    let (staged, tags) = render_staged(&marked);
    let expanded = erase(&marked).print();
    let class = class_of(&marked);
    // serde_json refuses to read back values nested deeper than 128 levels: a very deep G-AST is
    // left out of the case (the two texts are the artefact; only the minimiser and the
    // reference-interpreter statistic need the G-AST)
    let keep = json_depth(&serde_json::to_value(&marked).unwrap_or(Value::Null)) <= 100;
    SCase { family: "program".into(), staged, expanded, tags, class, n, input_seed, marked: if keep { Some(marked) } else { None }, lifts: vec![] }
}
fn json_depth(v: &Value) -> usize {
    match v {
        Value::Array(a) => 1 + a.iter().map(json_depth).max().unwrap_or(0),
        Value::Object(o) => 1 + o.values().map(json_depth).max().unwrap_or(0),
        _ => 0,
    }
}

fn unmark_nth(p: &Program, target: usize) -> Program {
    // replace the target-th marker (pre-order over the items) by its plain expansion
    let mut k = 0usize;
    let mut next = max_site(p) + 5000;
    let mut g = |x: &E| -> Option<E> {
        if as_marker(x).is_some() {
            let me = k;
            k += 1;
            if me == target {
                return Some(erase_expr(x, &mut next));
            }
        }
        None
    };
    let mut q = p.clone();
    for (_, _, e) in q.pre_globals.iter_mut() {
        *e = rewrite(e, &mut g);
    }
    for f in q.fns.iter_mut() {
        f.body = rewrite_block(&f.body, &mut g);
    }
    for (_, _, e) in q.globals.iter_mut() {
        *e = rewrite(e, &mut g);
    }
    q.dsp.body = rewrite_block(&q.dsp.body, &mut g);
    q
}

fn minimise_program(c: &SCase, clause: &str, max_evals: usize) -> SCase {
    let Some(mut marked) = c.marked.clone() else { return c.clone() };
    let mut n = c.n;
    for cand in [1usize, 2, 4] {
        if cand < n && has_clause(&program_case(marked.clone(), cand, c.input_seed), clause) {
            n = cand;
            break;
        }
    }
    // fewer staging constructs first (outermost markers only are addressable; repeat)
    loop {
        let total = marker_kinds(&marked).len();
        let mut progressed = false;
        for t in 0..total {
            let cand = unmark_nth(&marked, t);
            if marker_kinds(&cand).len() < marker_kinds(&marked).len()
                && !marker_kinds(&cand).is_empty()
                && has_clause(&program_case(cand.clone(), n, c.input_seed), clause)
            {
                marked = cand;
                progressed = true;
                break;
            }
        }
        if !progressed {
            break;
        }
    }
    let seed = c.input_seed;
    let mut pred = |p: &Program| {
        if marker_kinds(p).is_empty() || !crate::gens::tycheck::well_typed(&erase(p)) {
            return false;
        }
        has_clause(&program_case(p.clone(), n, seed), clause)
    };
    let small = crate::gens::shrink::shrink(&marked, &mut pred, max_evals);
    program_case(small, n, seed)
}

fn minimise_form(c: &SCase, clause: &str) -> SCase {
    // text pairs: only the run length is reduced (the texts are already small)
    let mut best = c.clone();
    for n in [1usize, 2] {
        if n < best.n {
            let t = SCase { n, ..best.clone() };
            if has_clause(&t, clause) {
                best = t;
                break;
            }
        }
    }
    best
}

// ====================================================================== worker

fn exec(c: &SCase, idx: usize, out: &mut Out) -> bool {
    let r = check(c);
    if let Some(w) = &r.inconclusive {
        out.inconclusive(idx, w);
        return false;
    }
    out.count(&format!("cases:{}", c.family), 1);
    for t in &c.tags {
        // marginal counts + the set of (form x context) cells (one counter per cell would be thousands)
        out.set("form×context cells checked", format!("{}:{t}", c.family));
        if let Some((f, x)) = t.split_once('×') {
            out.count(&format!("form-in-quote:{f}"), 1);
            out.count(&format!("context:{x}"), 1);
        }
    }
    out.count("staging_constructs_checked", c.tags.len() as u64);
    out.count("output_words_compared", r.compared);
    out.count("lifted_numbers_compared_by_bits", r.lifts_checked);
    if r.both_refused > 0 {
        out.count("both_texts_refused", 1);
    }
    if let Some(m) = &c.marked {
        // whole-program quote: every form of the program passes through the code combinators
        for f in &m.features {
            out.count(&format!("feature-in-implicit-program-quote:{f}"), 1);
        }
        // the expansion against the reference interpreter (statistic; C02 judges the core language)
        let er = erase(m);
        if let Ok((want, flags)) = refsem::run(&er, c.n, &input_fn(c.input_seed, true))
            && !flags.iter().any(|f| matches!(*f, "nan_condition" | "logic_on_negative_or_nan_operand" | "not_on_nan" | "delay_time_outside_1_to_n_minus_1"))
            && let Ok(x) = run1(Backend::Vm, &c.expanded, c)
        {
            let agree = x.out.len() == want.len() && (0..want.len()).all(|i| bits_eq(want[i], x.out[i]));
            out.count(if agree { "expansion_agrees_with_reference_interpreter" } else { "expansion_differs_from_reference_interpreter(C02)" }, 1);
        }
    }
    // report
    let found = signatures(c, &r);
    for (sig, detail) in &found {
        let clause = sig.split('/').next().unwrap_or("").to_string();
        let key = format!("violations:{clause}");
        let seen = out.counters.get(&key).copied().unwrap_or(0);
        out.count(&key, 1);
        if seen == 0 && c.family != "lift" {
            let small = if c.family == "program" { minimise_program(c, &clause, 150) } else { minimise_form(c, &clause) };
            let r2 = check(&small);
            let s2 = signatures(&small, &r2).into_iter().find(|(s, _)| s.split('/').next() == Some(clause.as_str()));
            match s2 {
                Some((sig2, d2)) => out.violation(
                    idx,
                    &sig2,
                    &format!("{d2}\n(minimised from a {}-byte staged program)", c.staged.len()),
                    &serde_json::to_value(&small).unwrap(),
                ),
                None => out.violation(idx, sig, detail, &serde_json::to_value(c).unwrap()),
            }
        } else if seen < 3 && c.family != "program" {
            out.violation(idx, sig, detail, &serde_json::to_value(c).unwrap());
        }
    }
    let staged_has_staging = c.staged.contains('$') || c.staged.contains("!(") || c.staged.contains('`');
    r.ran_all && staged_has_staging && (c.family == "lift" && r.lifts_checked > 0 || c.family != "lift" && r.compared > 0)
}

fn budgets(args: &Args) -> (usize, usize, usize, usize) {
    // (form x context pairs, fixtures, lift blocks, generated programs)
    let nf = forms().len() * FORM_CTXS.len();
    let nx = fixtures().len();
    let nl = if args.thorough() { 1500 } else { 60 };
    let np = args.cases(700, 16000);
    (nf, nx, nl, np)
}

pub fn meta(args: &Args) -> Value {
    let (nf, nx, nl, np) = budgets(args);
    json!({
        "level": "exploration",
        "rule": format!("Three families, each printing the staged program and its hand expansion from ONE description. (form) {} core expression forms as text (literals, variables, applications of 0-5 arguments, lambdas incl. defaults, let with single/tuple/nested/record/placeholder patterns, letrec, if with and without else, sequencing, assignment, tuples, projection, arrays, records incl. update and field assignment, self, now, samplerate, blocks, match, pipes, mem/delay, stateful calls) x {} staging contexts ($(`e) with braces / parentheses / nested, m!(args) and $(m(args)) with the free locals passed as code, m!(args) against $(m(args)), code let-bound at the macro stage and spliced 1-3 times, code through macro-stage functions and closures, numeric recursion nesting code 1/3/8 deep): every pair is enumerated in both tiers. (program) random typed core programs (G-AST generator of C02) in which 1-3 (thorough: 1-5) sub-expressions, also nested, carry a staging marker: the contexts above plus F-typed ones (sum of n<=8 unrolled copies, x^n lambda built by recursion, n-fold application of a named function, multiplication/addition closures applied once or twice, macro-stage global closure) and literals replaced by lift_f/lift of macro-stage arithmetic in six spellings; because the compiler quotes the whole program as soon as one staging construct is present, every form of these programs passes through the code combinators. (lift) blocks of 8 macro-stage arithmetic expressions (0.1+0.2, 1/3, 1e-7, 2^53+1, -0.0, inf, NaN, 1e300, 1e-300, subnormal, f64::MAX, 2^53-1, ... and random trees) lifted in nine spellings (incl. macro-stage let / global / function / numeric recursion) as an 8-channel dsp. (fixture) {} hand-written pairs (genpower, macro-stage closure counters, code arrays folded by recursion, lifted arrays, stage switching). Oracle: accept/reject and every output bit of staged vs expansion, per back end (VM and WASM separately); lifted numbers against the bits the reference interpreter computes for the macro-stage expression. Non-trivial = the staged text contains a staging construct, both texts ran on both back ends and at least one output word (lift: one lifted number) was compared; distinct = hash of the case (both texts + run parameters).", forms().len(), FORM_CTXS.len(), nx),
        "assumptions": [
            "the hand expansion is what the one description prints without staging syntax; a quote with braces expands to a block, macro-introduced binders are named c9w",
            "macro-stage arithmetic is f64 arithmetic (the reference interpreter's), as C02 states for the run time",
            "generated programs keep out of the core-language findings listed in KNOWN_FINDINGS.txt (quarantines of C01/C02); record patterns are rewritten to field accesses while the quarantine record-pattern-in-quote is listed, the match rows of the form table are skipped while match-in-quote is listed",
            "generated programs whose expansion needs more than 60000 reference-interpreter steps for its first two samples are not run (exponential call trees through nested higher-order functions); value-changing contexts stay out of recursion counters and delay times"
        ],
        "floor": {"quick": 600, "thorough": 8000},
        "case_timeout_s": 240,
        "hang_is_violation": false,
        "crash_is_violation": false,
        "budget": {"form_x_context": nf, "fixtures": nx, "lift_blocks": nl, "programs": np},
    })
}

fn gen_case(args: &Args, idx: usize, rng: &mut Rng) -> Option<SCase> {
    let (nf, nx, nl, _np) = budgets(args);
    let fs = forms();
    if idx < nf {
        let f = &fs[idx / FORM_CTXS.len()];
        let ctx = FORM_CTXS[idx % FORM_CTXS.len()];
        if f.name == "let-record" && args.q("record-pattern-in-quote") || f.name.starts_with("match") && args.q("match-in-quote") {
            return None;
        }
        return Some(form_case(f, ctx, 6, rng.next()));
    }
    let idx = idx - nf;
    if idx < nx {
        let (name, st, ex) = fixtures()[idx];
        return Some(SCase {
            family: "fixture".into(),
            staged: st.into(),
            expanded: ex.into(),
            tags: vec![format!("fixture×{name}")],
            class: format!("fixture:{name}"),
            n: 6,
            input_seed: rng.next(),
            marked: None,
            lifts: vec![],
        });
    }
    let idx = idx - nx;
    if idx < nl {
        return lift_case(rng, idx);
    }
    let feat = feat_for(args, rng);
    let mut prog = generate(rng, feat);
    if args.q("record-pattern-in-quote") && has_record_pattern(&prog) {
        prog = desugar_record_patterns(&prog);
    }
    let marked = insert_markers(&prog, rng, if args.thorough() { 5 } else { 3 });
    if marker_kinds(&marked).is_empty() {
        return None;
    }
    let n = *rng.pick(&[6usize, 12, 24]);
    let input_seed = rng.next();
    // Keep out programs whose dsp call is very expensive (call trees through nested higher-order
    // functions grow exponentially; the VM also keeps every closure passed as an argument, a
    // recorded C12 finding, so such a run takes gigabytes): the reference interpreter must get
    // through the first two samples of the expansion within a small step budget.
    {
        let er = erase(&marked);
        let Ok(mut it) = refsem::Interp::new(&er) else { return None };
        it.max_steps = 60_000;
        let ich: usize = er.dsp.params.iter().map(|p| p.ty.words()).sum();
        let inp = input_fn(input_seed, true);
        for t in 0..2 {
            let inbuf: Vec<f64> = (0..ich).map(|c| inp(t, c)).collect();
            if it.tick(&inbuf).is_err() {
                return None;
            }
        }
    }
    Some(program_case(marked, n, input_seed))
}

/// cases per child process: the compiler interns every symbol, expression and type for the life
/// of the process (a case is four compilations plus a stage-0 run, several MB), so a shard is
/// worked off by short-lived children of the worker, all appending to the same event stream.
const CASES_PER_CHILD: usize = 120;

fn run_in_children(args: &Args, total: usize) {
    let argv: Vec<String> = std::env::args().collect();
    let exe = std::env::current_exe().expect("exe");
    let span = CASES_PER_CHILD * args.nshards.max(1);
    let mut start = args.start;
    while start < total {
        let stop = (start + span).min(total);
        let mut child_args: Vec<String> = vec![];
        let mut i = 1;
        while i < argv.len() {
            if argv[i] == "--start" {
                i += 2;
                continue;
            }
            child_args.push(argv[i].clone());
            i += 1;
        }
        child_args.extend(["--start".into(), start.to_string(), "--c9stop".into(), stop.to_string(), "--c9child".into(), "1".into()]);
        let st = std::process::Command::new(&exe).args(&child_args).status();
        match st {
            Ok(s) if s.success() => {}
            Ok(s) => {
                // die the way the child died: the supervisor attributes it to the open case
                use std::os::unix::process::ExitStatusExt;
                if let Some(sig) = s.signal() {
                    unsafe {
                        libc::signal(sig, libc::SIG_DFL);
                        libc::kill(libc::getpid(), sig);
                    }
                    std::thread::sleep(std::time::Duration::from_millis(200));
                }
                std::process::exit(s.code().unwrap_or(101));
            }
            Err(_) => std::process::exit(3),
        }
        // a child that grew too much stopped early and left the index to go on from
        start = match std::fs::read_to_string(next_file(std::process::id())) {
            Ok(t) => {
                let _ = std::fs::remove_file(next_file(std::process::id()));
                t.trim().parse().unwrap_or(stop)
            }
            Err(_) => stop,
        };
    }
}

fn next_file(parent: u32) -> std::path::PathBuf {
    std::env::temp_dir().join(format!("mmv-c09-next-{parent}"))
}
/// resident set of this process in MiB
fn rss_mib() -> usize {
    std::fs::read_to_string("/proc/self/statm")
        .ok()
        .and_then(|t| t.split_whitespace().nth(1).and_then(|x| x.parse::<usize>().ok()))
        .map(|pages| pages * 4096 / (1 << 20))
        .unwrap_or(0)
}
/// a child hands over to a fresh process beyond this (interned ASTs and closures the VM keeps
/// are never freed)
const CHILD_RSS_LIMIT_MIB: usize = 1200;

pub fn run(args: &Args, out: &mut Out) {
    let (nf, nx, nl, np) = budgets(args);
    let total = nf + nx + nl + np;
    if args.only.is_none() && !args.extra.contains_key("c9child") {
        run_in_children(args, total);
        return;
    }
    if args.extra.contains_key("c9child") {
        // do not outlive a killed parent
        unsafe {
            libc::prctl(libc::PR_SET_PDEATHSIG, libc::SIGKILL);
        }
    }
    let stop: usize = args.extra.get("c9stop").and_then(|s| s.parse().ok()).unwrap_or(usize::MAX);
    let is_child = args.extra.contains_key("c9child");
    let handed_over: std::cell::Cell<Option<usize>> = std::cell::Cell::new(None);
    drive(
        args,
        out,
        total,
        |idx, rng| {
            if idx >= stop || handed_over.get().is_some() {
                return None;
            }
            if is_child && rss_mib() > CHILD_RSS_LIMIT_MIB {
                handed_over.set(Some(idx));
                return None;
            }
            gen_case(args, idx, rng)
        },
        exec,
    );
    if let Some(idx) = handed_over.get() {
        out.count("worker_children_recycled_for_memory", 1);
        let parent = unsafe { libc::getppid() } as u32;
        let _ = std::fs::write(next_file(parent), idx.to_string());
    }
}

pub fn replay(_args: &Args, out: &mut Out, case: &Value) {
    replay_one::<SCase>(out, case, exec);
}
