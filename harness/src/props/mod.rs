//! One worker sub-command per property + the generic case driver.

pub mod c01;
pub mod c02;
pub mod c03;
pub mod c04;
pub mod c05;
pub mod c06;
pub mod c07;
pub mod c08;
pub mod c09;
pub mod c10;
pub mod c11;
pub mod c12;
pub mod c13;
pub mod c14;
pub mod c15;
pub mod c16;
pub mod c17;
pub mod c18;
pub mod c19;
pub mod c20;
pub mod probe;
pub mod progcase;

use crate::util::{Args, Out, Rng, catch, fp};
use serde::{Serialize, de::DeserializeOwned};
use serde_json::Value;

/// What a property module provides.
pub struct Prop {
    pub meta: fn(&Args) -> Value,
    pub run: fn(&Args, &mut Out),
    pub replay: fn(&Args, &mut Out, &Value),
}

/// Minimise a case whose execution kills the process (or otherwise needs isolation):
/// the predicate re-executes candidates in child processes (`mmv <prop> --replay f`).
/// Returns true if the child reproduces `sig` (a `crash:<SIGNAL>` or a violation signature).
pub fn child_reproduces(prop: &str, case: &Value, sig: &str, timeout_s: u64) -> bool {
    use std::io::Write;
    let dir = std::env::temp_dir().join(format!("mmv-min-{}", std::process::id()));
    let _ = std::fs::create_dir_all(&dir);
    let cf = dir.join("case.json");
    let of = dir.join("out.jsonl");
    let _ = std::fs::remove_file(&of);
    {
        let mut f = std::fs::File::create(&cf).expect("tmp case");
        let _ = f.write_all(serde_json::json!({"case": case}).to_string().as_bytes());
    }
    let exe = std::env::current_exe().expect("exe");
    let mut child = match std::process::Command::new(exe)
        .arg(prop)
        .arg("--replay")
        .arg(&cf)
        .arg("--out")
        .arg(&of)
        .stdout(std::process::Stdio::null())
        .stderr(std::process::Stdio::null())
        .spawn()
    {
        Ok(c) => c,
        Err(_) => return false,
    };
    let t0 = std::time::Instant::now();
    let status = loop {
        match child.try_wait() {
            Ok(Some(st)) => break Some(st),
            Ok(None) => {
                if t0.elapsed().as_secs() > timeout_s {
                    let _ = child.kill();
                    let _ = child.wait();
                    break None;
                }
                std::thread::sleep(std::time::Duration::from_millis(2));
            }
            Err(_) => break None,
        }
    };
    let Some(status) = status else { return sig == "hang" };
    if let Some(want) = sig.strip_prefix("crash:") {
        let want = want.split('/').next().unwrap_or(want);
        use std::os::unix::process::ExitStatusExt;
        let name = match status.signal() {
            Some(6) => "SIGIOT",
            Some(11) => "SIGSEGV",
            Some(7) => "SIGBUS",
            Some(4) => "SIGILL",
            Some(8) => "SIGFPE",
            Some(_) => "SIGOTHER",
            None => "",
        };
        return name == want || (want == "SIGABRT" && name == "SIGIOT");
    }
    let txt = std::fs::read_to_string(&of).unwrap_or_default();
    txt.lines().any(|l| {
        crate::util::parse_json_deep(l)
            .ok()
            .is_some_and(|v| v.get("ev").and_then(|e| e.as_str()) == Some("violation") && v.get("sig").and_then(|s| s.as_str()) == Some(sig))
    })
}

fn table(p: &str) -> Option<Prop> {
    Some(match p {
        "C01" => Prop { meta: c01::meta, run: c01::run, replay: c01::replay },
        "C02" => Prop { meta: c02::meta, run: c02::run, replay: c02::replay },
        "C03" => Prop { meta: c03::meta, run: c03::run, replay: c03::replay },
        "C04" => Prop { meta: c04::meta, run: c04::run, replay: c04::replay },
        "C05" => Prop { meta: c05::meta, run: c05::run, replay: c05::replay },
        "C06" => Prop { meta: c06::meta, run: c06::run, replay: c06::replay },
        "C07" => Prop { meta: c07::meta, run: c07::run, replay: c07::replay },
        "C08" => Prop { meta: c08::meta, run: c08::run, replay: c08::replay },
        "C09" => Prop { meta: c09::meta, run: c09::run, replay: c09::replay },
        "C10" => Prop { meta: c10::meta, run: c10::run, replay: c10::replay },
        "C11" => Prop { meta: c11::meta, run: c11::run, replay: c11::replay },
        "C12" => Prop { meta: c12::meta, run: c12::run, replay: c12::replay },
        "C13" => Prop { meta: c13::meta, run: c13::run, replay: c13::replay },
        "C14" => Prop { meta: c14::meta, run: c14::run, replay: c14::replay },
        "C15" => Prop { meta: c15::meta, run: c15::run, replay: c15::replay },
        "C16" => Prop { meta: c16::meta, run: c16::run, replay: c16::replay },
        "C17" => Prop { meta: c17::meta, run: c17::run, replay: c17::replay },
        "C18" => Prop { meta: c18::meta, run: c18::run, replay: c18::replay },
        "C19" => Prop { meta: c19::meta, run: c19::run, replay: c19::replay },
        "C20" => Prop { meta: c20::meta, run: c20::run, replay: c20::replay },
        _ => return None,
    })
}

pub fn dispatch(p: &str, args: &Args, out: &mut Out) -> bool {
    let Some(prop) = table(p) else { return false };
    if args.extra.contains_key("meta") {
        println!("{}", (prop.meta)(args));
        std::process::exit(0);
    }
    if let Some(path) = args.extra.get("minimise") {
        // mmv <prop> --minimise <replay file> --sig <sig>: prints the minimised case as one JSON line
        let txt = std::fs::read_to_string(path).expect("read case file");
        let v: Value = crate::util::parse_json_deep(&txt).expect("case json");
        let case = v.get("case").cloned().unwrap_or(v);
        let sig = args.extra.get("sig").cloned().unwrap_or_default();
        let small = minimise_in_children(p, &case, &sig);
        println!("{}", serde_json::json!({"case": small}));
        std::process::exit(0);
    }
    if let Some(path) = &args.replay {
        let txt = std::fs::read_to_string(path).expect("read replay file");
        let v: Value = crate::util::parse_json_deep(&txt).expect("replay json");
        let case = v.get("case").cloned().unwrap_or(v);
        (prop.replay)(args, out, &case);
        return true;
    }
    (prop.run)(args, out);
    true
}

/// Generic case loop: generate, announce (`begin`), execute under `catch`, close (`end`).
/// `exec` returns whether the case was non-trivial by the property's rule.
pub fn drive<C: Serialize>(
    args: &Args,
    out: &mut Out,
    total: usize,
    mut generate: impl FnMut(usize, &mut Rng) -> Option<C>,
    mut exec: impl FnMut(&C, usize, &mut Out) -> bool,
) {
    for idx in args.my_cases(total) {
        let mut rng = args.case_rng(idx);
        let Some(c) = generate(idx, &mut rng) else { continue };
        let j = serde_json::to_value(&c).expect("case to json");
        out.begin(idx, &j);
        let r = catch(|| exec(&c, idx, out));
        let f = fp(&j.to_string());
        match r {
            Ok(nt) => {
                if nt {
                    out.sample(&j);
                }
                out.end(idx, &f, nt)
            }
            Err(p) => {
                if p.loc.contains("harness/src") || p.loc.starts_with("src/") {
                    out.inconclusive(idx, &format!("harness panic {} @ {}", p.msg, p.loc));
                } else {
                    out.violation(idx, &p.sig(), &format!("uncaught panic: {} @ {}", p.msg, p.loc), &j);
                }
                out.end(idx, &f, false)
            }
        }
    }
}

/// Replay helper: decode the case and execute it once.
pub fn replay_one<C: Serialize + DeserializeOwned>(
    out: &mut Out,
    case: &Value,
    mut exec: impl FnMut(&C, usize, &mut Out) -> bool,
) {
    let c: C = match serde_json::from_value(case.clone()) {
        Ok(c) => c,
        Err(e) => {
            out.inconclusive(0, &format!("cannot decode replay case: {e}"));
            return;
        }
    };
    out.begin(0, case);
    let r = catch(|| exec(&c, 0, out));
    match r {
        Ok(nt) => out.end(0, &fp(&case.to_string()), nt),
        Err(p) => {
            out.violation(0, &p.sig(), &format!("uncaught panic: {} @ {}", p.msg, p.loc), case);
            out.end(0, &fp(&case.to_string()), false)
        }
    }
}

/// Subprocess-isolated minimisation for cases that carry a generated `prog` (G-AST).
pub fn minimise_in_children(prop: &str, case: &Value, sig: &str) -> Value {
    use crate::gens::core::Program;
    let Some(pv) = case.get("prog") else { return case.clone() };
    let Ok(prog) = serde_json::from_value::<Program>(pv.clone()) else { return case.clone() };
    let mk = |p: &Program, base: &Value| {
        let mut c = base.clone();
        c["prog"] = serde_json::to_value(p).unwrap();
        c["src"] = Value::String(p.print());
        c
    };
    if !child_reproduces(prop, case, sig, 60) {
        return case.clone();
    }
    let mut base = case.clone();
    // fewer samples first
    if let Some(n) = case.get("n").and_then(|n| n.as_u64()) {
        for cand in [1u64, 2, 4, 8, 16] {
            if cand < n {
                let mut c = base.clone();
                c["n"] = serde_json::json!(cand);
                if child_reproduces(prop, &c, sig, 60) {
                    base = c;
                    break;
                }
            }
        }
    }
    let mut pred = |p: &Program| crate::gens::tycheck::well_typed(p) && child_reproduces(prop, &mk(p, &base), sig, 60);
    let small = crate::gens::shrink::shrink(&prog, &mut pred, 500);
    mk(&small, &base)
}
