//! One worker sub-command per property + the generic case driver.

pub mod c08;
pub mod probe;

use crate::util::{Args, Out, Rng, catch, fp};
use serde::{Serialize, de::DeserializeOwned};
use serde_json::Value;

/// What a property module provides.
pub struct Prop {
    pub meta: fn(&Args) -> Value,
    pub run: fn(&Args, &mut Out),
    pub replay: fn(&Args, &mut Out, &Value),
}

fn table(p: &str) -> Option<Prop> {
    Some(match p {
        "C08" => Prop { meta: c08::meta, run: c08::run, replay: c08::replay },
        _ => return None,
    })
}

pub fn dispatch(p: &str, args: &Args, out: &mut Out) -> bool {
    let Some(prop) = table(p) else { return false };
    if args.extra.contains_key("meta") {
        println!("{}", (prop.meta)(args));
        std::process::exit(0);
    }
    if let Some(path) = &args.replay {
        let txt = std::fs::read_to_string(path).expect("read replay file");
        let v: Value = serde_json::from_str(&txt).expect("replay json");
        let case = v.get("case").cloned().unwrap_or(v);
        (prop.replay)(args, out, &case);
        return true;
    }
    (prop.run)(args, out);
    true
}

/// Generic case loop: generate, announce (`begin`), execute under `catch`, close (`end`).
/// `exec` returns whether the case was non-trivial by the property's rule.
pub fn drive<C: Serialize>(
    args: &Args,
    out: &mut Out,
    total: usize,
    mut generate: impl FnMut(usize, &mut Rng) -> Option<C>,
    mut exec: impl FnMut(&C, usize, &mut Out) -> bool,
) {
    for idx in args.my_cases(total) {
        let mut rng = args.case_rng(idx);
        let Some(c) = generate(idx, &mut rng) else { continue };
        let j = serde_json::to_value(&c).expect("case to json");
        out.begin(idx, &j);
        let r = catch(|| exec(&c, idx, out));
        let f = fp(&j.to_string());
        match r {
            Ok(nt) => {
                if nt {
                    out.sample(&j);
                }
                out.end(idx, &f, nt)
            }
            Err(p) => {
                if p.loc.contains("harness/src") || p.loc.starts_with("src/") {
                    out.inconclusive(idx, &format!("harness panic {} @ {}", p.msg, p.loc));
                } else {
                    out.violation(idx, &p.sig(), &format!("uncaught panic: {} @ {}", p.msg, p.loc), &j);
                }
                out.end(idx, &f, false)
            }
        }
    }
}

/// Replay helper: decode the case and execute it once.
pub fn replay_one<C: Serialize + DeserializeOwned>(
    out: &mut Out,
    case: &Value,
    mut exec: impl FnMut(&C, usize, &mut Out) -> bool,
) {
    let c: C = match serde_json::from_value(case.clone()) {
        Ok(c) => c,
        Err(e) => {
            out.inconclusive(0, &format!("cannot decode replay case: {e}"));
            return;
        }
    };
    out.begin(0, case);
    let r = catch(|| exec(&c, 0, out));
    match r {
        Ok(nt) => out.end(0, &fp(&case.to_string()), nt),
        Err(p) => {
            out.violation(0, &p.sig(), &format!("uncaught panic: {} @ {}", p.msg, p.loc), case);
            out.end(0, &fp(&case.to_string()), false)
        }
    }
}
