//! C20 — values and types survive the plugin FFI encoding.
//!
//! The real encoders/decoders are executed on explicit values and types:
//!   * `ffi_value`   : `ffi_serde::serialize_value` -> `ffi_serde::deserialize_value`
//!   * `macro_args`  : `ffi_serde::serialize_macro_args` -> `ffi_serde::deserialize_macro_args`
//!   * `serde_value` : bincode over the hand-written `Serialize/Deserialize for Value`
//!                     (interpreter/serde_impl.rs)
//!   * `type_by_value` : bincode over the hand-written `Serialize/Deserialize for Type`
//!                     (types/serde_impl.rs)
//!   * `type_node_id`  : bincode over `TypeNodeId` (what `plugin/loader.rs::get_type_infos` decodes)
//! and a structural comparator written here decides whether what came back equals what
//! went in (floats by bits, strings by bytes, records by ordered key list, code by
//! expression identity). Values that cannot cross must be refused.

use super::{drive, replay_one};
use crate::util::{Args, Out, Rng, catch};
use mimium_lang::ast::{Expr, Literal};
use mimium_lang::compiler::EvalStage;
use mimium_lang::interner::{ExprNodeId, Symbol, ToSymbol, TypeNodeId, with_session_globals};
use mimium_lang::interpreter::{ExtFunction, Value};
use mimium_lang::runtime::ffi_serde::{
    deserialize_macro_args, deserialize_value, serialize_macro_args, serialize_value,
};
use mimium_lang::types::{IntermediateId, PType, RecordTypeField, Type, TypeSchemeId, TypeVar};
use mimium_lang::utils::environment::Environment;
use mimium_lang::utils::metadata::Location;
use serde::{Deserialize, Serialize};
use serde_json::{Value as Json, json};
use std::cell::RefCell;
use std::collections::{BTreeMap, BTreeSet, HashMap};
use std::rc::Rc;
use std::sync::{Arc, RwLock};

// ------------------------------------------------------------------ artefacts

/// Code artefact: a small expression, interned when the value is built.
#[derive(Clone, Debug, PartialEq, Serialize, Deserialize)]
pub enum C {
    Int(i64),
    Var(String),
    Str(String),
    Tuple(Vec<C>),
    App(Box<C>, Vec<C>),
    Err,
    /// same expression stored with a source location (span start, end)
    At(Box<C>, usize, usize),
}

/// Value artefact. Numbers are IEEE-754 bit patterns so that NaN payloads and -0.0 are
/// carried exactly by the JSON case.
#[derive(Clone, Debug, PartialEq, Serialize, Deserialize)]
pub enum V {
    Unit,
    Num(u64),
    Str(String),
    /// deterministic string of exactly n bytes, see `big_string`
    Big(u32),
    Code(C),
    Arr(Vec<V>),
    Tup(Vec<V>),
    Rec(Vec<(String, V)>),
    Tag(u64, Box<V>),
    /// `Value::ErrorV`: in neither list of the property (see findings/C20/NOTES.md)
    ErrV,
    // values that cannot cross the boundary
    Closure,
    Fix,
    ExtFn,
    Store(Box<V>),
    CtorFn(u64),
}

/// Type artefact.
#[derive(Clone, Debug, PartialEq, Serialize, Deserialize)]
pub enum T {
    /// 0 Unit, 1 Int, 2 Numeric, 3 String
    P(u8),
    Arr(Box<T>),
    Tup(Vec<T>),
    Rec(Vec<(String, T, bool)>),
    Fun(Box<T>, Box<T>),
    Ref(Box<T>),
    Code(Box<T>),
    Uni(Vec<T>),
    Sum(String, Vec<(String, Option<T>)>),
    Boxed(Box<T>),
    Alias(String),
    Any,
    Fail,
    Unk,
    // internal compiler state: must be refused when sent by value
    Inter(u64),
    Scheme(u64),
}

#[derive(Clone, Debug, Serialize, Deserialize)]
pub enum Case {
    /// every element of the depth<=1 universe on its own, and the empty argument list
    ValBase,
    /// `ctor[first]` and `ctor[first, b]` for every b of the depth<=1 universe
    /// (records: keys "x","y"); the argument list [(first), (b)] goes through `macro_args`
    ValBlock { ctor: String, first: V },
    /// TaggedUnion(tag, b) for every b of the depth<=1 universe
    ValTagBlock { tag: u64 },
    /// every chain root(c2(c3(leaf))) of constructors, the inner value at every slot
    ValChains { root: String },
    /// every nesting context (depth <= 2) around one value that must be refused
    Refuse { bad: V },
    /// the depth<=1 type universe bare and under every unary constructor
    TyBase,
    /// `ctor[first]` and `ctor[first, b]` for every b of the depth<=1 type universe
    /// (for "Sum", `first`/b range over payload-less and payload-carrying variants)
    TyBlock { ctor: String, first: Option<T> },
    /// every chain root(c2(c3(leaf))) of type constructors, the inner type at every slot
    TyChains { root: String },
    /// depth 3 over reduced leaves: for the lo..hi-th values a of U2' (all values of depth <= 2,
    /// width <= 2 over `deep_leaves`): ctor[a], ctor[a,b], ctor[b,a] for every b of U1' (depth <= 1),
    /// or TaggedUnion(tag, a) for the five tags when ctor = "Tag"
    ValDeep { ctor: String, lo: usize, hi: usize },
    /// depth 3 over reduced type leaves: for the lo..hi-th types a of U2T': the unary ctor over a, or
    /// ctor[a,b], ctor[b,a] for b in {Numeric, alias}
    TyDeep { ctor: String, lo: usize, hi: usize },
    /// explicit values (each through ffi_value and serde_value, all together with `tys`
    /// as one macro argument list) and explicit types
    Rand { vals: Vec<V>, tys: Vec<T> },
    /// one explicit value through ffi_value and serde_value (the form violations are reported in)
    OneValue { val: V },
    /// one explicit argument list through macro_args
    OneArgs { vals: Vec<V>, tys: Vec<T> },
    /// one explicit type through type_by_value and type_node_id
    OneType { ty: T },
}

// ------------------------------------------------------------------ worker state

struct St {
    code: HashMap<String, ExprNodeId>,
    big: HashMap<u32, Symbol>,
    n: BTreeMap<String, u64>,
    sets: BTreeMap<&'static str, BTreeSet<String>>,
    q_errv: bool,
    u1: Vec<V>,
    u1t: Vec<T>,
    /// reduced universes for the depth-3 enumeration, built on first use: (U1', U2', U2T')
    deep: Option<Rc<(Vec<V>, Vec<V>, Vec<T>)>>,
}

impl St {
    fn new(args: &Args) -> St {
        let q_errv = args.q("errorv-leaf");
        St {
            code: HashMap::new(),
            big: HashMap::new(),
            n: BTreeMap::new(),
            sets: BTreeMap::new(),
            q_errv,
            u1: universe1(&leaves(q_errv)),
            u1t: type_universe1(&tleaves()),
            deep: None,
        }
    }
    fn deep(&mut self) -> Rc<(Vec<V>, Vec<V>, Vec<T>)> {
        if self.deep.is_none() {
            let u1 = universe1(&deep_leaves());
            let u2 = universe1(&u1);
            let u2t = type_universe1(&type_universe1(&deep_tleaves()));
            self.deep = Some(Rc::new((u1, u2, u2t)));
        }
        self.deep.clone().unwrap()
    }
    fn c(&mut self, k: &str, n: u64) {
        if let Some(x) = self.n.get_mut(k) {
            *x += n;
        } else {
            self.n.insert(k.to_string(), n);
        }
    }
    fn s(&mut self, k: &'static str, v: String) {
        let s = self.sets.entry(k).or_default();
        if s.len() < 4000 {
            s.insert(v);
        }
    }
    fn flush(&mut self, out: &mut Out) {
        for (k, v) in std::mem::take(&mut self.n) {
            out.count(&k, v);
        }
        for (k, vs) in std::mem::take(&mut self.sets) {
            for v in vs {
                out.set(k, v);
            }
        }
    }
}

// ------------------------------------------------------------------ building real values

/// Exactly `n` bytes: cycles through 1-, 2- and 4-byte characters and NUL, padded with 'x'.
fn big_string(n: u32) -> String {
    let n = n as usize;
    let cyc = ['a', 'é', '\0', '𝄞', 'z', '日'];
    let mut s = String::with_capacity(n);
    let mut i = 0;
    loop {
        let ch = cyc[i % cyc.len()];
        if s.len() + ch.len_utf8() > n {
            break;
        }
        s.push(ch);
        i += 1;
    }
    while s.len() < n {
        s.push('x');
    }
    s
}

fn build_code_raw(c: &C) -> ExprNodeId {
    match c {
        C::Int(n) => Expr::Literal(Literal::Int(*n)).into_id_without_span(),
        C::Var(s) => Expr::Var(s.to_symbol()).into_id_without_span(),
        C::Str(s) => Expr::Literal(Literal::String(s.to_symbol())).into_id_without_span(),
        C::Tuple(cs) => Expr::Tuple(cs.iter().map(build_code_raw).collect()).into_id_without_span(),
        C::App(f, a) => Expr::Apply(build_code_raw(f), a.iter().map(build_code_raw).collect()).into_id_without_span(),
        C::Err => Expr::Error.into_id_without_span(),
        C::At(inner, a, b) => {
            let e = build_code_raw(inner).to_expr();
            e.into_id(Location::new(*a..*b, std::path::PathBuf::from("c20.mmm")))
        }
    }
}

fn build_code(st: &mut St, c: &C) -> ExprNodeId {
    let key = serde_json::to_string(c).unwrap();
    if let Some(id) = st.code.get(&key) {
        return *id;
    }
    let id = build_code_raw(c);
    st.code.insert(key, id);
    id
}

fn build(st: &mut St, v: &V) -> Value {
    match v {
        V::Unit => Value::Unit,
        V::Num(b) => Value::Number(f64::from_bits(*b)),
        V::Str(s) => Value::String(s.to_symbol()),
        V::Big(n) => {
            if let Some(s) = st.big.get(n) {
                return Value::String(*s);
            }
            let sym = big_string(*n).to_symbol();
            st.big.insert(*n, sym);
            Value::String(sym)
        }
        V::Code(c) => Value::Code(build_code(st, c)),
        V::Arr(xs) => Value::Array(xs.iter().map(|x| build(st, x)).collect()),
        V::Tup(xs) => Value::Tuple(xs.iter().map(|x| build(st, x)).collect()),
        V::Rec(fs) => Value::Record(fs.iter().map(|(k, x)| (k.to_symbol(), build(st, x))).collect()),
        V::Tag(t, x) => Value::TaggedUnion(*t, Box::new(build(st, x))),
        V::ErrV => Value::ErrorV(build_code(st, &C::Err)),
        V::Closure => Value::Closure(
            build_code(st, &C::Int(0)),
            vec!["p".to_symbol()],
            Environment::<(Value, EvalStage)>::new(),
        ),
        V::Fix => Value::Fixpoint("fixme".to_symbol(), build_code(st, &C::Var("fixme".into()))),
        V::ExtFn => Value::ExternalFn(ExtFunction::new("c20_ext".to_symbol(), |_| Value::Unit)),
        V::Store(x) => Value::Store(Rc::new(RefCell::new(build(st, x)))),
        V::CtorFn(t) => Value::ConstructorFn(*t, "Ctor".to_symbol(), build_type(&T::P(2))),
    }
}

fn ptype(n: u8) -> PType {
    match n {
        0 => PType::Unit,
        1 => PType::Int,
        2 => PType::Numeric,
        _ => PType::String,
    }
}

fn build_type(t: &T) -> TypeNodeId {
    let ty = match t {
        T::P(n) => Type::Primitive(ptype(*n)),
        T::Arr(x) => Type::Array(build_type(x)),
        T::Tup(xs) => Type::Tuple(xs.iter().map(build_type).collect()),
        T::Rec(fs) => Type::Record(fs.iter().map(|(k, x, d)| RecordTypeField::new(k.to_symbol(), build_type(x), *d)).collect()),
        T::Fun(a, r) => Type::Function { arg: build_type(a), ret: build_type(r) },
        T::Ref(x) => Type::Ref(build_type(x)),
        T::Code(x) => Type::Code(build_type(x)),
        T::Uni(xs) => Type::Union(xs.iter().map(build_type).collect()),
        T::Sum(name, vs) => Type::UserSum {
            name: name.to_symbol(),
            variants: vs.iter().map(|(k, p)| (k.to_symbol(), p.as_ref().map(build_type))).collect(),
        },
        T::Boxed(x) => Type::Boxed(build_type(x)),
        T::Alias(s) => Type::TypeAlias(s.to_symbol()),
        T::Any => Type::Any,
        T::Fail => Type::Failure,
        T::Unk => Type::Unknown,
        T::Inter(n) => Type::Intermediate(Arc::new(RwLock::new(TypeVar::new(IntermediateId(*n), 0)))),
        T::Scheme(n) => Type::TypeScheme(TypeSchemeId(*n)),
    };
    ty.into_id()
}

/// A plausible static type for a value (what the host would send along with it).
fn type_of(v: &V) -> T {
    match v {
        V::Unit => T::P(0),
        V::Num(_) => T::P(2),
        V::Str(_) | V::Big(_) => T::P(3),
        V::Code(_) => T::Code(Box::new(T::P(2))),
        V::Arr(xs) => T::Arr(Box::new(xs.first().map(type_of).unwrap_or(T::Unk))),
        V::Tup(xs) => T::Tup(xs.iter().map(type_of).collect()),
        V::Rec(fs) => T::Rec(fs.iter().map(|(k, x)| (k.clone(), type_of(x), false)).collect()),
        V::Tag(_, x) => T::Uni(vec![type_of(x), T::P(0)]),
        V::ErrV => T::Fail,
        V::Store(x) => T::Ref(Box::new(type_of(x))),
        V::Closure | V::Fix | V::ExtFn | V::CtorFn(_) => T::Fun(Box::new(T::P(2)), Box::new(T::P(2))),
    }
}

// ------------------------------------------------------------------ structural comparators

fn kind(v: &Value) -> &'static str {
    match v {
        Value::ErrorV(_) => "ErrorV",
        Value::Unit => "Unit",
        Value::Number(_) => "Number",
        Value::String(_) => "String",
        Value::Array(_) => "Array",
        Value::Record(_) => "Record",
        Value::Tuple(_) => "Tuple",
        Value::Closure(..) => "Closure",
        Value::Fixpoint(..) => "Fixpoint",
        Value::Code(_) => "Code",
        Value::ExternalFn(_) => "ExternalFn",
        Value::Store(_) => "Store",
        Value::TaggedUnion(..) => "TaggedUnion",
        Value::ConstructorFn(..) => "ConstructorFn",
    }
}

fn sym_valid(s: Symbol) -> bool {
    with_session_globals(|g| g.symbol_interner.resolve(s.0).is_some())
}

fn sym_eq(a: Symbol, b: Symbol) -> Result<(), String> {
    if a.0 == b.0 {
        return Ok(());
    }
    if !sym_valid(b) {
        return Err(format!("decoded symbol {} is not interned", b.0));
    }
    if a.as_str().as_bytes() == b.as_str().as_bytes() {
        Ok(())
    } else {
        Err(format!("{:?} became {:?}", clip(a.as_str()), clip(b.as_str())))
    }
}

fn clip(s: &str) -> String {
    if s.len() <= 48 {
        s.to_string()
    } else {
        let mut e = 40;
        while !s.is_char_boundary(e) {
            e -= 1;
        }
        format!("{}…({} bytes)", &s[..e], s.len())
    }
}

fn expr_eq(a: ExprNodeId, b: ExprNodeId) -> Result<(), String> {
    if a.0 == b.0 {
        return Ok(());
    }
    if !with_session_globals(|g| g.expr_storage.contains_key(b.0)) {
        return Err("decoded expression id is not in the interner".into());
    }
    // a different id is still the same code if the repository's own equality says so
    if a.to_expr() == b.to_expr() && a.to_span() == b.to_span() {
        Ok(())
    } else {
        Err(format!("expression {} became {}", a, b))
    }
}

type Diff = (String, String); // (class tag, detail)

fn veq(a: &Value, b: &Value, path: &str) -> Result<(), Diff> {
    let seq = |xs: &[Value], ys: &[Value], what: &str| -> Result<(), Diff> {
        if xs.len() != ys.len() {
            return Err((format!("{what}-length"), format!("at {path}: {} elements became {}", xs.len(), ys.len())));
        }
        for (i, (x, y)) in xs.iter().zip(ys).enumerate() {
            veq(x, y, &format!("{path}[{i}]"))?;
        }
        Ok(())
    };
    match (a, b) {
        (Value::Unit, Value::Unit) => Ok(()),
        (Value::Number(x), Value::Number(y)) => {
            if x.to_bits() == y.to_bits() {
                Ok(())
            } else {
                Err(("Number-bits".into(), format!("at {path}: {:#018x} ({x:?}) became {:#018x} ({y:?})", x.to_bits(), y.to_bits())))
            }
        }
        (Value::String(x), Value::String(y)) => sym_eq(*x, *y).map_err(|e| ("String-bytes".into(), format!("at {path}: {e}"))),
        (Value::Array(x), Value::Array(y)) => seq(x, y, "Array"),
        (Value::Tuple(x), Value::Tuple(y)) => seq(x, y, "Tuple"),
        (Value::Record(x), Value::Record(y)) => {
            if x.len() != y.len() {
                return Err(("Record-length".into(), format!("at {path}: {} fields became {}", x.len(), y.len())));
            }
            for (i, ((ka, va), (kb, vb))) in x.iter().zip(y).enumerate() {
                sym_eq(*ka, *kb).map_err(|e| ("Record-key".to_string(), format!("at {path}.#{i}: key {e}")))?;
                veq(va, vb, &format!("{path}.#{i}"))?;
            }
            Ok(())
        }
        (Value::TaggedUnion(ta, x), Value::TaggedUnion(tb, y)) => {
            if ta != tb {
                return Err(("TaggedUnion-tag".into(), format!("at {path}: tag {ta} became {tb}")));
            }
            veq(x, y, &format!("{path}.payload"))
        }
        (Value::Code(x), Value::Code(y)) => expr_eq(*x, *y).map_err(|e| ("Code-expression".into(), format!("at {path}: {e}"))),
        (Value::ErrorV(x), Value::ErrorV(y)) => expr_eq(*x, *y).map_err(|e| ("ErrorV-expression".into(), format!("at {path}: {e}"))),
        (Value::Fixpoint(sa, x), Value::Fixpoint(sb, y)) => {
            sym_eq(*sa, *sb).map_err(|e| ("Fixpoint-name".to_string(), format!("at {path}: {e}")))?;
            expr_eq(*x, *y).map_err(|e| ("Fixpoint-expression".into(), format!("at {path}: {e}")))
        }
        (Value::ConstructorFn(ta, sa, ya), Value::ConstructorFn(tb, sb, yb)) => {
            if ta != tb {
                return Err(("ConstructorFn-tag".into(), format!("at {path}: tag {ta} became {tb}")));
            }
            sym_eq(*sa, *sb).map_err(|e| ("ConstructorFn-name".to_string(), format!("at {path}: {e}")))?;
            tid_eq(*ya, *yb, path).map_err(|(c, d)| (format!("ConstructorFn-type-{c}"), d))
        }
        _ if kind(a) == kind(b) => Ok(()), // Closure / ExternalFn / Store: never decoded
        _ => Err((format!("{}->{}", kind(a), kind(b)), format!("at {path}: {} became {}", kind(a), kind(b)))),
    }
}

fn tkind(t: &Type) -> &'static str {
    match t {
        Type::Primitive(_) => "Primitive",
        Type::Array(_) => "Array",
        Type::Tuple(_) => "Tuple",
        Type::Record(_) => "Record",
        Type::Function { .. } => "Function",
        Type::Ref(_) => "Ref",
        Type::Code(_) => "Code",
        Type::Union(_) => "Union",
        Type::UserSum { .. } => "UserSum",
        Type::Boxed(_) => "Boxed",
        Type::Intermediate(_) => "Intermediate",
        Type::TypeScheme(_) => "TypeScheme",
        Type::TypeAlias(_) => "TypeAlias",
        Type::Any => "Any",
        Type::Failure => "Failure",
        Type::Unknown => "Unknown",
    }
}

/// Equality of two type ids: the same key, or (valid and) structurally equal types.
fn tid_eq(a: TypeNodeId, b: TypeNodeId, path: &str) -> Result<(), Diff> {
    if a.0 == b.0 {
        return Ok(());
    }
    if !with_session_globals(|g| g.type_storage.contains_key(b.0)) {
        return Err(("dangling-id".into(), format!("at {path}: decoded type id is not in the interner")));
    }
    teq(&a.to_type(), &b.to_type(), path)
}

fn teq(a: &Type, b: &Type, path: &str) -> Result<(), Diff> {
    let ids = |xs: &[TypeNodeId], ys: &[TypeNodeId], what: &str| -> Result<(), Diff> {
        if xs.len() != ys.len() {
            return Err((format!("{what}-length"), format!("at {path}: {} members became {}", xs.len(), ys.len())));
        }
        for (i, (x, y)) in xs.iter().zip(ys).enumerate() {
            tid_eq(*x, *y, &format!("{path}/{what}[{i}]"))?;
        }
        Ok(())
    };
    match (a, b) {
        (Type::Primitive(x), Type::Primitive(y)) => {
            if x == y {
                Ok(())
            } else {
                Err(("Primitive".into(), format!("at {path}: {x:?} became {y:?}")))
            }
        }
        (Type::Array(x), Type::Array(y)) => tid_eq(*x, *y, &format!("{path}/Array")),
        (Type::Ref(x), Type::Ref(y)) => tid_eq(*x, *y, &format!("{path}/Ref")),
        (Type::Code(x), Type::Code(y)) => tid_eq(*x, *y, &format!("{path}/Code")),
        (Type::Boxed(x), Type::Boxed(y)) => tid_eq(*x, *y, &format!("{path}/Boxed")),
        (Type::Tuple(x), Type::Tuple(y)) => ids(x, y, "Tuple"),
        (Type::Union(x), Type::Union(y)) => ids(x, y, "Union"),
        (Type::Record(x), Type::Record(y)) => {
            if x.len() != y.len() {
                return Err(("Record-length".into(), format!("at {path}: {} fields became {}", x.len(), y.len())));
            }
            for (i, (fa, fb)) in x.iter().zip(y).enumerate() {
                sym_eq(fa.key, fb.key).map_err(|e| ("Record-key".to_string(), format!("at {path}/Record#{i}: key {e}")))?;
                if fa.has_default != fb.has_default {
                    return Err(("Record-has_default".into(), format!("at {path}/Record#{i}: has_default {} became {}", fa.has_default, fb.has_default)));
                }
                tid_eq(fa.ty, fb.ty, &format!("{path}/Record#{i}"))?;
            }
            Ok(())
        }
        (Type::Function { arg: a1, ret: r1 }, Type::Function { arg: a2, ret: r2 }) => {
            tid_eq(*a1, *a2, &format!("{path}/Function.arg")).map_err(|(_, d)| ("Function-arg".to_string(), d))?;
            tid_eq(*r1, *r2, &format!("{path}/Function.ret")).map_err(|(_, d)| ("Function-ret".to_string(), d))
        }
        (Type::UserSum { name: n1, variants: v1 }, Type::UserSum { name: n2, variants: v2 }) => {
            sym_eq(*n1, *n2).map_err(|e| ("UserSum-name".to_string(), format!("at {path}: name {e}")))?;
            if v1.len() != v2.len() {
                return Err(("UserSum-length".into(), format!("at {path}: {} variants became {}", v1.len(), v2.len())));
            }
            for (i, ((ka, pa), (kb, pb))) in v1.iter().zip(v2).enumerate() {
                sym_eq(*ka, *kb).map_err(|e| ("UserSum-variant-name".to_string(), format!("at {path}/UserSum#{i}: {e}")))?;
                match (pa, pb) {
                    (None, None) => {}
                    (Some(x), Some(y)) => tid_eq(*x, *y, &format!("{path}/UserSum#{i}"))?,
                    _ => {
                        return Err(("UserSum-variant-payload".into(), format!("at {path}/UserSum#{i}: payload presence {} became {}", pa.is_some(), pb.is_some())));
                    }
                }
            }
            Ok(())
        }
        (Type::TypeAlias(x), Type::TypeAlias(y)) => sym_eq(*x, *y).map_err(|e| ("TypeAlias-name".into(), format!("at {path}: {e}"))),
        (Type::Any, Type::Any) | (Type::Failure, Type::Failure) | (Type::Unknown, Type::Unknown) => Ok(()),
        (Type::TypeScheme(x), Type::TypeScheme(y)) if x == y => Ok(()),
        (Type::Intermediate(x), Type::Intermediate(y)) if Arc::ptr_eq(x, y) || x.read().unwrap().var == y.read().unwrap().var => Ok(()),
        _ => Err((format!("{}->{}", tkind(a), tkind(b)), format!("at {path}: {} became {}", tkind(a), tkind(b)))),
    }
}

// ------------------------------------------------------------------ what the monitor saw

fn observe(st: &mut St, v: &Value, depth: usize) {
    let k: String = match v {
        Value::Unit => "unit".into(),
        Value::Number(x) => {
            if x.is_nan() {
                format!("nan:{}", if x.to_bits() == f64::NAN.to_bits() { "canonical" } else { "other-payload" })
            } else if x.is_infinite() {
                if *x > 0.0 { "+inf".into() } else { "-inf".into() }
            } else if *x == 0.0 {
                if x.is_sign_negative() { "-0.0".into() } else { "0.0".into() }
            } else if x.is_subnormal() {
                "subnormal".into()
            } else {
                "normal".into()
            }
        }
        Value::String(s) => {
            let s = s.as_str();
            if s.is_empty() {
                "str:empty".into()
            } else if s.len() >= 65536 {
                "str:>=64KiB".into()
            } else if s.contains('\0') {
                "str:with-NUL".into()
            } else if !s.is_ascii() {
                "str:non-ascii".into()
            } else {
                "str:ascii".into()
            }
        }
        Value::Code(_) => "code".into(),
        Value::ErrorV(_) => "errorv".into(),
        Value::Array(x) => {
            x.iter().for_each(|e| observe(st, e, depth + 1));
            format!("array/{}", wclass(x.len()))
        }
        Value::Tuple(x) => {
            x.iter().for_each(|e| observe(st, e, depth + 1));
            format!("tuple/{}", wclass(x.len()))
        }
        Value::Record(x) => {
            x.iter().for_each(|(_, e)| observe(st, e, depth + 1));
            format!("record/{}", wclass(x.len()))
        }
        Value::TaggedUnion(t, p) => {
            observe(st, p, depth + 1);
            format!("tagged/{}", if *t > u32::MAX as u64 { "tag>u32" } else { "tag<=u32" })
        }
        other => kind(other).to_string(),
    };
    st.s("decoded_node_kinds", format!("d{}:{k}", depth.min(4)));
}

fn wclass(n: usize) -> &'static str {
    match n {
        0 => "w0",
        1 => "w1",
        2 => "w2",
        3..=8 => "w3-8",
        _ => "w>8",
    }
}

fn vshape(v: &V, d: usize) -> String {
    let seq = |n: &str, xs: Vec<&V>| {
        if d == 0 || xs.is_empty() {
            format!("{n}{}", xs.len())
        } else {
            format!("{n}({})", xs.iter().map(|x| vshape(x, d - 1)).collect::<Vec<_>>().join(","))
        }
    };
    match v {
        V::Unit => "U".into(),
        V::Num(_) => "N".into(),
        V::Str(_) | V::Big(_) => "S".into(),
        V::Code(_) => "C".into(),
        V::Arr(x) => seq("Arr", x.iter().collect()),
        V::Tup(x) => seq("Tup", x.iter().collect()),
        V::Rec(x) => seq("Rec", x.iter().map(|f| &f.1).collect()),
        V::Tag(_, x) => seq("Tag", vec![x]),
        V::ErrV => "E".into(),
        V::Closure => "Closure".into(),
        V::Fix => "Fixpoint".into(),
        V::ExtFn => "ExternalFn".into(),
        V::Store(_) => "Store".into(),
        V::CtorFn(_) => "ConstructorFn".into(),
    }
}

fn tshape(t: &T, d: usize) -> String {
    let seq = |n: &str, xs: Vec<&T>| {
        if d == 0 || xs.is_empty() {
            format!("{n}{}", xs.len())
        } else {
            format!("{n}({})", xs.iter().map(|x| tshape(x, d - 1)).collect::<Vec<_>>().join(","))
        }
    };
    match t {
        T::P(n) => format!("p{n}"),
        T::Arr(x) => seq("Arr", vec![x]),
        T::Ref(x) => seq("Ref", vec![x]),
        T::Code(x) => seq("Code", vec![x]),
        T::Boxed(x) => seq("Boxed", vec![x]),
        T::Tup(x) => seq("Tup", x.iter().collect()),
        T::Uni(x) => seq("Uni", x.iter().collect()),
        T::Rec(x) => seq("Rec", x.iter().map(|f| &f.1).collect()),
        T::Fun(a, r) => seq("Fun", vec![a, r]),
        T::Sum(_, vs) => {
            if d == 0 || vs.is_empty() {
                format!("Sum{}", vs.len())
            } else {
                format!("Sum({})", vs.iter().map(|(_, p)| p.as_ref().map(|x| tshape(x, d - 1)).unwrap_or("-".into())).collect::<Vec<_>>().join(","))
            }
        }
        T::Alias(_) => "Alias".into(),
        T::Any => "Any".into(),
        T::Fail => "Fail".into(),
        T::Unk => "Unk".into(),
        T::Inter(_) => "Inter".into(),
        T::Scheme(_) => "Scheme".into(),
    }
}

// ------------------------------------------------------------------ the oracle

#[derive(Clone, Copy, PartialEq, Debug)]
enum Expect {
    /// must encode, decode and compare equal
    Representable,
    /// must be refused by the encoder
    Refuse(&'static str),
    /// not promised to cross: refused, or decoded equal — never altered
    Either(&'static str),
}

/// (first kind that cannot cross via FfiValue, first kind serde_value cannot carry, contains ErrorV)
fn scan(v: &V, ffi_bad: &mut Option<&'static str>, serde_bad: &mut Option<&'static str>, serde_either: &mut bool, errv: &mut bool) {
    match v {
        V::Arr(x) | V::Tup(x) => x.iter().for_each(|e| scan(e, ffi_bad, serde_bad, serde_either, errv)),
        V::Rec(x) => x.iter().for_each(|(_, e)| scan(e, ffi_bad, serde_bad, serde_either, errv)),
        V::Tag(_, x) => scan(x, ffi_bad, serde_bad, serde_either, errv),
        V::ErrV => {
            *errv = true;
            *serde_either = true;
        }
        V::Closure => {
            ffi_bad.get_or_insert("Closure");
            serde_bad.get_or_insert("Closure");
        }
        V::ExtFn => {
            ffi_bad.get_or_insert("ExternalFn");
            serde_bad.get_or_insert("ExternalFn");
        }
        V::Store(_) => {
            ffi_bad.get_or_insert("Store");
            serde_bad.get_or_insert("Store");
        }
        V::Fix => {
            ffi_bad.get_or_insert("Fixpoint");
            *serde_either = true;
        }
        V::CtorFn(_) => {
            ffi_bad.get_or_insert("ConstructorFn");
            *serde_either = true;
        }
        _ => {}
    }
}

fn expectations(vs: &[&V]) -> (Expect, Expect) {
    let (mut fb, mut sb, mut se, mut ev) = (None, None, false, false);
    for v in vs {
        scan(v, &mut fb, &mut sb, &mut se, &mut ev);
    }
    let ffi = match fb {
        Some(k) => Expect::Refuse(k),
        None if ev => Expect::Either("ErrorV"),
        None => Expect::Representable,
    };
    let serde = match sb {
        Some(k) => Expect::Refuse(k),
        None if se => Expect::Either("Fixpoint/ConstructorFn/ErrorV"),
        None => Expect::Representable,
    };
    (ffi, serde)
}

fn report(st: &mut St, out: &mut Out, idx: usize, sig: String, detail: String, case: &Case) {
    let key = format!("violations:{sig}");
    let n = out.counters.get(&key).copied().unwrap_or(0) + st.n.get(&key).copied().unwrap_or(0);
    st.c(&key, 1);
    if n < 25 {
        out.violation(idx, &sig, &detail, &serde_json::to_value(case).unwrap());
    }
}

fn show(v: &V) -> String {
    clip(&serde_json::to_string(v).unwrap_or_default())
}

#[derive(Clone, Copy, PartialEq)]
enum R {
    /// encoded, decoded, compared equal
    Equal,
    /// refused, as expected (or allowed)
    Refused,
    /// a violation was reported
    Failed,
}
impl R {
    fn done(self) -> u64 {
        (self != R::Failed) as u64
    }
}

/// One encode/decode round of one API. `enc`/`dec` call the real code.
#[allow(clippy::too_many_arguments)]
fn round<X>(
    st: &mut St,
    out: &mut Out,
    idx: usize,
    api: &str,
    expect: Expect,
    what: &str,
    wit: &Case,
    enc: impl FnOnce() -> Result<Vec<u8>, String>,
    dec: impl FnOnce(&[u8]) -> Result<X, String>,
    cmp: impl FnOnce(&mut St, &X) -> Result<(), Diff>,
) -> R {
    let bytes = match catch(enc) {
        Err(p) => {
            report(st, out, idx, p.sig(), format!("{api} encoder panicked on {what}: {} @ {}", p.msg, p.loc), wit);
            return R::Failed;
        }
        Ok(Err(e)) => {
            return match expect {
                Expect::Representable => {
                    report(st, out, idx, format!("representable-refused/{api}:encode"), format!("{api} refused {what}: {e}"), wit);
                    R::Failed
                }
                Expect::Refuse(k) => {
                    st.c(&format!("refusals_observed:{api}:{k}"), 1);
                    R::Refused
                }
                Expect::Either(k) => {
                    st.c(&format!("refusals_observed:{api}:{k}"), 1);
                    R::Refused
                }
            };
        }
        Ok(Ok(b)) => b,
    };
    if let Expect::Refuse(k) = expect {
        report(st, out, idx, format!("non-representable-accepted/{api}/{k}"), format!("{api} encoded {what} ({} bytes) although it contains a {k}, which cannot cross the boundary", bytes.len()), wit);
        return R::Failed;
    }
    st.c(&format!("bytes_encoded:{api}"), bytes.len() as u64);
    let back = match catch(|| dec(&bytes)) {
        Err(p) => {
            report(st, out, idx, p.sig(), format!("{api} decoder panicked on the encoding of {what}: {} @ {}", p.msg, p.loc), wit);
            return R::Failed;
        }
        Ok(Err(e)) => {
            report(st, out, idx, format!("own-encoding-undecodable/{api}"), format!("{api} cannot decode its own encoding of {what}: {e}"), wit);
            return R::Failed;
        }
        Ok(Ok(x)) => x,
    };
    match catch(|| cmp(st, &back)) {
        Err(p) => {
            // the comparator only dereferences ids it has validated; a panic here comes from the repository's accessors
            report(st, out, idx, p.sig(), format!("reading the decoded {what} panicked: {} @ {}", p.msg, p.loc), wit);
            R::Failed
        }
        Ok(Err((class, detail))) => {
            report(st, out, idx, format!("differs-after-roundtrip/{api}/{class}"), format!("{what}: {detail}"), wit);
            R::Failed
        }
        Ok(Ok(())) => {
            st.c(&format!("roundtrips_equal:{api}"), 1);
            R::Equal
        }
    }
}

/// One value through `ffi_value` and `serde_value`. Returns the number of completed checks.
fn check_value(st: &mut St, out: &mut Out, idx: usize, v: &V) -> u64 {
    let wit = Case::OneValue { val: v.clone() };
    let val = match catch(|| build(st, v)) {
        Ok(x) => x,
        Err(p) => {
            out.inconclusive(idx, &format!("could not build value: {} @ {}", p.msg, p.loc));
            return 0;
        }
    };
    let (ef, es) = expectations(&[v]);
    let what = format!("value {}", show(v));
    let mut done = 0;
    done += round(
        st, out, idx, "ffi_value", ef, &what, &wit,
        || serialize_value(&val),
        deserialize_value,
        |st, back| {
            observe(st, back, 0);
            veq(&val, back, "$")
        },
    )
    .done();
    done += round(
        st, out, idx, "serde_value", es, &what, &wit,
        || bincode::serialize(&val).map_err(|e| e.to_string()),
        |b| bincode::deserialize::<Value>(b).map_err(|e| e.to_string()),
        |_, back| veq(&val, back, "$"),
    )
    .done();
    // the host side of the dynamic-plugin macro bridge (plugin/loader.rs DynPluginMacroInfo) around an
    // in-process plugin macro that returns its first argument: what the host sends must come back
    if matches!(ef, Expect::Representable) {
        let ty = build_type(&type_of(v));
        match catch(|| bridge_identity(&val, ty)) {
            Err(p) => report(st, out, idx, p.sig(), format!("the macro bridge panicked on {what}: {} @ {}", p.msg, p.loc), &wit),
            Ok(back) => match catch(|| veq(&val, &back, "$")) {
                Ok(Ok(())) => {
                    st.c("roundtrips_equal:macro_bridge", 1);
                    done += 1;
                }
                Ok(Err((class, detail))) => report(st, out, idx, format!("differs-after-roundtrip/macro_bridge/{class}"), format!("{what}: {detail}"), &wit),
                Err(p) => report(st, out, idx, p.sig(), format!("reading the value returned by the macro bridge for {what} panicked: {} @ {}", p.msg, p.loc), &wit),
            },
        }
    }
    st.c("values_checked", 1);
    done
}

/// Same shape as the `__ffi_macro_*` functions generated by mimium-plugin-macros: decode the
/// arguments, call the method (here: identity on the first argument), encode the result and hand the
/// buffer over as a leaked boxed slice.
unsafe extern "C" fn ffi_macro_identity(
    instance: *mut std::ffi::c_void,
    args_ptr: *const u8,
    args_len: usize,
    out_ptr: *mut *mut u8,
    out_len: *mut usize,
) -> i32 {
    if instance.is_null() || args_ptr.is_null() || out_ptr.is_null() || out_len.is_null() {
        return -3;
    }
    unsafe {
        let args_bytes = std::slice::from_raw_parts(args_ptr, args_len);
        let args = match mimium_lang::runtime::ffi_serde::deserialize_macro_args(args_bytes) {
            Ok(a) => a,
            Err(_) => return -1,
        };
        let Some(first) = args.first() else { return -1 };
        let result_bytes = match serialize_value(&first.0) {
            Ok(b) => b,
            Err(_) => return -2,
        };
        let boxed = result_bytes.into_boxed_slice();
        *out_len = boxed.len();
        *out_ptr = Box::into_raw(boxed) as *mut u8;
        0
    }
}

fn bridge_identity(val: &Value, ty: TypeNodeId) -> Value {
    use mimium_lang::plugin::MacroFunction;
    use mimium_lang::plugin::loader::{DynPluginMacroInfo, PluginInstance};
    // any non-null pointer will do as the instance: the identity macro never dereferences it
    let mut dummy = 0u8;
    let instance = &mut dummy as *mut u8 as *mut PluginInstance;
    let unit = Type::Primitive(PType::Unit).into_id();
    let fn_ty = Type::Function { arg: unit, ret: unit }.into_id();
    let info = unsafe { DynPluginMacroInfo::new("c20_identity".to_symbol(), fn_ty, instance, ffi_macro_identity) };
    let f = info.get_fn();
    let r = (f.borrow())(&[(val.clone(), ty)]);
    r
}

/// One macro argument list.
fn check_args(st: &mut St, out: &mut Out, idx: usize, vals: &[&V], tys: &[T]) -> u64 {
    let tys_full: Vec<T> = vals.iter().enumerate().map(|(i, v)| tys.get(i).cloned().unwrap_or_else(|| type_of(v))).collect();
    let tys = &tys_full[..];
    let wit = Case::OneArgs { vals: vals.iter().map(|v| (*v).clone()).collect(), tys: tys_full.clone() };
    let built = catch(|| {
        vals.iter()
            .enumerate()
            .map(|(i, v)| {
                let t = tys.get(i).cloned().unwrap_or_else(|| type_of(v));
                (build(st, v), build_type(&t))
            })
            .collect::<Vec<(Value, TypeNodeId)>>()
    });
    let args = match built {
        Ok(x) => x,
        Err(p) => {
            out.inconclusive(idx, &format!("could not build arguments: {} @ {}", p.msg, p.loc));
            return 0;
        }
    };
    let (ef, _) = expectations(vals);
    let what = format!("argument list of {} [{}]", vals.len(), clip(&vals.iter().map(|v| vshape(v, 1)).collect::<Vec<_>>().join(", ")));
    st.c("macro_arg_lists_checked", 1);
    let n = args.len() as u64;
    let r = round(
        st, out, idx, "macro_args", ef, &what, &wit,
        || serialize_macro_args(&args),
        deserialize_macro_args,
        |st, back| {
            if back.len() != args.len() {
                return Err(("list-length".into(), format!("{} arguments became {}", args.len(), back.len())));
            }
            for (i, ((va, ta), (vb, tb))) in args.iter().zip(back).enumerate() {
                veq(va, vb, &format!("$arg{i}"))?;
                tid_eq(*ta, *tb, &format!("$arg{i}:type")).map_err(|(c, d)| (format!("arg-type/{c}"), d))?;
                if ta.0 == tb.0 {
                    st.c("arg_types_same_id", 1);
                }
            }
            Ok(())
        },
    );
    if r == R::Equal {
        st.c("macro_args_roundtripped", n);
        st.s("macro_arg_list_lengths", wclass(args.len()).to_string());
    }
    r.done()
}

/// One type: by value (`Type`) and as `TypeNodeId`.
fn check_type(st: &mut St, out: &mut Out, idx: usize, t: &T) -> u64 {
    let wit = Case::OneType { ty: t.clone() };
    let id = match catch(|| build_type(t)) {
        Ok(x) => x,
        Err(p) => {
            out.inconclusive(idx, &format!("could not build type: {} @ {}", p.msg, p.loc));
            return 0;
        }
    };
    let ty = id.to_type();
    let what = format!("type {}", clip(&serde_json::to_string(t).unwrap_or_default()));
    let expect = match t {
        // internal compiler state: today refused by value; carrying it unchanged would also satisfy the property
        T::Inter(_) => Expect::Either("Intermediate"),
        T::Scheme(_) => Expect::Either("TypeScheme"),
        _ => Expect::Representable,
    };
    let mut done = 0;
    st.c("types_checked", 1);
    done += round(
        st, out, idx, "type_by_value", expect, &what, &wit,
        || bincode::serialize(&ty).map_err(|e| e.to_string()),
        |b| bincode::deserialize::<Type>(b).map_err(|e| e.to_string()),
        |st, back| {
            st.s("decoded_type_constructors", tkind(back).to_string());
            teq(&ty, back, "$")
        },
    )
    .done();
    // a TypeNodeId is a key into the shared interner: every type, internal ones included, is representable
    done += round(
        st, out, idx, "type_node_id", Expect::Representable, &what, &wit,
        || bincode::serialize(&id).map_err(|e| e.to_string()),
        |b| bincode::deserialize::<TypeNodeId>(b).map_err(|e| e.to_string()),
        |_, back| tid_eq(id, *back, "$"),
    )
    .done();
    done
}

// ------------------------------------------------------------------ enumerated universes

const NAN1: u64 = 0x7ff8_0000_0000_0000; // canonical quiet NaN
const NAN2: u64 = 0xfff4_0000_dead_beef; // negative, signalling-range payload
const TAGS: [u64; 5] = [0, 1, 0xffff_ffff, 0x1_0000_0000, u64::MAX];
const VCTORS: [&str; 3] = ["Arr", "Tup", "Rec"];
const TCTORS2: [&str; 5] = ["Tup", "Rec", "Fun", "Uni", "Sum"];
const TCTORS1: [&str; 4] = ["Arr", "Ref", "Code", "Boxed"];

fn leaves(q_errv: bool) -> Vec<V> {
    let mut l = vec![
        V::Unit,
        V::Num(0.0f64.to_bits()),
        V::Num((-0.0f64).to_bits()),
        V::Num(NAN1),
        V::Num(NAN2),
        V::Num(f64::INFINITY.to_bits()),
        V::Num(f64::NEG_INFINITY.to_bits()),
        V::Num(5e-324f64.to_bits()),
        V::Num(1e308f64.to_bits()),
        V::Str(String::new()),
        V::Str("é".into()),
        V::Str("a\0b".into()),
        V::Big(65536),
        V::Code(C::App(Box::new(C::Var("f".into())), vec![C::Int(42), C::Str("é".into())])),
    ];
    if !q_errv {
        l.push(V::ErrV);
    }
    l
}

/// reduced leaf sets of the depth-3 enumeration
fn deep_leaves() -> Vec<V> {
    vec![V::Unit, V::Num(NAN2), V::Num((-0.0f64).to_bits()), V::Str("é\0".into()), V::Code(C::Int(7))]
}
fn deep_tleaves() -> Vec<T> {
    vec![T::P(2), T::Alias("é".into()), T::Any, T::Unk]
}
const DEEP_BLOCK: usize = 64;
const DEEP_TBLOCK: usize = 256;

fn mk(ctor: &str, xs: Vec<V>) -> V {
    match ctor {
        "Arr" => V::Arr(xs),
        "Tup" => V::Tup(xs),
        "Rec" => V::Rec(xs.into_iter().enumerate().map(|(i, x)| (["x", "y", "z", "w"][i % 4].to_string(), x)).collect()),
        "Tag" => V::Tag(7, Box::new(xs.into_iter().next().unwrap_or(V::Unit))),
        _ => unreachable!("ctor {ctor}"),
    }
}

/// leaves plus every depth-1 value of width <= 2
fn universe1(l: &[V]) -> Vec<V> {
    let mut u: Vec<V> = l.to_vec();
    for ctor in VCTORS {
        u.push(mk(ctor, vec![]));
        for a in l {
            u.push(mk(ctor, vec![a.clone()]));
        }
        for a in l {
            for b in l {
                u.push(mk(ctor, vec![a.clone(), b.clone()]));
            }
        }
    }
    // record key specials: empty key, non-ASCII key with NUL, duplicate keys
    for a in l {
        u.push(V::Rec(vec![(String::new(), a.clone())]));
        u.push(V::Rec(vec![("é\0k".into(), a.clone())]));
    }
    let few = [V::Unit, V::Num(NAN2), V::Str("é".into())];
    for a in &few {
        for b in &few {
            u.push(V::Rec(vec![("x".into(), a.clone()), ("x".into(), b.clone())]));
        }
    }
    for t in TAGS {
        for a in l {
            u.push(V::Tag(t, Box::new(a.clone())));
        }
    }
    u
}

fn tleaves() -> Vec<T> {
    vec![T::P(0), T::P(1), T::P(2), T::P(3), T::Alias("A".into()), T::Alias("é".into()), T::Any, T::Fail, T::Unk]
}

fn sum_variants(l: &[T]) -> Vec<Option<T>> {
    let mut v = vec![None];
    v.extend(l.iter().cloned().map(Some));
    v
}

fn tmk1(ctor: &str, x: T) -> T {
    match ctor {
        "Arr" => T::Arr(Box::new(x)),
        "Ref" => T::Ref(Box::new(x)),
        "Code" => T::Code(Box::new(x)),
        "Boxed" => T::Boxed(Box::new(x)),
        _ => unreachable!("unary {ctor}"),
    }
}

/// n-ary constructors; for "Sum" the members are variant payloads
fn tmk(ctor: &str, xs: Vec<Option<T>>) -> T {
    let some = |xs: Vec<Option<T>>| xs.into_iter().map(|x| x.unwrap_or(T::P(0))).collect::<Vec<T>>();
    match ctor {
        "Tup" => T::Tup(some(xs)),
        "Uni" => T::Uni(some(xs)),
        "Rec" => T::Rec(some(xs).into_iter().enumerate().map(|(i, x)| (["x", "y", "z", "w"][i % 4].to_string(), x, i % 2 == 1)).collect()),
        "Fun" => {
            let mut it = some(xs).into_iter();
            let a = it.next().unwrap_or(T::P(0));
            let r = it.next().unwrap_or(T::P(0));
            T::Fun(Box::new(a), Box::new(r))
        }
        "Sum" => T::Sum("S".into(), xs.into_iter().enumerate().map(|(i, p)| (["A", "B", "C", "D"][i % 4].to_string(), p)).collect()),
        _ => unreachable!("ctor {ctor}"),
    }
}

fn type_universe1(l: &[T]) -> Vec<T> {
    let l = l.to_vec();
    let mut u = l.clone();
    for c in TCTORS1 {
        for a in &l {
            u.push(tmk1(c, a.clone()));
        }
    }
    for c in TCTORS2 {
        let members: Vec<Option<T>> = if c == "Sum" { sum_variants(&l) } else { l.iter().cloned().map(Some).collect() };
        if c != "Fun" {
            u.push(tmk(c, vec![]));
            for a in &members {
                u.push(tmk(c, vec![a.clone()]));
            }
        }
        for a in &members {
            for b in &members {
                u.push(tmk(c, vec![a.clone(), b.clone()]));
            }
        }
    }
    // record field with a default in first position
    for a in &l {
        u.push(T::Rec(vec![("x".into(), a.clone(), true)]));
    }
    u
}

/// every nesting context of depth <= 2 around `x`
fn contexts(x: &V) -> Vec<V> {
    let good = [V::Unit, V::Num(1.0f64.to_bits()), V::Str("é".into())];
    let one = |x: &V| -> Vec<V> {
        let mut r = vec![];
        for c in VCTORS {
            r.push(mk(c, vec![x.clone()]));
            for g in &good {
                r.push(mk(c, vec![g.clone(), x.clone()]));
                r.push(mk(c, vec![x.clone(), g.clone()]));
            }
        }
        r.push(V::Tag(0, Box::new(x.clone())));
        r.push(V::Tag(u64::MAX, Box::new(x.clone())));
        r
    };
    let d1 = one(x);
    let mut all = vec![x.clone()];
    for c in &d1 {
        all.extend(one(c));
    }
    all.extend(d1);
    all
}

// ------------------------------------------------------------------ random artefacts

const PIECES: [&str; 22] = [
    "a", "Z", "0", " ", "\0", "é", "ß", "日本", "🎹", "\u{301}", "\u{feff}", "\u{10ffff}", "\n", "\"", "\\", "\u{7f}", "\u{80}", "\u{7ff}",
    "\u{800}", "\u{ffff}", "\u{10000}", "_x1",
];

fn rand_string(rng: &mut Rng) -> String {
    let n = match rng.below(10) {
        0 => 0,
        1..=6 => rng.range(1, 6) as usize,
        _ => rng.range(7, 40) as usize,
    };
    (0..n).map(|_| *rng.pick(&PIECES)).collect()
}

fn rand_num(rng: &mut Rng) -> u64 {
    let specials = [
        0.0f64.to_bits(),
        (-0.0f64).to_bits(),
        NAN1,
        NAN2,
        0x7ff0_0000_0000_0001, // signalling NaN, smallest payload
        0xffff_ffff_ffff_ffff,
        f64::INFINITY.to_bits(),
        f64::NEG_INFINITY.to_bits(),
        5e-324f64.to_bits(),
        f64::MIN_POSITIVE.to_bits(),
        f64::MAX.to_bits(),
        f64::MIN.to_bits(),
        1e308f64.to_bits(),
        1.0f64.to_bits(),
        (-1.5f64).to_bits(),
        4294967296.0f64.to_bits(),
    ];
    if rng.chance(1, 2) { *rng.pick(&specials) } else { rng.next() }
}

fn rand_tag(rng: &mut Rng) -> u64 {
    match rng.below(4) {
        0 => rng.below(8) as u64,
        1 => *rng.pick(&TAGS),
        2 => (1u64 << rng.range(31, 63)) + rng.below(3) as u64 - 1,
        _ => rng.next(),
    }
}

fn rand_code(rng: &mut Rng, depth: usize) -> C {
    let leaf = depth == 0 || rng.chance(1, 2);
    if leaf {
        return match rng.below(4) {
            0 => C::Int(rng.next() as i64),
            1 => C::Var(rand_string(rng)),
            2 => C::Str(rand_string(rng)),
            _ => C::Err,
        };
    }
    match rng.below(3) {
        0 => C::Tuple((0..rng.below(4)).map(|_| rand_code(rng, depth - 1)).collect()),
        1 => C::App(Box::new(rand_code(rng, depth - 1)), (0..rng.below(3)).map(|_| rand_code(rng, depth - 1)).collect()),
        _ => {
            let a = rng.below(1000);
            C::At(Box::new(rand_code(rng, depth - 1)), a, a + rng.below(50))
        }
    }
}

fn rand_leaf(rng: &mut Rng, bigs: &[u32], errv: bool) -> V {
    if errv && rng.chance(1, 40) {
        return V::ErrV;
    }
    match rng.below(12) {
        0 => V::Unit,
        1..=4 => V::Num(rand_num(rng)),
        5..=8 => V::Str(rand_string(rng)),
        9 => {
            if rng.chance(1, 6) {
                V::Big(*rng.pick(bigs))
            } else {
                V::Str(rand_string(rng))
            }
        }
        _ => V::Code(rand_code(rng, 2)),
    }
}

fn rand_bad(rng: &mut Rng) -> V {
    match rng.below(6) {
        0 => V::Closure,
        1 => V::Fix,
        2 => V::ExtFn,
        3 => V::Store(Box::new(V::Num(rand_num(rng)))),
        4 => V::Store(Box::new(V::Closure)),
        _ => V::CtorFn(rand_tag(rng)),
    }
}

/// `bad`: Some(countdown) plants one non-representable value at the countdown-th visited node
fn rand_value(rng: &mut Rng, depth: usize, maxw: usize, bigs: &[u32], errv: bool, bad: &mut Option<usize>) -> V {
    if let Some(n) = bad {
        if *n == 0 {
            *bad = None;
            return rand_bad(rng);
        }
        *n -= 1;
    }
    if depth == 0 || rng.chance(1, 3) {
        return rand_leaf(rng, bigs, errv);
    }
    let w = match rng.below(6) {
        0 => 0,
        1 | 2 => rng.range(1, 2) as usize,
        _ => rng.range(1, maxw as i64) as usize,
    };
    match rng.below(4) {
        0 => V::Arr((0..w).map(|_| rand_value(rng, depth - 1, maxw, bigs, errv, bad)).collect()),
        1 => V::Tup((0..w).map(|_| rand_value(rng, depth - 1, maxw, bigs, errv, bad)).collect()),
        2 => {
            let keys: Vec<String> = (0..w).map(|_| if rng.chance(1, 8) { "dup".to_string() } else { rand_string(rng) }).collect();
            V::Rec(keys.into_iter().map(|k| (k, rand_value(rng, depth - 1, maxw, bigs, errv, bad))).collect())
        }
        _ => V::Tag(rand_tag(rng), Box::new(rand_value(rng, depth - 1, maxw, bigs, errv, bad))),
    }
}

fn rand_type(rng: &mut Rng, depth: usize, maxw: usize) -> T {
    if depth == 0 || rng.chance(1, 4) {
        return match rng.below(8) {
            0..=3 => T::P(rng.below(4) as u8),
            4 => T::Alias(rand_string(rng)),
            5 => T::Any,
            6 => T::Fail,
            _ => T::Unk,
        };
    }
    let w = if rng.chance(1, 6) { 0 } else { rng.range(1, maxw as i64) as usize };
    match rng.below(10) {
        0 => T::Arr(Box::new(rand_type(rng, depth - 1, maxw))),
        1 => T::Ref(Box::new(rand_type(rng, depth - 1, maxw))),
        2 => T::Code(Box::new(rand_type(rng, depth - 1, maxw))),
        3 => T::Boxed(Box::new(rand_type(rng, depth - 1, maxw))),
        4 => T::Tup((0..w).map(|_| rand_type(rng, depth - 1, maxw)).collect()),
        5 => T::Uni((0..w).map(|_| rand_type(rng, depth - 1, maxw)).collect()),
        6 => T::Rec((0..w).map(|_| (rand_string(rng), rand_type(rng, depth - 1, maxw), rng.chance(1, 2))).collect()),
        7 => T::Fun(Box::new(rand_type(rng, depth - 1, maxw)), Box::new(rand_type(rng, depth - 1, maxw))),
        8 => T::Sum(
            rand_string(rng),
            (0..w).map(|_| (rand_string(rng), if rng.chance(1, 3) { None } else { Some(rand_type(rng, depth - 1, maxw)) })).collect(),
        ),
        // internal compiler state below a constructor travels as an id and is fine; at the root it must be refused
        _ => {
            if rng.chance(1, 2) {
                T::Inter(rng.below(1000) as u64)
            } else {
                T::Scheme(rng.below(1000) as u64)
            }
        }
    }
}

// ------------------------------------------------------------------ case execution

fn exec(st: &mut St, c: &Case, idx: usize, out: &mut Out) -> bool {
    let done = exec_inner(st, c, idx, out);
    st.flush(out);
    done > 0
}

fn exec_inner(st: &mut St, c: &Case, idx: usize, out: &mut Out) -> u64 {
    let mut done = 0u64;
    match c {
        Case::ValBase => {
            let u = st.u1.clone();
            for v in &u {
                done += check_value(st, out, idx, v);
                st.s("value_shapes", vshape(v, 2));
                done += check_args(st, out, idx, &[v], &[]);
            }
            done += check_args(st, out, idx, &[], &[]);
        }
        Case::ValBlock { ctor, first } => {
            if !VCTORS.contains(&ctor.as_str()) {
                out.inconclusive(idx, "unknown constructor in case");
                return 0;
            }
            let u = st.u1.clone();
            let v1 = mk(ctor, vec![first.clone()]);
            done += check_value(st, out, idx, &v1);
            st.s("value_shapes", vshape(&v1, 2));
            for b in &u {
                let v = mk(ctor, vec![first.clone(), b.clone()]);
                done += check_value(st, out, idx, &v);
                st.s("value_shapes", vshape(&v, 2));
                if ctor == "Tup" {
                    // the same pair as a two-element macro argument list
                    done += check_args(st, out, idx, &[first, b], &[]);
                }
            }
        }
        Case::ValTagBlock { tag } => {
            let u = st.u1.clone();
            for b in &u {
                let v = V::Tag(*tag, Box::new(b.clone()));
                done += check_value(st, out, idx, &v);
                st.s("value_shapes", vshape(&v, 2));
            }
            st.s("tags_sent", format!("{tag}"));
        }
        Case::ValChains { root } => {
            let l = leaves(st.q_errv);
            let ctors = ["Arr", "Tup", "Rec", "Tag"];
            if !ctors.contains(&root.as_str()) {
                out.inconclusive(idx, "unknown constructor in case");
                return 0;
            }
            let place = |c: &str, x: &V, slot: usize| -> V {
                if c == "Tag" {
                    return V::Tag(TAGS[3], Box::new(x.clone()));
                }
                let filler = V::Num(NAN2);
                mk(c, if slot == 0 { vec![x.clone(), filler] } else { vec![filler, x.clone()] })
            };
            for c2 in ctors {
                for c3 in ctors {
                    for leaf in &l {
                        for slots in 0..8usize {
                            let inner = place(c3, leaf, slots & 1);
                            let mid = place(c2, &inner, (slots >> 1) & 1);
                            let v = place(root, &mid, (slots >> 2) & 1);
                            done += check_value(st, out, idx, &v);
                            done += check_args(st, out, idx, &[leaf, &v, &mid], &[]);
                        }
                    }
                    st.s("value_constructor_chains", format!("{root}>{c2}>{c3}"));
                }
            }
        }
        Case::Refuse { bad } => {
            let (ef, _) = expectations(&[bad]);
            if !matches!(ef, Expect::Refuse(_)) {
                out.inconclusive(idx, "Refuse case without a non-representable value");
                return 0;
            }
            let good = V::Str("é".into());
            for v in contexts(bad) {
                done += check_value(st, out, idx, &v);
                done += check_args(st, out, idx, &[&v], &[]);
                done += check_args(st, out, idx, &[&good, &v], &[]);
                done += check_args(st, out, idx, &[&v, &good, &good], &[]);
                st.c("refusal_contexts_checked", 1);
            }
            st.s("non_representable_kinds_sent", vshape(bad, 0));
        }
        Case::TyBase => {
            let u = st.u1t.clone();
            for t in &u {
                done += check_type(st, out, idx, t);
                st.s("type_shapes", tshape(t, 1));
                for c in TCTORS1 {
                    let t2 = tmk1(c, t.clone());
                    done += check_type(st, out, idx, &t2);
                    st.s("type_shapes", tshape(&t2, 1));
                }
            }
            for t in [T::Inter(0), T::Inter(7), T::Scheme(0), T::Scheme(u64::MAX)] {
                done += check_type(st, out, idx, &t);
                // below a constructor internal types travel as ids
                done += check_type(st, out, idx, &T::Tup(vec![t.clone(), T::P(2)]));
                done += check_args(st, out, idx, &[&V::Unit], &[t]);
            }
        }
        Case::TyBlock { ctor, first } => {
            if !TCTORS2.contains(&ctor.as_str()) || (first.is_none() && ctor != "Sum") {
                out.inconclusive(idx, "malformed TyBlock case");
                return 0;
            }
            let u = st.u1t.clone();
            let members: Vec<Option<T>> = if ctor == "Sum" { sum_variants(&u) } else { u.into_iter().map(Some).collect() };
            if ctor != "Fun" {
                let t1 = tmk(ctor, vec![first.clone()]);
                done += check_type(st, out, idx, &t1);
                st.s("type_shapes", tshape(&t1, 1));
            }
            for b in &members {
                let t = tmk(ctor, vec![first.clone(), b.clone()]);
                done += check_type(st, out, idx, &t);
                st.s("type_shapes", tshape(&t, 1));
            }
        }
        Case::ValDeep { ctor, lo, hi } => {
            let d = st.deep();
            let (u1, u2) = (&d.0, &d.1);
            if !(VCTORS.contains(&ctor.as_str()) || ctor == "Tag") || *lo > *hi || *hi > u2.len() {
                out.inconclusive(idx, "malformed ValDeep case");
                return 0;
            }
            for a in &u2[*lo..*hi] {
                if ctor == "Tag" {
                    for t in TAGS {
                        done += check_value(st, out, idx, &V::Tag(t, Box::new(a.clone())));
                    }
                    continue;
                }
                let v1 = mk(ctor, vec![a.clone()]);
                done += check_value(st, out, idx, &v1);
                st.s("value_shapes_depth3", vshape(&v1, 1));
                for b in u1 {
                    done += check_value(st, out, idx, &mk(ctor, vec![a.clone(), b.clone()]));
                    done += check_value(st, out, idx, &mk(ctor, vec![b.clone(), a.clone()]));
                }
            }
            st.c("depth3_first_members_enumerated", (*hi - *lo) as u64);
        }
        Case::TyDeep { ctor, lo, hi } => {
            let d = st.deep();
            let u2t = &d.2;
            let unary = TCTORS1.contains(&ctor.as_str());
            if !(unary || TCTORS2.contains(&ctor.as_str())) || *lo > *hi || *hi > u2t.len() {
                out.inconclusive(idx, "malformed TyDeep case");
                return 0;
            }
            let bs = [T::P(2), T::Alias("é".into())];
            for a in &u2t[*lo..*hi] {
                if unary {
                    let t = tmk1(ctor, a.clone());
                    done += check_type(st, out, idx, &t);
                    st.s("type_shapes_depth3", tshape(&t, 1));
                    continue;
                }
                for b in &bs {
                    let t = tmk(ctor, vec![Some(a.clone()), Some(b.clone())]);
                    done += check_type(st, out, idx, &t);
                    st.s("type_shapes_depth3", tshape(&t, 1));
                    done += check_type(st, out, idx, &tmk(ctor, vec![Some(b.clone()), Some(a.clone())]));
                }
            }
            st.c("depth3_first_member_types_enumerated", (*hi - *lo) as u64);
        }
        Case::TyChains { root } => {
            let all: Vec<&str> = TCTORS1.iter().chain(TCTORS2.iter()).copied().collect();
            if !all.contains(&root.as_str()) {
                out.inconclusive(idx, "unknown constructor in case");
                return 0;
            }
            let place = |c: &str, x: &T, slot: usize| -> T {
                if TCTORS1.contains(&c) {
                    return tmk1(c, x.clone());
                }
                let filler = Some(T::Alias("é".into()));
                tmk(c, if slot == 0 { vec![Some(x.clone()), filler] } else { vec![filler, Some(x.clone())] })
            };
            for c2 in &all {
                for c3 in &all {
                    for leaf in tleaves() {
                        for slots in 0..8usize {
                            let inner = place(c3, &leaf, slots & 1);
                            let mid = place(c2, &inner, (slots >> 1) & 1);
                            let t = place(root, &mid, (slots >> 2) & 1);
                            done += check_type(st, out, idx, &t);
                        }
                    }
                    st.s("type_constructor_chains", format!("{root}>{c2}>{c3}"));
                }
            }
        }
        Case::Rand { vals, tys } => {
            for v in vals {
                done += check_value(st, out, idx, v);
                st.s("value_shapes", vshape(v, 1));
            }
            for t in tys {
                done += check_type(st, out, idx, t);
                st.s("type_shapes", tshape(t, 1));
            }
            if !vals.is_empty() {
                let refs: Vec<&V> = vals.iter().collect();
                done += check_args(st, out, idx, &refs, tys);
            }
        }
        Case::OneValue { val } => {
            done += check_value(st, out, idx, val);
            st.s("value_shapes", vshape(val, 1));
        }
        Case::OneArgs { vals, tys } => {
            let refs: Vec<&V> = vals.iter().collect();
            done += check_args(st, out, idx, &refs, tys);
        }
        Case::OneType { ty } => {
            done += check_type(st, out, idx, ty);
            st.s("type_shapes", tshape(ty, 1));
        }
    }
    done
}

// ------------------------------------------------------------------ plan

struct Plan {
    deep: bool,
    errv: bool,
    rand_cases: usize,
    depth: usize,
    width: usize,
    vals_per_case: usize,
    bigs: Vec<u32>,
}

fn plan(args: &Args) -> Plan {
    if args.thorough() {
        Plan { deep: true, errv: !args.q("errorv-leaf"), rand_cases: 40_000, depth: 4, width: 8, vals_per_case: 10, bigs: vec![65535, 65536, 65537, 70_000, 1 << 20] }
    } else {
        Plan { deep: false, errv: !args.q("errorv-leaf"), rand_cases: 6_000, depth: 3, width: 8, vals_per_case: 6, bigs: vec![65535, 65536, 65537, 70_000] }
    }
}

fn bad_kinds() -> Vec<V> {
    vec![
        V::Closure,
        V::Fix,
        V::ExtFn,
        V::Store(Box::new(V::Unit)),
        V::Store(Box::new(V::Closure)),
        V::CtorFn(0),
        V::CtorFn(u64::MAX),
    ]
}

/// The fixed (enumerated) cases, in index order.
fn fixed_cases(st: &mut St, deep: bool) -> Vec<Case> {
    let mut cs = vec![Case::ValBase, Case::TyBase];
    for t in TAGS {
        cs.push(Case::ValTagBlock { tag: t });
    }
    for b in bad_kinds() {
        cs.push(Case::Refuse { bad: b });
    }
    for r in ["Arr", "Tup", "Rec", "Tag"] {
        cs.push(Case::ValChains { root: r.into() });
    }
    for r in TCTORS1.iter().chain(TCTORS2.iter()) {
        cs.push(Case::TyChains { root: r.to_string() });
    }
    for ctor in VCTORS {
        for f in &st.u1 {
            cs.push(Case::ValBlock { ctor: ctor.into(), first: f.clone() });
        }
    }
    for ctor in TCTORS2 {
        if ctor == "Sum" {
            cs.push(Case::TyBlock { ctor: ctor.into(), first: None });
        }
        for f in &st.u1t {
            cs.push(Case::TyBlock { ctor: ctor.into(), first: Some(f.clone()) });
        }
    }
    if deep {
        let d = st.deep();
        for ctor in ["Arr", "Tup", "Rec", "Tag"] {
            // tags are cheap (5 values per member): larger blocks
            let step = if ctor == "Tag" { DEEP_BLOCK * 16 } else { DEEP_BLOCK };
            let mut lo = 0;
            while lo < d.1.len() {
                let hi = (lo + step).min(d.1.len());
                cs.push(Case::ValDeep { ctor: ctor.into(), lo, hi });
                lo = hi;
            }
        }
        for ctor in TCTORS1.iter().chain(TCTORS2.iter()) {
            let step = if TCTORS1.contains(ctor) { DEEP_TBLOCK * 4 } else { DEEP_TBLOCK };
            let mut lo = 0;
            while lo < d.2.len() {
                let hi = (lo + step).min(d.2.len());
                cs.push(Case::TyDeep { ctor: ctor.to_string(), lo, hi });
                lo = hi;
            }
        }
    }
    // a varied prefix: the evidence shows the first few cases verbatim
    let find = |cs: &[Case], f: &dyn Fn(&Case) -> bool, skip: usize| cs.iter().enumerate().filter(|(_, c)| f(c)).nth(skip).map(|x| x.0);
    if let Some(i) = find(&cs, &|c| matches!(c, Case::ValBlock { ctor, .. } if ctor == "Rec"), 40) {
        cs.swap(2, i);
    }
    if let Some(i) = find(&cs, &|c| matches!(c, Case::Refuse { .. }), 0) {
        cs.swap(3, i);
    }
    if let Some(i) = find(&cs, &|c| matches!(c, Case::TyBlock { ctor, .. } if ctor == "Sum"), 30) {
        cs.swap(4, i);
    }
    cs
}

pub fn meta(args: &Args) -> Json {
    let p = plan(args);
    let mut st = St::new(args);
    let (nu, nt) = (st.u1.len(), st.u1t.len());
    let nfixed = fixed_cases(&mut st, p.deep).len();
    let deep_txt = if p.deep {
        let d = st.deep();
        format!(" Depth 3 (this tier): U2' = all {} values of depth <= 2, width <= 2 over the 5 leaves {{unit, NaN payload, -0.0, \"é\\0\", code}} (record key specials and the 5 tags included); enumerated ctor[a], ctor[a,b], ctor[b,a] for ctor in array/tuple/record, every a in U2' and every b of the {} values of depth <= 1, and TaggedUnion(tag, a) for the 5 tags (through ffi_value and serde_value). U2T' = all {} types of depth <= 2, width <= 2 over {{Numeric, alias, Any, Unknown}}; enumerated every unary constructor over every a in U2T' and ctor[a,b], ctor[b,a] for the five n-ary constructors and b in {{Numeric, alias}}.", d.1.len(), d.0.len(), d.2.len())
    } else {
        String::new()
    };
    json!({
        "level": "exploration",
        "rule": format!(
            "Values — exhaustive: let L = the {nl} leaves {{unit, 0.0, -0.0, two NaN payloads, +inf, -inf, subnormal, 1e308, \"\", \"é\", a string with NUL, a 64 KiB multi-byte string, code}} and U1 = L plus every array/tuple/record of width <= 2 over L (records also with empty, non-ASCII+NUL and duplicate keys) plus TaggedUnion(tag, l) for tags {{0, 1, 2^32-1, 2^32, 2^64-1}} ({nu} values). Enumerated: every element of U1; ctor[a] and ctor[a,b] for ctor in array/tuple/record and all a, b in U1 (one case = one (ctor, a) against all b); TaggedUnion(tag, b) for the 5 tags and all b in U1; every depth-3 chain of constructors over every leaf with the inner value at every slot; every one of 7 non-representable values (Closure, Fixpoint, ExternalFn, Store x2, ConstructorFn x2) bare and in every nesting context of depth <= 2. Each value goes through serialize_value/deserialize_value and through bincode over `impl Serialize/Deserialize for Value`; pairs (a, b) for the tuple blocks, chain triples and refusal contexts also go through serialize_macro_args/deserialize_macro_args with their static types. Types — exhaustive: U1T = 9 leaves (4 primitives, 2 aliases, Any, Failure, Unknown) plus every unary constructor over a leaf, every Tuple/Union/Record/UserSum of width <= 2 and Function over leaves ({nt} types); enumerated: U1T bare and under Array/Ref/Code/Boxed; ctor[a], ctor[a,b] for the five n-ary constructors and all a, b in U1T; every depth-3 chain of the 9 constructors over every leaf at every slot; Intermediate and TypeScheme at the root (by value: refused, or carried unchanged) and below a constructor (travel as ids). Each type goes through bincode by value (`impl Serialize/Deserialize for Type`) and as TypeNodeId. {deep_txt} {nfixed} enumerated cases, then {r} random cases of {k} values (depth <= {d}, width <= {w}, random float bits, strings from a pool of ASCII/NUL/2-,3-,4-byte/combining/BOM pieces, strings of 65535..{big} bytes, random u64 tags, random code, 1 in 8 with a non-representable value planted) sent singly and together as one argument list with random types (depth <= 3). A case is non-trivial when at least one encode->decode->compare round or one observed refusal completed in it; distinctness = hash of the case artefact.",
            nl = leaves(st.q_errv).len(), r = p.rand_cases, k = p.vals_per_case, d = p.depth, w = p.width, big = p.bigs.last().unwrap()),
        "assumptions": [
            "host and plugin share one interner (set_external_session_globals), as plugin/loader.rs arranges: ids of expressions, types and symbols are therefore compared by key first and structurally second",
            "bincode 1.3 with default options is the wire format (the only one linked for this boundary)",
            "equality = same variant, floats bit-identical (NaN payload and sign included), strings byte-identical, record fields in the same order with the same keys, tags identical as u64, code the same interned expression (or an equal expression with an equal span)",
            "Value::ErrorV is in neither list of the property; it may be refused or carried, but not altered",
            "Fixpoint/ConstructorFn/ErrorV through the direct `Serialize for Value` may be refused or carried unchanged; Closure/ExternalFn/Store must be refused there too",
            "Miri is not part of ./check (separate 2-minute build of the whole dependency tree); tools/c20_miri.sh runs the small explicit case corpus/C20/miri_small.json under Miri on demand"
        ],
        "floor": {"quick": 3000, "thorough": 20000},
        "exhaustive": true,
        "case_timeout_s": 180,
        "hang_is_violation": false,
    })
}

fn gen_rand(p: &Plan, rng: &mut Rng) -> Case {
    let n = rng.range(1, p.vals_per_case as i64) as usize;
    let mut bad = if rng.chance(1, 8) { Some(rng.below(12)) } else { None };
    let depth = p.depth;
    let vals: Vec<V> = (0..n)
        .map(|_| {
            let d = rng.range(0, depth as i64) as usize;
            rand_value(rng, d, p.width, &p.bigs, p.errv, &mut bad)
        })
        .collect();
    let tys: Vec<T> = (0..n).map(|_| rand_type(rng, 3, 4)).collect();
    Case::Rand { vals, tys }
}

pub fn run(args: &Args, out: &mut Out) {
    let p = plan(args);
    let mut st = St::new(args);
    let fixed = fixed_cases(&mut st, p.deep);
    let total = fixed.len() + p.rand_cases;
    let total = args.budget.map(|b| b.min(total)).unwrap_or(total);
    out.max_samples = 1;
    drive(
        args,
        out,
        total,
        |idx, rng| {
            // index 5 is a random case so that the evidence samples show one
            match idx {
                5 => Some(gen_rand(&p, rng)),
                i if i < 5 => Some(fixed[i].clone()),
                i if i <= fixed.len() => Some(fixed[i - 1].clone()),
                _ => Some(gen_rand(&p, rng)),
            }
        },
        |c, idx, out| exec(&mut st, c, idx, out),
    );
}

pub fn replay(args: &Args, out: &mut Out, case: &Json) {
    let mut st = St::new(args);
    // a replayed witness is executed as it is, whatever is quarantined in general exploration
    st.q_errv = false;
    replay_one::<Case>(out, case, |c, idx, out| exec(&mut st, c, idx, out));
}
