//! C04 — front end and compile entry points are total on arbitrary text.
//!
//! Every text is pushed through the real front end, phase by phase, in a supervised child
//! process on a thread with a 2 MiB stack: `parser::tokenize` → `preparse` → `parse_cst` → `parse_to_expr` →
//! `mirgen::typecheck_with_module_info` (the calls the language server makes), then
//! `mimium_language_server::analysis::analyze_source` itself, then the two on-save entry
//! points `Context::emit_bytecode` and `Context::emit_wasm` on compiler contexts built by
//! `ExecContext` (scheduler plugin; the VM context also carries the audio-driver plugin).
//!
//! Refuting events (DESIGN.md §3 C04):
//!  * a panic in any front-end phase or in `analyze_source`, on any text;
//!  * a panic in `emit_bytecode` / `emit_wasm` on a text for which the front end reported at
//!    least one diagnostic (a panic on a text without diagnostics is C03's business and is
//!    only counted);
//!  * a diagnostic label (own file) with `start > end`, `end > len`, or off a char boundary;
//!  * process death pinned to one text and phase: stack overflow (fault at the guard page; class
//!    "unbounded-recursion" or "fits-in-256MiB" from a second run on a big stack), other fatal
//!    signals, runaway allocation (dies at the address-space limit and again, bigger, at twice
//!    the limit);
//!  * a text that stays in one phase for 30 s in its batch and again for 120 s alone (hang).
//!
//! Workload: exhaustive lexeme sequences (blocks of the enumeration are one case), nesting
//! ladders up to the stated bound of 64 levels, every/sampled char-boundary prefix and suffix
//! of the corpus files, token-level mutations, bracket scrambles and Unicode splices.

use super::drive;
use crate::util::{Args, Out, Panic, Rng, catch, fp};
use mimium_audiodriver::backends::local_buffer::LocalBufferDriver;
use mimium_audiodriver::driver::Driver;
use mimium_lang::compiler::{mirgen, parser};
use mimium_lang::interner::{Symbol, TypeNodeId};
use mimium_lang::plugin::Plugin;
use mimium_lang::utils::error::ReportableError;
use mimium_lang::{Config, ExecContext};
use serde::{Deserialize, Serialize};
use serde_json::{Value, json};
use std::collections::BTreeMap;
use std::path::{Path, PathBuf};

/// the "stated bound" of the property for bracket/construct nesting
const NEST_BOUND: usize = 64;
/// VM instruction budget for stage-0 (macro) execution inside the compile entry points
const STAGE0_STEPS: u64 = 20_000_000;

// ------------------------------------------------------------------ cases

#[derive(Clone, Debug, Serialize, Deserialize)]
pub enum Case {
    /// Block of an exhaustive enumeration: the sequences number `first .. first+count` (base-n
    /// digits, most significant first) of exactly `len` lexemes of alphabet `alpha`, joined with `joiner`.
    Seq { alpha: String, len: usize, first: u64, count: u64, joiner: String },
    /// Explicit texts (derived from one corpus file), compiled as if saved next to `path`.
    Texts { origin: String, path: String, texts: Vec<String> },
    /// One explicit text.
    One { origin: String, path: String, text: String },
    /// Informational: how far beyond the stated nesting bound the ladder `kind` survives
    /// (each depth runs in a child process; never a violation).
    Margin { kind: String, wrapped: bool },
}

// ------------------------------------------------------------------ alphabets

/// One or more lexemes per `TokenKind` the tokenizer can produce, plus error characters,
/// trivia and unterminated openers.
const FULL: &[&str] = &[
    // identifiers / literals
    "x", "dsp", "_", "0", "42", "1.5", "\"s\"",
    // type keywords
    "float", "int", "string", "struct",
    // operators
    "+", "-", "*", "/", "==", "!=", "<", "<=", ">", ">=", "%", "^", "@", "&&", "||", "|>", "||>", "!",
    // special literals
    "self", "now", "samplerate",
    // punctuation
    ",", ".", "..", ":", "::", ";",
    // keywords
    "let", "letrec", "=", "fn", "macro", "->", "<-", "=>", "if", "else", "match",
    "include", "#", "stage", "main", "mod", "use", "pub", "type", "alias", "rec",
    // brackets
    "(", ")", "[", "]", "{", "}", "|", "`", "$",
    // trivia
    "\n", " ", "\t", "\r\n", "//c\n", "/*c*/",
    // error characters, unterminated openers, non-ASCII
    "\u{a7}", "~", "\\", "?", "'", "&", "\"", "/*", "\u{0}", "\u{feff}", "\u{e9}", "\u{65e5}\u{672c}", "\u{301}", "\u{1d4b3}",
];

/// 14 structural tokens (length <= 5 in thorough).
const S14: &[&str] = &["(", ")", "{", "}", "[", "]", "|", ",", "=", "fn", "let", "if", "x", "1"];

/// 24 structural tokens (length <= 4 in thorough).
const S24: &[&str] = &[
    "(", ")", "{", "}", "[", "]", "|", ",", "=", "fn", "let", "if", "else", "match", "=>", "`", "$", "!", ".", ":", "->",
    "x", "1", "::",
];

fn alphabet(name: &str) -> Option<&'static [&'static str]> {
    match name {
        "full" => Some(FULL),
        "s14" => Some(S14),
        "s24" => Some(S24),
        _ => None,
    }
}

fn seq_text(alpha: &[&str], len: usize, mut i: u64, joiner: &str) -> String {
    let n = alpha.len() as u64;
    let mut digits = vec![0usize; len];
    for d in digits.iter_mut().rev() {
        *d = (i % n) as usize;
        i /= n;
    }
    let mut s = String::new();
    for (k, d) in digits.iter().enumerate() {
        if k > 0 {
            s.push_str(joiner);
        }
        s.push_str(alpha[*d]);
    }
    s
}

// ------------------------------------------------------------------ nesting ladders

fn rep(s: &str, n: usize) -> String {
    s.repeat(n)
}

/// (kind, is an expression that can be wrapped into `fn dsp(){ … }`)
const LADDERS: &[(&str, bool)] = &[
    ("paren", true),
    ("paren-open", true),
    ("paren-close", true),
    ("array", true),
    ("array-open", true),
    ("array-close", true),
    ("block", true),
    ("block-open", true),
    ("block-close", true),
    ("tuple", true),
    ("record", true),
    ("record-open", true),
    ("call", true),
    ("call-open", true),
    ("call-chain", true),
    ("if", true),
    ("if-open", true),
    ("else-if", true),
    ("lambda", true),
    ("bar-open", true),
    ("minus", true),
    ("not", true),
    ("plus-chain", true),
    ("pow-chain", true),
    ("pipe-chain", true),
    ("assign-chain", true),
    ("backquote", true),
    ("quote-escape", true),
    ("escape", true),
    ("quote-block", true),
    ("macro-call", true),
    ("projection", true),
    ("field", true),
    ("index", true),
    ("qualified", true),
    ("match", true),
    ("match-open", true),
    ("type-paren", false),
    ("type-array", false),
    ("type-fn", false),
    ("type-code", false),
    ("type-record", false),
    ("type-union", false),
    ("pattern", false),
    ("lambda-pattern", true),
    ("let-chain", false),
    ("fn-chain", false),
    ("fn-nest", false),
    ("fn-open", false),
    ("mod", false),
    ("mod-open", false),
    ("use-path", false),
    ("stage", false),
    ("comment-open", false),
    ("string-open", false),
    ("params", false),
    ("args", true),
];

fn ladder(kind: &str, d: usize) -> Option<String> {
    Some(match kind {
        "paren" => format!("{}1{}", rep("(", d), rep(")", d)),
        "paren-open" => format!("{}1", rep("(", d)),
        "paren-close" => format!("1{}", rep(")", d)),
        "array" => format!("{}1{}", rep("[", d), rep("]", d)),
        "array-open" => rep("[", d),
        "array-close" => format!("1{}", rep("]", d)),
        "block" => format!("{}1{}", rep("{", d), rep("}", d)),
        "block-open" => rep("{", d),
        "block-close" => format!("1{}", rep("}", d)),
        "tuple" => format!("{}2{}", rep("(1,", d), rep(")", d)),
        "record" => format!("{}1{}", rep("{a = ", d), rep("}", d)),
        "record-open" => rep("{a = ", d),
        "call" => format!("{}1{}", rep("f(", d), rep(")", d)),
        "call-open" => rep("f(", d),
        "call-chain" => format!("f{}", rep("()", d)),
        "if" => format!("{}1{}", rep("if (1) { ", d), rep(" } else { 0 }", d)),
        "if-open" => rep("if (1) { ", d),
        "else-if" => format!("{}{{ 0 }}", rep("if (1) { 1 } else ", d)),
        "lambda" => format!("{}x", rep("|x| ", d)),
        "bar-open" => rep("|", d),
        "minus" => format!("{}1", rep("-", d)),
        "not" => format!("{}x", rep("!", d)),
        "plus-chain" => format!("{}1", rep("1 + ", d)),
        "pow-chain" => format!("{}1", rep("1 ^ ", d)),
        "pipe-chain" => format!("1{}", rep(" |> f", d)),
        "assign-chain" => format!("{}1", rep("x = ", d)),
        "backquote" => format!("{}1", rep("`", d)),
        "quote-escape" => format!("{}1", rep("`$", d)),
        "escape" => format!("{}x", rep("$", d)),
        "quote-block" => format!("{}1{}", rep("`{", d), rep("}", d)),
        "macro-call" => format!("{}1{}", rep("f!(", d), rep(")", d)),
        "projection" => format!("x{}", rep(".0", d)),
        "field" => format!("x{}", rep(".a", d)),
        "index" => format!("x{}", rep("[0]", d)),
        "qualified" => format!("{}b", rep("a::", d)),
        "match" => format!("{}1{}", rep("match x { 0 => ", d), rep(", _ => 0 }", d)),
        "match-open" => rep("match x { 0 => ", d),
        "type-paren" => format!("let x:{}float{} = 1", rep("(", d), rep(")", d)),
        "type-array" => format!("let x:{}float{} = 1", rep("[", d), rep("]", d)),
        "type-fn" => format!("let f:{}float = 1", rep("(float)->", d)),
        "type-code" => format!("let x:{}float = 1", rep("`", d)),
        "type-record" => format!("let x:{}float{} = 1", rep("{a:", d), rep("}", d)),
        "type-union" => format!("let x:float{} = 1", rep(" | float", d)),
        "pattern" => format!("let {}a{} = 1", rep("(", d), rep(",b)", d)),
        "lambda-pattern" => format!("|{}a{}| a", rep("(", d), rep(",b)", d)),
        "let-chain" => {
            let mut s = String::new();
            for i in 0..d {
                s.push_str(&format!("let x{i} = {i}\n"));
            }
            s.push_str("x0");
            s
        }
        "fn-chain" => {
            let mut s = String::new();
            for i in 0..d {
                s.push_str(&format!("fn f{i}(x){{ x + {i} }}\n"));
            }
            s
        }
        "fn-nest" => format!("{}1{}", rep("fn f(){ ", d), rep(" }", d)),
        "fn-open" => rep("fn f(){ ", d),
        "mod" => format!("{}fn f(){{ 1 }}{}", rep("mod m { ", d), rep(" }", d)),
        "mod-open" => rep("mod m { ", d),
        "use-path" => format!("use a{}", rep("::a", d)),
        "stage" => format!("{}fn dsp(){{ 0 }}", rep("#stage(main)\n", d)),
        "comment-open" => rep("/*", d),
        "string-open" => rep("\"", d),
        "params" => format!("fn f({}){{ 0 }}", (0..d).map(|i| format!("a{i}")).collect::<Vec<_>>().join(",")),
        "args" => format!("f({})", (0..d).map(|i| format!("{i}")).collect::<Vec<_>>().join(",")),
        _ => return None,
    })
}

fn wrap_dsp(expr: &str) -> String {
    format!("fn dsp(){{\n  {expr}\n}}\n")
}

const DEPTHS: &[usize] = &[1, 2, 3, 4, 6, 8, 12, 16, 24, 32, 48, NEST_BOUND];

fn ladder_cases() -> Vec<(String, usize, bool)> {
    let mut v = vec![];
    for (k, wrappable) in LADDERS {
        for d in DEPTHS {
            v.push((k.to_string(), *d, false));
            if *wrappable {
                v.push((k.to_string(), *d, true));
            }
        }
    }
    v
}


// ------------------------------------------------------------------ hand-built families
//
// Texts built from a small grammar of "definitions that refer to each other in a circle" and of
// "numbers at the edge of an integer width", the two shapes a truncated or mutated corpus file
// practically never contains.

fn family_names() -> &'static [&'static str] {
    &["cyclic-definitions", "numeric-boundaries", "pronouns-in-every-position"]
}

fn family_texts(name: &str) -> Vec<String> {
    let mut v = vec![];
    match name {
        "cyclic-definitions" => {
            for len in 1..=3usize {
                for defined in [false, true] {
                    // modules m0..m{len-1}: each re-exports `x` from the next one (a cycle); with
                    // `defined`, an extra module really defines x and the last hop goes there instead
                    let mut mods = String::new();
                    for i in 0..len {
                        let next = if defined && i + 1 == len { "real".to_string() } else { format!("m{}", (i + 1) % len) };
                        mods.push_str(&format!("mod m{i} {{\n  pub use {next}::x\n}}\n"));
                    }
                    if defined {
                        mods.push_str("mod real {\n  pub fn x(){ 1.0 }\n}\n");
                    }
                    let outside = "mod z {\n  pub use m0::x\n}\n";
                    for (entry, body) in [
                        ("use m0::x\n", "x()"),
                        ("", "m0::x()"),
                        ("use m0::*\n", "x()"),
                        ("use m0::{x}\n", "x()"),
                        ("use z::x\n", "x()"),
                        ("", "z::x()"),
                        ("use z::*\n", "x()"),
                        ("use m0::x\nuse z::x\n", "x()"),
                    ] {
                        let z = if entry.contains("z::") || body.contains("z::") { outside } else { "" };
                        v.push(format!("{mods}{z}{entry}fn dsp(){{\n  {body}\n}}\n"));
                        // the same reference from inside another module
                        v.push(format!("{mods}{z}mod user {{\n  {}pub fn go(){{ {body} }}\n}}\nfn dsp(){{\n  user::go()\n}}\n", entry.replace('\n', "\n  ")));
                    }
                }
            }
            // aliases, types and values that go round in circles
            for t in [
                "type A = B\ntype B = A\nfn dsp(x:A){ x }\n",
                "type A = (A, float)\nfn dsp(x:A){ 1.0 }\n",
                "type alias T = T\nfn dsp(x:T){ 1.0 }\n",
                "mod a { pub type T = b::T }\nmod b { pub type T = a::T }\nfn dsp(x:a::T){ 1.0 }\n",
                "let a = b\nlet b = a\nfn dsp(){ a }\n",
                "fn f(){ g() }\nfn g(){ f() }\nlet v = 1.0\nfn dsp(){ v }\n",
                "use a::a\nmod a { pub use a::a }\nfn dsp(){ a() }\n",
                "mod a { pub use self::x }\nfn dsp(){ a::x() }\n",
                "mod a { pub use super::a::x }\nfn dsp(){ a::x() }\n",
                "mod a { pub mod b { pub use a::c::y } pub mod c { pub use a::b::y } }\nuse a::b::y\nfn dsp(){ y() }\n",
            ] {
                v.push(t.to_string());
            }
        }
        "numeric-boundaries" => {
            let big40 = format!("1{}", "0".repeat(40));
            let big400 = format!("1{}", "0".repeat(400));
            let tiny = format!("0.{}1", "0".repeat(400));
            let nums: Vec<String> = [
                "255", "256", "65535", "65536", "16777215", "16777216", "2147483647", "2147483648", "4294967295", "4294967296",
                "9007199254740993", "9223372036854775807", "9223372036854775808", "18446744073709551615", "18446744073709551616",
            ]
            .iter()
            .map(|s| s.to_string())
            .chain([big40, big400, tiny])
            .collect();
            for n in &nums {
                for t in [
                    "fn dsp(){\n  let t = (1.0, 2.0)\n  t.N\n}\n",
                    "fn dsp(){\n  let t = ((1.0, 2.0), 3.0)\n  t.0.N\n}\n",
                    "fn dsp(){\n  let t = ((1.0, 2.0), 3.0)\n  t.N.0\n}\n",
                    "let a = [1.0, 2.0]\nfn dsp(){\n  a[N]\n}\n",
                    "fn dsp(){\n  N\n}\n",
                    "fn dsp(){\n  N.0\n}\n",
                    "fn dsp(){\n  delay(N, 1.0, 1.0)\n}\n",
                    "fn dsp(){\n  delay(4.0, 1.0, N)\n}\n",
                    "fn f(){ 1.0 }\nlet _ = f@N\nfn dsp(){\n  1.0\n}\n",
                    "fn dsp(){\n  let (a, b) = (1.0, 2.0)\n  a.N\n}\n",
                    "fn dsp(x:(float,float)){\n  x.N\n}\n",
                    "fn dsp(){\n  (1.0, 2.0).N\n}\n",
                    "fn dsp(){\n  -N % N\n}\n",
                    "#stage(macro)\nfn m(){ `(N) }\n#stage(main)\nfn dsp(){\n  m!()\n}\n",
                ] {
                    v.push(t.replace('N', n));
                }
            }
        }
        "pronouns-in-every-position" => {
            // the words that the desugaring passes rewrite before type checking (`self`, `_`, `now`,
            // `samplerate`) and a few atoms, in every operand position of every statement / expression
            // form: each pass must either rewrite the position or leave something the next one accepts
            let atoms = ["self", "_", "now", "samplerate", "self.x", "_.x", "self.0", "_.0", "self[0]", "_[0]", "self()", "_()", "(self, _)", "{a = self}", "{a = _}", "x"];
            let frames = [
                "fn f(x){\n  A = 1.0\n  x\n}\nfn dsp(){ f(1.0) }\n",
                "fn f(x){\n  x = A\n  x\n}\nfn dsp(){ f(1.0) }\n",
                "fn f(x){\n  A = A\n  x\n}\nfn dsp(){ f(1.0) }\n",
                "fn f(x){\n  let A = x\n  x\n}\nfn dsp(){ f(1.0) }\n",
                "fn f(x){\n  let (A, y) = (x, x)\n  y\n}\nfn dsp(){ f(1.0) }\n",
                "fn f(x){\n  A\n}\nfn dsp(){ f(1.0) }\n",
                "fn f(x){\n  A(x)\n}\nfn dsp(){ f(1.0) }\n",
                "fn f(x){\n  x |> A\n}\nfn dsp(){ f(1.0) }\n",
                "fn f(x){\n  A |> f\n}\nfn dsp(){ f(1.0) }\n",
                "fn f(x){\n  if (A) { x } else { A }\n}\nfn dsp(){ f(1.0) }\n",
                "fn f(x){\n  |y| A\n}\nfn dsp(){ f(1.0)(1.0) }\n",
                "fn f(x){\n  |A| x\n}\nfn dsp(){ f(1.0)(1.0) }\n",
                "fn f(A){\n  1.0\n}\nfn dsp(){ f(1.0) }\n",
                "fn f(x){\n  let r = {a = 1.0, b = 2.0}\n  r.a = A\n  x\n}\nfn dsp(){ f(1.0) }\n",
                "fn f(x){\n  let r = {a = 1.0, b = 2.0}\n  {r <- a = A}.a\n}\nfn dsp(){ f(1.0) }\n",
                "fn f(x){\n  delay(A, x, A)\n}\nfn dsp(){ f(1.0) }\n",
                "fn f(x){\n  mem(A) + A@1.0\n}\nfn dsp(){ f(1.0) }\n",
                "type T = P | Q(float)\nfn f(x){\n  match A { P => 1.0, Q(v) => v }\n}\nfn dsp(){ f(1.0) }\n",
                "type T = P | Q(float)\nfn f(x){\n  match Q(x) { P => A, Q(A) => 1.0 }\n}\nfn dsp(){ f(1.0) }\n",
                "let A = 1.0\nfn dsp(){ 1.0 }\n",
                "A = 1.0\nfn dsp(){ 1.0 }\n",
                "#stage(macro)\nfn m(c){ `{ A = $c\n 1.0 } }\n#stage(main)\nfn dsp(){ m!(`A) }\n",
            ];
            for fr in frames {
                for a in atoms {
                    v.push(fr.replace('A', a));
                }
            }
        }
        _ => {}
    }
    v
}

// ------------------------------------------------------------------ corpus

/// Measured cost (ms, one full pass of all monitored entry points over the complete file,
/// release build) of the corpus files that are expensive because of what they import; only a
/// planning heuristic that decides how densely a file is cut/mutated. Files not listed
/// cost 4 ms + 10 us per byte.
const COST_MS: &[(&str, u32)] = &[
    ("examples/uzulang.mmm", 2900), ("examples/rain.mmm", 2900), ("examples/fmpiano.mmm", 2200),
    ("examples/jcrev.mmm", 1900), ("examples/robot.mmm", 1500), ("lib/reverb.mmm", 1500),
    ("examples/livecoding_demo.mmm", 1400),
    ("crates/lib/mimium-test/tests/mmm/fdn_rev_default_record_regression.mmm", 1200),
    ("examples/compressor.mmm", 1000), ("crates/lib/mimium-test/tests/mmm/scheduler_reactive_imported.mmm", 820),
    ("examples/biquad.mmm", 770), ("examples/reactive_f.mmm", 760),
    ("crates/lib/mimium-test/tests/mmm/mininotation.mmm", 610),
    ("crates/lib/mimium-test/tests/mmm/mininotation_alternate_grouping.mmm", 570),
    ("lib/modulation.mmm", 530), ("lib/dynamics.mmm", 520), ("lib/mininotation.mmm", 340),
    ("crates/lib/mimium-test/tests/mmm/wasm_record_default_adsr.mmm", 330), ("lib/parser.mmm", 300),
    ("lib/sequencer.mmm", 290), ("crates/lib/mimium-test/tests/mmm/parser_combinators.mmm", 290),
    ("examples/sequencer.mmm", 1100),
    ("crates/lib/mimium-test/tests/mmm/pattern_run_pure_record_array_regression.mmm", 280),
    ("lib/delay.mmm", 190), ("examples/supersaw.mmm", 190), ("examples/scale.mmm", 160), ("lib/pattern.mmm", 160),
    ("examples/windmodel.mmm", 150), ("examples/noise.mmm", 120), ("examples/subtract_synth.mmm", 110),
    ("lib/noise.mmm", 90), ("examples/reactive_sequencer.mmm", 90),
    ("crates/lib/mimium-test/tests/mmm/imported_core_generic_nested_array.mmm", 80),
    ("examples/cascadeosc_macro.mmm", 80),
    ("crates/lib/mimium-test/tests/mmm/macro_quote_imported_global_function.mmm", 80),
    ("crates/lib/mimium-test/tests/mmm/module_wildcard_local_shadowing.mmm", 70),
    ("lib/filter.mmm", 50), ("examples/cascadeosc.mmm", 50), ("lib/composition.mmm", 50), ("lib/core.mmm", 40),
];

#[derive(Clone)]
struct CorpusFile {
    /// estimated cost of one full check of the complete file, ms
    cost_ms: u64,
    /// path relative to the repository
    rel: String,
    /// virtual sibling path the mutated texts are "saved" as
    vpath: String,
    text: String,
}

fn load_corpus(repo: &str) -> Vec<CorpusFile> {
    let dirs = ["lib", "examples", "crates/lib/mimium-test/tests/mmm", "crates/bin/mimium-fmt/tests"];
    let mut out = vec![];
    for d in dirs {
        let dir = Path::new(repo).join(d);
        let Ok(rd) = std::fs::read_dir(&dir) else { continue };
        let mut names: Vec<PathBuf> =
            rd.filter_map(|e| e.ok()).map(|e| e.path()).filter(|p| p.extension().is_some_and(|x| x == "mmm")).collect();
        names.sort();
        for p in names {
            let Ok(text) = std::fs::read_to_string(&p) else { continue };
            let name = p.file_name().unwrap().to_string_lossy().to_string();
            let rel = format!("{d}/{name}");
            let cost_ms = COST_MS
                .iter()
                .find(|(n, _)| *n == rel)
                .map(|(_, c)| *c as u64)
                .unwrap_or(4 + text.len() as u64 / 100);
            out.push(CorpusFile {
                cost_ms,
                rel: format!("{d}/{name}"),
                vpath: dir.join(format!("c04__{name}")).to_string_lossy().to_string(),
                text,
            });
        }
    }
    out
}

fn default_path(repo: &str) -> String {
    Path::new(repo).join("examples").join("c04__text.mmm").to_string_lossy().to_string()
}

/// Crude own splitter (not the tokenizer under test): identifier/number runs, whitespace
/// runs, string literals, line comments, single other characters.
fn pieces(text: &str) -> Vec<&str> {
    let b: Vec<(usize, char)> = text.char_indices().collect();
    let mut res = vec![];
    let mut i = 0;
    let at = |k: usize| if k < b.len() { b[k].0 } else { text.len() };
    while i < b.len() {
        let c = b[i].1;
        let start = i;
        if c.is_alphanumeric() || c == '_' {
            while i < b.len() && (b[i].1.is_alphanumeric() || b[i].1 == '_') {
                i += 1;
            }
        } else if c.is_whitespace() {
            while i < b.len() && b[i].1.is_whitespace() {
                i += 1;
            }
        } else if c == '"' {
            i += 1;
            while i < b.len() && b[i].1 != '"' {
                i += 1;
            }
            i = (i + 1).min(b.len());
        } else if c == '/' && i + 1 < b.len() && b[i + 1].1 == '/' {
            while i < b.len() && b[i].1 != '\n' {
                i += 1;
            }
        } else {
            i += 1;
        }
        res.push(&text[at(start)..at(i)]);
    }
    res
}

const BRACKETS: &[&str] = &["(", ")", "[", "]", "{", "}", "|", "`", "$"];
const OPS: &[&str] = &["+", "-", "*", "/", "==", "!=", "<", "<=", ">", ">=", "%", "^", "@", "&&", "||", "|>", "||>", "=", "->", "=>", "<-", ".", "..", ":", "::", ",", "!"];
const CONSTS: &[&str] = &["0", "1", "1.0", "0.5", "1e3", "1.", ".5", "00", "9999999999999999999999", "1.0.0", "\"\"", "\"a\"", "self", "now", "samplerate", "_", "x", "dsp"];
const UNI: &[&str] = &[
    "\u{e9}", "\u{65e5}\u{672c}\u{8a9e}", "\u{301}", "\u{202e}", "\u{0}", "\u{feff}", "\r\n", "\r", "\u{1d4b3}", "\u{200b}", "\u{a0}",
    "\u{2028}", "\u{1f3b5}", "\u{df}", "\u{3a9}", "\u{663}", "\u{ff11}", "\u{a7}", "\u{7f}", "\u{85}", "\u{fffd}", "\u{10ffff}",
    "e\u{301}", "\u{1f468}\u{200d}\u{1f469}", "\u{2212}", "\u{201c}s\u{201d}",
];

fn is_ws(p: &str) -> bool {
    p.chars().all(|c| c.is_whitespace())
}

/// One token-level mutation on a piece list.
fn mutate_tokens(rng: &mut Rng, ps: &mut Vec<String>) -> &'static str {
    if ps.is_empty() {
        ps.push("x".into());
        return "insert";
    }
    let n = ps.len();
    let non_ws: Vec<usize> = (0..n).filter(|i| !is_ws(&ps[*i])).collect();
    let pick_nw = |rng: &mut Rng| if non_ws.is_empty() { rng.below(n) } else { *rng.pick(&non_ws) };
    match rng.below(14) {
        0 => {
            let i = pick_nw(rng);
            ps.remove(i);
            "delete-token"
        }
        1 => {
            let i = pick_nw(rng);
            let t = ps[i].clone();
            ps.insert(i, t);
            "duplicate-token"
        }
        2 => {
            if non_ws.len() >= 2 {
                let k = rng.below(non_ws.len() - 1);
                ps.swap(non_ws[k], non_ws[k + 1]);
            }
            "swap-adjacent"
        }
        3 => {
            let (i, j) = (pick_nw(rng), pick_nw(rng));
            ps.swap(i, j);
            "swap-random"
        }
        4 => {
            let i = pick_nw(rng);
            ps[i] = rng.pick(FULL).to_string();
            "replace-by-lexeme"
        }
        5 => {
            let i = rng.below(n + 1);
            ps.insert(i, rng.pick(FULL).to_string());
            "insert-lexeme"
        }
        6 => {
            let br: Vec<usize> = (0..n).filter(|i| BRACKETS.contains(&ps[*i].as_str())).collect();
            if !br.is_empty() {
                let k = 1 + rng.below(3.min(br.len()));
                for _ in 0..k {
                    let i = *rng.pick(&br);
                    ps[i] = rng.pick(BRACKETS).to_string();
                }
            }
            "bracket-scramble"
        }
        7 => {
            let i = rng.below(n);
            let l = 1 + rng.below(12.min(n - i));
            ps.drain(i..i + l);
            "delete-range"
        }
        8 => {
            let i = rng.below(n);
            let l = 1 + rng.below(12.min(n - i));
            let seg: Vec<String> = ps[i..i + l].to_vec();
            let at = rng.below(ps.len() + 1);
            for (k, s) in seg.into_iter().enumerate() {
                ps.insert(at + k, s);
            }
            "copy-range"
        }
        9 => {
            let ops: Vec<usize> = (0..n).filter(|i| OPS.contains(&ps[*i].as_str())).collect();
            if !ops.is_empty() {
                let i = *rng.pick(&ops);
                ps[i] = rng.pick(OPS).to_string();
            }
            "operator-substitution"
        }
        10 => {
            let cs: Vec<usize> =
                (0..n).filter(|i| ps[*i].chars().next().is_some_and(|c| c.is_ascii_digit() || c == '"')).collect();
            let i = if cs.is_empty() { pick_nw(rng) } else { *rng.pick(&cs) };
            ps[i] = rng.pick(CONSTS).to_string();
            "constant-substitution"
        }
        11 => {
            // remove one bracket (unbalance)
            let br: Vec<usize> = (0..n).filter(|i| BRACKETS.contains(&ps[*i].as_str())).collect();
            if !br.is_empty() {
                let i = *rng.pick(&br);
                ps.remove(i);
            }
            "drop-bracket"
        }
        12 => {
            // glue: remove a whitespace piece (tokens merge) or turn it into a newline
            let ws: Vec<usize> = (0..n).filter(|i| is_ws(&ps[*i])).collect();
            if !ws.is_empty() {
                let i = *rng.pick(&ws);
                if rng.chance(1, 2) {
                    ps.remove(i);
                } else {
                    ps[i] = if ps[i].contains('\n') { " ".into() } else { "\n".into() };
                }
            }
            "whitespace-change"
        }
        _ => {
            let ids: Vec<usize> =
                (0..n).filter(|i| ps[*i].chars().next().is_some_and(|c| c.is_alphabetic() || c == '_')).collect();
            if !ids.is_empty() {
                let i = *rng.pick(&ids);
                let kw = ["fn", "let", "if", "else", "match", "self", "mod", "use", "pub", "type", "macro", "letrec", "include", "stage", "main", "float", "_", "rec", "alias"];
                ps[i] = rng.pick(&kw).to_string();
            }
            "ident-to-keyword"
        }
    }
}

fn unicode_splice(rng: &mut Rng, text: &str) -> (String, &'static str) {
    let bounds: Vec<usize> = text.char_indices().map(|(i, _)| i).chain(std::iter::once(text.len())).collect();
    let mut s = text.to_string();
    match rng.below(4) {
        0 | 1 => {
            let k = 1 + rng.below(3);
            let mut pos: Vec<usize> = (0..k).map(|_| *rng.pick(&bounds)).collect();
            pos.sort();
            for p in pos.into_iter().rev() {
                s.insert_str(p, *rng.pick(UNI));
            }
            (s, "unicode-insert")
        }
        2 => {
            // replace one char by a multi-byte one
            if bounds.len() >= 2 {
                let k = rng.below(bounds.len() - 1);
                s.replace_range(bounds[k]..bounds[k + 1], *rng.pick(UNI));
            }
            (s, "unicode-replace-char")
        }
        _ => {
            // rename one identifier to a non-ASCII one everywhere
            let ps = pieces(text);
            let ids: Vec<&str> = ps.iter().copied().filter(|p| p.chars().next().is_some_and(|c| c.is_alphabetic())).collect();
            if ids.is_empty() {
                return (s, "unicode-rename");
            }
            let target = *rng.pick(&ids);
            let new = *rng.pick(&["\u{e9}t\u{e9}", "\u{65e5}\u{672c}", "\u{3a9}1", "x\u{301}", "\u{1d4b3}", "na\u{ef}ve"]);
            let out: String = ps.iter().map(|p| if *p == target { new } else { *p }).collect();
            (out, "unicode-rename")
        }
    }
}

// ------------------------------------------------------------------ the monitor

struct Env {
    repo: String,
    /// compiler contexts per "saved as" path: (vm, wasm, builtin types)
    ctxs: BTreeMap<String, (ExecContext, ExecContext, Vec<(Symbol, TypeNodeId)>)>,
}

fn build_ctx(wasm: bool, path: &str) -> ExecContext {
    let plugins: Vec<Box<dyn Plugin>> = if wasm {
        vec![]
    } else {
        let driver = LocalBufferDriver::new(0);
        vec![Box::new(driver.get_as_plugin())]
    };
    let mut ctx = ExecContext::new(plugins.into_iter(), Some(PathBuf::from(path)), Config::default());
    ctx.add_system_plugin(mimium_scheduler::get_default_scheduler_plugin());
    ctx.prepare_compiler();
    ctx
}

impl Env {
    fn new(repo: &str) -> Env {
        Env { repo: repo.to_string(), ctxs: BTreeMap::new() }
    }
    fn ensure(&mut self, path: &str) {
        if !self.ctxs.contains_key(path) {
            if self.ctxs.len() > 64 {
                self.ctxs.clear();
            }
            let vm = build_ctx(false, path);
            let wasm = build_ctx(true, path);
            let builtins = vm.get_compiler().unwrap().get_ext_typeinfos();
            self.ctxs.insert(path.to_string(), (vm, wasm, builtins));
        }
    }
}

/// What was observed on one text.
#[derive(Default, Debug)]
struct Obs {
    diagnostics: usize,
    tree_nonempty: bool,
    /// (signature, detail) of refuting events
    bad: Vec<(String, String)>,
}

fn norm_msg(m: &str) -> String {
    let mut out = String::new();
    let mut in_q = false;
    let mut last_digit = false;
    for c in m.chars() {
        if c == '"' {
            in_q = !in_q;
            if in_q {
                out.push_str("\"..\"");
            }
            continue;
        }
        if in_q {
            continue;
        }
        if c.is_ascii_digit() {
            if !last_digit {
                out.push('N');
            }
            last_digit = true;
            continue;
        }
        last_digit = false;
        out.push(if c == '\n' { ' ' } else { c });
        if out.len() >= 56 {
            break;
        }
    }
    out
}

/// Signature of a panic: `panic@<file>: <head of the normalised message>`. The head is the
/// run of leading plain words (letters, optionally followed by `:`/`.`/`,`; words in
/// backquotes are kept, words in single quotes become `'..'`), at most 8 — it stops at the
/// first word that carries payload (types, names, numbers in brackets…), so that text taken
/// from the input never leaks into the signature. "value <kind> … not found" keeps the kind only.
fn panic_sig(p: &Panic) -> String {
    let s = p.sig();
    let (head, msg) = match s.find(": ") {
        Some(i) => (&s[..i], &s[i + 2..]),
        None => (s.as_str(), ""),
    };
    let mut words: Vec<String> = vec![];
    for w in msg.split_whitespace() {
        if words.len() >= 8 {
            break;
        }
        let core = w.trim_end_matches([':', '.', ',']);
        let plain = !core.is_empty() && core.chars().all(|c| c.is_ascii_alphabetic() || c == '-');
        let backq = core.len() >= 2 && core.starts_with('`') && core.ends_with('`');
        let singleq = core.len() >= 2 && core.starts_with('\'') && core.ends_with('\'');
        if plain || backq {
            words.push(w.to_string());
        } else if singleq {
            words.push("'..'".to_string());
        } else {
            break;
        }
    }
    if words.first().is_some_and(|w| w == "value") && words.len() >= 2 {
        words.truncate(2);
        words.push("<..> not found".into());
    }
    format!("{head}: {}", words.join(" "))
}

/// Panics of the compile entry points can only be reached by texts whose diagnostics are all
/// syntax errors (type errors stop `compile_with_module_info` before MIR generation): they
/// all are "MIR generation / code generation / stage-0 execution was run on a tree with
/// error nodes". The class tag is the source file that raised the panic; the individual
/// messages are listed in the evidence (`compile_panic_sites_after_diagnostics`).
fn compile_panic_sig(p: &Panic) -> String {
    let s = p.sig();
    let head = s.split(": ").next().unwrap_or("panic@?");
    format!("compile-after-syntax-errors/{head}")
}

fn check_labels(
    phase: &str,
    text: &str,
    own_path: &str,
    errs: &[Box<dyn ReportableError>],
    obs: &mut Obs,
    out: &mut Out,
) {
    for e in errs {
        let r = catch(|| (e.get_message(), e.get_labels()));
        let (msg, labels) = match r {
            Ok(x) => x,
            Err(p) => {
                obs.bad.push((panic_sig(&p), format!("panic in get_labels/get_message of a {phase} diagnostic: {} @ {}", p.msg, p.loc)));
                continue;
            }
        };
        out.count("diagnostics_checked", 1);
        out.set("diagnostic_forms", format!("{phase}: {}", norm_msg(&msg)));
        if labels.is_empty() {
            out.count("diagnostics_without_label", 1);
        }
        for (loc, _m) in labels {
            let lp = loc.path.to_string_lossy();
            if !(lp.is_empty() || lp == own_path) {
                out.count("labels_in_other_files_not_checked", 1);
                continue;
            }
            out.count("labels_checked", 1);
            let (s, t) = (loc.span.start, loc.span.end);
            // class tag: the leading plain words of the message (no names from the input)
            let class: String = norm_msg(&msg)
                .split([':', ',', '.'])
                .next()
                .unwrap_or("")
                .split_whitespace()
                .take_while(|w| w.chars().all(|c| c.is_ascii_alphabetic() || c == '-'))
                .take(6)
                .collect::<Vec<_>>()
                .join(" ");
            let ctx = || {
                format!(
                    "{phase} diagnostic {msg:?} has label span {s}..{t} (label path {:?}), text length {} bytes",
                    lp,
                    text.len()
                )
            };
            // narrow the class: the placeholder span 0..1 used when no location is known, and
            // names of members of imported modules (mangled with `$`)
            // narrower class tags, per clause: for a span outside the text whether the text
            // imports other files (then the location most likely lies in an imported file and
            // lost its path); for a split character whether it is the placeholder span 0..1
            // that the front end uses when no location is known
            let imports = pieces(text).iter().any(|p| matches!(*p, "use" | "include" | "mod"));
            let outside_class = if imports { "label-without-path-in-text-with-imports".to_string() } else { class.clone() };
            let boundary_class = if (s, t) == (0, 1) { format!("{class}/placeholder-span-0..1") } else { class.clone() };
            if s > t {
                obs.bad.push((format!("span-start-after-end/{class}"), ctx()));
            } else if t > text.len() {
                obs.bad.push((format!("span-outside-text/{outside_class}"), ctx()));
            } else if !text.is_char_boundary(s) || !text.is_char_boundary(t) {
                obs.bad.push((format!("span-not-on-char-boundary/{boundary_class}"), ctx()));
            }
            if s == 0 && t == 0 && !text.is_empty() {
                out.count("labels_with_default_span", 1);
            }
        }
    }
}

/// Run every monitored entry point on `text`.
fn check_text(env: &mut Env, text: &str, path: &str, out: &mut Out) -> Obs {
    let mut obs = Obs::default();
    out.count("texts_checked", 1);
    out.count("bytes_checked", text.len() as u64);
    if !text.is_ascii() {
        out.count("texts_non_ascii", 1);
    }
    let t0 = std::time::Instant::now();
    env.ensure(path);

    macro_rules! phase {
        ($name:expr, $body:expr) => {{
            sandbox::mark($name);
            let tp = std::time::Instant::now();
            let r = catch(|| $body);
            out.count(&format!("us_in:{}", $name), tp.elapsed().as_micros() as u64);
            match r {
                Ok(v) => v,
                Err(p) => {
                    out.count(&format!("panics_in:{}", $name), 1);
                    obs.bad.push((panic_sig(&p), format!("panic in {}: {} @ {}", $name, p.msg, p.loc)));
                    env.ctxs.remove(path);
                    return obs;
                }
            }
        }};
    }

    // --- the language-server path, phase by phase
    let tokens = phase!("tokenize", parser::tokenize(text));
    out.count("tokens_seen", tokens.len() as u64);
    for t in &tokens {
        out.set("token_kinds_seen", format!("{:?}", t.kind));
    }
    let pre = phase!("preparse", parser::preparse(&tokens));
    let (root, arena, _tokens2, cst_errs) = phase!("parse_cst", parser::parse_cst(tokens.clone(), &pre));
    obs.tree_nonempty = arena.children(root).is_some_and(|c| !c.is_empty());
    out.count("cst_errors_seen", cst_errs.len() as u64);

    let (ast, module_info, parse_errs) = phase!("parse_to_expr", parser::parse_to_expr(text, Some(PathBuf::from(path))));
    check_labels("parse", text, path, &parse_errs, &mut obs, out);
    let n_parse = parse_errs.len();

    let builtins = env.ctxs.get(path).map(|c| c.2.clone()).unwrap_or_default();
    let type_errs = phase!("typecheck", {
        let ast = if ast.has_staging_constructs() { ast.wrap_to_staged_expr() } else { ast };
        let (_, _, errs) = mirgen::typecheck_with_module_info(ast, &builtins, None, module_info);
        errs
    });
    check_labels("typecheck", text, path, &type_errs, &mut obs, out);
    let n_type = type_errs.len();
    obs.diagnostics = n_parse + n_type;
    sandbox::DIAGS.store(obs.diagnostics, std::sync::atomic::Ordering::Relaxed);

    // --- analyze_source as a whole (semantic tokens, signatures, LSP diagnostics)
    let url = tower_lsp::lsp_types::Url::from_file_path(path)
        .unwrap_or_else(|_| tower_lsp::lsp_types::Url::parse("file:///c04.mmm").unwrap());
    let resp = phase!("analyze_source", mimium_language_server::analysis::analyze_source(text, url, &builtins));
    out.count("lsp_diagnostics_seen", resp.diagnostics.len() as u64);
    out.count("lsp_semantic_tokens_seen", resp.semantic_tokens.len() as u64);

    match (n_parse > 0, n_type > 0) {
        (false, false) => out.count("texts_without_diagnostics", 1),
        (true, false) => out.count("texts_with_parse_errors_only", 1),
        (false, true) => out.count("texts_with_type_errors_only", 1),
        (true, true) => out.count("texts_with_parse_and_type_errors", 1),
    }
    if obs.tree_nonempty {
        out.count("texts_with_nonempty_tree", 1);
    }

    // --- the on-save path: both compile entry points
    for (backend, wasm) in [("emit_bytecode", false), ("emit_wasm", true)] {
        mimium_lang::verif::configure(mimium_lang::verif::Config {
            record_state: false,
            assert_bounds: false,
            step_budget: STAGE0_STEPS,
        });
        sandbox::mark(backend);
        let tp = std::time::Instant::now();
        let r = {
            let Some(c) = env.ctxs.get(path) else { break };
            let ctx = if wasm { &c.1 } else { &c.0 };
            let comp = ctx.get_compiler().expect("compiler prepared");
            catch(|| if wasm { comp.emit_wasm(text).map(|_| ()) } else { comp.emit_bytecode(text).map(|_| ()) })
        };
        mimium_lang::verif::disable();
        out.count(&format!("us_in:{backend}"), tp.elapsed().as_micros() as u64);
        match r {
            Ok(Ok(())) => {
                out.count(&format!("{backend}:accepted"), 1);
                if obs.diagnostics > 0 {
                    // accepted although the front end reported diagnostics: not a C04 matter
                    out.count(&format!("{backend}:accepted_despite_front_end_diagnostics"), 1);
                }
            }
            Ok(Err(errs)) => {
                out.count(&format!("{backend}:answered_with_diagnostics"), 1);
                if errs.is_empty() {
                    out.count(&format!("{backend}:rejected_with_empty_list"), 1);
                }
                check_labels(backend, text, path, &errs, &mut obs, out);
            }
            Err(p) => {
                env.ctxs.remove(path);
                if p.is_verif_tag() == Some("VERIF-STEPS") {
                    out.count(&format!("{backend}:stage0_step_budget_exhausted"), 1);
                    if obs.diagnostics > 0 {
                        out.inconclusive(0, &format!("stage-0 step budget exhausted in {backend} on a text with diagnostics"));
                    }
                } else if obs.diagnostics > 0 {
                    out.count(&format!("panics_in:{backend}"), 1);
                    out.set("compile_panic_sites_after_diagnostics", panic_sig(&p));
                    obs.bad.push((
                        compile_panic_sig(&p),
                        format!(
                            "panic in {backend} on a text with {n_parse} parse and {n_type} type diagnostics: {} @ {}",
                            p.msg, p.loc
                        ),
                    ));
                } else {
                    // no syntax or type error: outside C04 (C03 looks at accepted programs)
                    out.count(&format!("{backend}:panic_on_text_without_diagnostics_not_judged"), 1);
                    out.set("panics_on_texts_without_diagnostics_not_judged", panic_sig(&p));
                }
            }
        }
    }
    if t0.elapsed().as_millis() > 1000 {
        out.count("texts_slower_than_1s", 1);
    }
    obs
}

fn one_case(origin: &str, path: &str, text: &str) -> Value {
    serde_json::to_value(Case::One { origin: origin.into(), path: path.into(), text: text.into() }).unwrap()
}

fn truncate(s: &str, n: usize) -> String {
    if s.len() <= n {
        return s.to_string();
    }
    let mut k = n;
    while !s.is_char_boundary(k) {
        k -= 1;
    }
    format!("{}…", &s[..k])
}

fn case_texts(c: &Case, repo: &str) -> Option<(String, String, Vec<String>)> {
    match c {
        Case::Seq { alpha, len, first, count, joiner } => {
            let a = alphabet(alpha)?;
            let total = (a.len() as u64).checked_pow(*len as u32)?;
            let texts = (*first..(*first + *count).min(total)).map(|i| seq_text(a, *len, i, joiner)).collect();
            Some((format!("seq/{alpha}/len{len}/join{joiner:?}"), default_path(repo), texts))
        }
        Case::Texts { origin, path, texts } => Some((origin.clone(), path.clone(), texts.clone())),
        Case::One { origin, path, text } => Some((origin.clone(), path.clone(), vec![text.clone()])),
        Case::Margin { .. } => None,
    }
}

// ------------------------------------------------------------------ the sandboxed child
//
// The worker process never runs repository code itself: every case is executed by a child
// process (`mmv C04 --replay <case> --child <from> --status <file>`), element by element on
// a 2 MiB thread. The child keeps "element index + phase" in a small status file (pwrite,
// survives the process) and its SIGSEGV handler notes whether the fault address lies at the
// guard page of that thread (= stack overflow). So a crash is pinned to one text and one
// phase, gets a narrow signature, and the remaining elements of the batch still run.

mod sandbox {
    use std::sync::atomic::{AtomicI32, AtomicUsize, Ordering::Relaxed};
    pub static STATUS_FD: AtomicI32 = AtomicI32::new(-1);
    pub static STACK_LO: AtomicUsize = AtomicUsize::new(0);
    pub static ELEM: AtomicUsize = AtomicUsize::new(0);
    /// front-end diagnostics of the current element (usize::MAX = front end not finished)
    pub static DIAGS: AtomicUsize = AtomicUsize::new(usize::MAX);

    /// "k phase" at offset 0 (48 bytes, space padded)
    pub fn mark(phase: &str) {
        let fd = STATUS_FD.load(Relaxed);
        if fd < 0 {
            return;
        }
        let mut buf = [b' '; 48];
        let d = DIAGS.load(Relaxed);
        let s = if d == usize::MAX {
            format!("{} {} -", ELEM.load(Relaxed), phase)
        } else {
            format!("{} {} {}", ELEM.load(Relaxed), phase, d)
        };
        let n = s.len().min(47);
        buf[..n].copy_from_slice(&s.as_bytes()[..n]);
        unsafe {
            libc::pwrite(fd, buf.as_ptr() as *const libc::c_void, 48, 0);
        }
    }

    extern "C" fn on_segv(_sig: libc::c_int, info: *mut libc::siginfo_t, _ctx: *mut libc::c_void) {
        unsafe {
            let addr = (*info).si_addr() as usize;
            let lo = STACK_LO.load(Relaxed);
            let near = lo != 0 && addr.wrapping_add(1 << 20) >= lo && addr < lo + (64 << 10);
            let fd = STATUS_FD.load(Relaxed);
            if fd >= 0 {
                let msg: &[u8; 8] = if near { b"OVERFLOW" } else { b"SEGV    " };
                libc::pwrite(fd, msg.as_ptr() as *const libc::c_void, 8, 48);
            }
            libc::signal(libc::SIGABRT, libc::SIG_DFL);
            libc::abort();
        }
    }

    /// Call on the worker thread of the child: remember its stack and take over SIGSEGV/SIGBUS.
    pub fn arm(status_path: &str) {
        unsafe {
            let c = std::ffi::CString::new(status_path).unwrap();
            let fd = libc::open(c.as_ptr(), libc::O_WRONLY | libc::O_CREAT, 0o600);
            STATUS_FD.store(fd, Relaxed);
            let mut attr: libc::pthread_attr_t = std::mem::zeroed();
            if libc::pthread_getattr_np(libc::pthread_self(), &mut attr) == 0 {
                let mut addr: *mut libc::c_void = std::ptr::null_mut();
                let mut size: libc::size_t = 0;
                if libc::pthread_attr_getstack(&attr, &mut addr, &mut size) == 0 {
                    STACK_LO.store(addr as usize, Relaxed);
                }
                libc::pthread_attr_destroy(&mut attr);
            }
            let mut sa: libc::sigaction = std::mem::zeroed();
            sa.sa_sigaction = on_segv as usize;
            sa.sa_flags = libc::SA_SIGINFO | libc::SA_ONSTACK;
            libc::sigemptyset(&mut sa.sa_mask);
            libc::sigaction(libc::SIGSEGV, &sa, std::ptr::null_mut());
            libc::sigaction(libc::SIGBUS, &sa, std::ptr::null_mut());
        }
    }
}

/// Child side: run the elements `from..` of a case in this process.
fn child_main(args: &Args, out: &mut Out, c: &Case, from: usize) {
    if let Some(st) = args.extra.get("status") {
        sandbox::arm(st);
    }
    // a runaway loop must not take the machine down, and the child must not outlive its supervisor
    unsafe {
        let mib: u64 = args.extra.get("as-mib").and_then(|s| s.parse().ok()).unwrap_or(CHILD_AS_MIB);
        let lim = libc::rlimit { rlim_cur: mib << 20, rlim_max: mib << 20 };
        libc::setrlimit(libc::RLIMIT_AS, &lim);
        let cpu = libc::rlimit { rlim_cur: 3600, rlim_max: 3600 };
        libc::setrlimit(libc::RLIMIT_CPU, &cpu);
        libc::prctl(libc::PR_SET_PDEATHSIG, libc::SIGKILL);
    }
    let mut env = Env::new(&args.repo);
    let Some((origin, path, texts)) = case_texts(c, &env.repo) else { return };
    for (k, t) in texts.iter().enumerate().skip(from) {
        sandbox::ELEM.store(k, std::sync::atomic::Ordering::Relaxed);
        sandbox::DIAGS.store(usize::MAX, std::sync::atomic::Ordering::Relaxed);
        sandbox::mark("start");
        out.emit(json!({"ev": "begin", "idx": k}));
        let obs = check_text(&mut env, t, &path, out);
        let mut seen: Vec<&String> = vec![];
        for (sig, detail) in &obs.bad {
            if seen.contains(&sig) {
                continue;
            }
            seen.push(sig);
            out.count(&format!("violations:{sig}"), 1);
            out.emit(json!({"ev": "violation", "idx": k, "sig": sig, "detail": detail}));
        }
        out.end(k, "", obs.diagnostics > 0 || obs.tree_nonempty);
        if (k + 1) % 64 == 0 {
            // delta summary: what was observed so far survives a later crash
            out.finish();
            out.counters.clear();
            out.sets.clear();
        }
        if k + 1 < texts.len() && rss_kib() > RECYCLE_RSS_KIB {
            out.count("children_recycled_for_memory", 1);
            sandbox::mark("recycle");
            return;
        }
    }
    out.set("origins", origin.split('#').next().unwrap_or("").to_string());
    sandbox::mark("done");
}

fn rss_kib() -> u64 {
    std::fs::read_to_string("/proc/self/statm")
        .ok()
        .and_then(|s| s.split_whitespace().nth(1).and_then(|x| x.parse::<u64>().ok()))
        .map(|pages| pages * 4)
        .unwrap_or(0)
}

// ------------------------------------------------------------------ the supervising side

fn tmp_path(tag: &str) -> PathBuf {
    use std::sync::atomic::{AtomicU64, Ordering};
    static N: AtomicU64 = AtomicU64::new(0);
    // the run directory of ./check (removed by the driver), else the system temp dir
    let dir = std::env::current_dir().ok().filter(|d| d.join(".").exists() && d.to_string_lossy().contains("replays")).unwrap_or_else(std::env::temp_dir);
    dir.join(format!("mmv-c04-{}-{}-{tag}", std::process::id(), N.fetch_add(1, Ordering::Relaxed)))
}

#[derive(Debug)]
enum ChildEnd {
    Ok,
    Exit(i32),
    Signal(String),
    /// no progress on one element for the allowed time
    Timeout,
    SpawnFailed(String),
}

fn signal_name(s: i32) -> String {
    match s {
        4 => "SIGILL".into(),
        6 => "SIGABRT".into(),
        7 => "SIGBUS".into(),
        9 => "SIGKILL".into(),
        11 => "SIGSEGV".into(),
        n => format!("SIG{n}"),
    }
}

struct ChildRun {
    events: Vec<Value>,
    end: ChildEnd,
    /// peak resident set of the child, KiB
    maxrss_kib: i64,
    /// (element, phase, fault flag) from the status file
    status: Option<(usize, String, String)>,
    /// front-end diagnostics of that element, if the front end had finished
    diags: Option<usize>,
}

fn read_status_full(p: &Path) -> Option<((usize, String, String), Option<usize>)> {
    let b = std::fs::read(p).ok()?;
    let head = String::from_utf8_lossy(&b[..b.len().min(48)]).trim().to_string();
    let flag = if b.len() >= 56 { String::from_utf8_lossy(&b[48..56]).trim().to_string() } else { String::new() };
    let mut it = head.split(' ');
    let k = it.next()?.parse().ok()?;
    let phase = it.next().unwrap_or("").to_string();
    let diags = it.next().and_then(|d| d.parse().ok());
    Some(((k, phase, flag), diags))
}
fn read_status(p: &Path) -> Option<(usize, String, String)> {
    read_status_full(p).map(|x| x.0)
}

/// Execute the elements `from..` of `case` in a child. `elem_timeout_s`: how long one element
/// may stay in one phase. `beat` is called about once per second (keeps the supervisor's
/// progress watchdog quiet while a slow element is being confirmed).
fn run_child(
    repo: &str,
    tier: &str,
    case: &Value,
    from: usize,
    stack_mib: usize,
    as_mib: u64,
    elem_timeout_s: u64,
    beat: &mut dyn FnMut(),
) -> ChildRun {
    let cf = tmp_path("case.json");
    let of = tmp_path("out.jsonl");
    let sf = tmp_path("status");
    let _ = std::fs::write(&cf, json!({ "case": case }).to_string());
    let cleanup = |cf: &Path, of: &Path, sf: &Path| {
        let _ = std::fs::remove_file(cf);
        let _ = std::fs::remove_file(of);
        let _ = std::fs::remove_file(sf);
    };
    let exe = match std::env::current_exe() {
        Ok(e) => e,
        Err(e) => return ChildRun { events: vec![], end: ChildEnd::SpawnFailed(e.to_string()), status: None, diags: None, maxrss_kib: 0 },
    };
    let child = std::process::Command::new(exe)
        .args(["C04", "--replay", cf.to_str().unwrap(), "--out", of.to_str().unwrap(), "--repo", repo, "--tier", tier])
        .args(["--child", &from.to_string(), "--status", sf.to_str().unwrap(), "--stack-mib", &stack_mib.to_string()])
        .args(["--as-mib", &as_mib.to_string()])
        .stdout(std::process::Stdio::null())
        .stderr(std::process::Stdio::null())
        .spawn();
    let mut child = match child {
        Ok(c) => c,
        Err(e) => {
            cleanup(&cf, &of, &sf);
            return ChildRun { events: vec![], end: ChildEnd::SpawnFailed(e.to_string()), status: None, diags: None, maxrss_kib: 0 };
        }
    };
    let pid = child.id() as libc::pid_t;
    drop(child); // reaped below with wait4 (resource usage); std's handle is not used again
    let mut maxrss_kib = 0i64;
    // returns Some(end) once the child has been reaped
    let mut reap = |block: bool| -> Option<ChildEnd> {
        let mut st: libc::c_int = 0;
        let mut ru: libc::rusage = unsafe { std::mem::zeroed() };
        let r = unsafe { libc::wait4(pid, &mut st, if block { 0 } else { libc::WNOHANG }, &mut ru) };
        if r == 0 {
            return None;
        }
        if r < 0 {
            return Some(ChildEnd::SpawnFailed("wait4 failed".into()));
        }
        maxrss_kib = ru.ru_maxrss;
        if libc::WIFSIGNALED(st) {
            Some(ChildEnd::Signal(signal_name(libc::WTERMSIG(st))))
        } else if libc::WEXITSTATUS(st) == 0 {
            Some(ChildEnd::Ok)
        } else {
            Some(ChildEnd::Exit(libc::WEXITSTATUS(st)))
        }
    };
    let mut last_status: Option<(usize, String, String)> = None;
    let mut last_change = std::time::Instant::now();
    let mut last_look = std::time::Instant::now();
    let mut sleep_us = 200;
    let end = loop {
        if let Some(e) = reap(false) {
            break e;
        }
        if last_look.elapsed().as_millis() >= 1000 {
            last_look = std::time::Instant::now();
            beat();
            let st = read_status(&sf);
            if st != last_status {
                last_status = st;
                last_change = std::time::Instant::now();
            } else if last_change.elapsed().as_secs() >= elem_timeout_s {
                unsafe { libc::kill(pid, libc::SIGKILL) };
                let _ = reap(true);
                break ChildEnd::Timeout;
            }
        }
        std::thread::sleep(std::time::Duration::from_micros(sleep_us));
        sleep_us = (sleep_us * 2).min(5000);
    };
    let events: Vec<Value> = std::fs::read_to_string(&of)
        .unwrap_or_default()
        .lines()
        .filter_map(|l| serde_json::from_str::<Value>(l).ok())
        .collect();
    let (status, diags) = match read_status_full(&sf) {
        Some((st, d)) => (Some(st), d),
        None => (None, None),
    };
    cleanup(&cf, &of, &sf);
    ChildRun { events, end, status, diags, maxrss_kib }
}

/// Supervisor state of one worker process.
struct Sup {
    repo: String,
    tier: String,
    /// per signature: (events emitted, shortest witness so far)
    reported: BTreeMap<String, (u64, usize)>,
    confirmed_hangs: u32,
    unconfirmed_timeouts: u32,
}

/// one text may stay in one phase this long inside its batch (then 4x alone)
const ELEM_TIMEOUT_S: u64 = 30;
const BIG_STACK_MIB: usize = 256;
/// address-space limit of a child running a batch (MiB); the confirmation run gets twice that
const CHILD_AS_MIB: u64 = 1536;
/// a child that died (not at the stack guard) with at least this peak RSS is re-run alone with
/// the doubled limit: dying again with a peak that grew with the limit = runaway allocation
const RUNAWAY_RSS_KIB: i64 = 200 << 10;
/// a child whose RSS exceeds this after an element hands the rest of the batch to a fresh
/// process (the interner never frees)
const RECYCLE_RSS_KIB: u64 = 400 << 10;
/// confirmed hangs per worker process before timeouts are no longer confirmed
const HANG_BUDGET: u32 = 2;
/// unconfirmed timeouts per worker process before it gives up
const TIMEOUT_BUDGET: u32 = 6;

impl Sup {
    fn report(&mut self, out: &mut Out, idx: usize, sig: &str, detail: &str, origin: &str, path: &str, text: &str) {
        let e = self.reported.entry(sig.to_string()).or_insert((0, usize::MAX));
        // keep the event stream small: the first few hits per signature and every hit that is
        // shorter than all earlier ones
        if e.0 < 4 || text.len() < e.1 {
            e.0 += 1;
            e.1 = e.1.min(text.len());
            out.violation(idx, sig, &format!("{detail}; text={:?}", truncate(text, 400)), &one_case(origin, path, text));
        }
    }

    fn merge(&mut self, out: &mut Out, idx: usize, evs: &[Value], origin: &str, path: &str, texts: &[String], nt: &mut bool) {
        for e in evs {
            match e.get("ev").and_then(|x| x.as_str()) {
                Some("end") => {
                    *nt |= e.get("nt").and_then(|x| x.as_bool()).unwrap_or(false);
                }
                Some("violation") => {
                    let k = e.get("idx").and_then(|x| x.as_u64()).unwrap_or(0) as usize;
                    let text = texts.get(k).map(|s| s.as_str()).unwrap_or("");
                    self.report(
                        out,
                        idx,
                        e.get("sig").and_then(|x| x.as_str()).unwrap_or("?"),
                        e.get("detail").and_then(|x| x.as_str()).unwrap_or(""),
                        origin,
                        path,
                        text,
                    );
                }
                Some("inconclusive") => {
                    out.inconclusive(idx, e.get("why").and_then(|x| x.as_str()).unwrap_or(""));
                }
                Some("summary") => {
                    if let Some(c) = e.get("counters").and_then(|x| x.as_object()) {
                        for (k, v) in c {
                            out.count(k, v.as_u64().unwrap_or(0));
                        }
                    }
                    if let Some(s) = e.get("sets").and_then(|x| x.as_object()) {
                        for (k, v) in s {
                            for x in v.as_array().into_iter().flatten() {
                                if let Some(x) = x.as_str() {
                                    out.set(k, x);
                                }
                            }
                        }
                    }
                }
                _ => {}
            }
        }
    }

    /// Execute one case in child processes; returns non-trivial?
    fn exec(&mut self, c: &Case, case: &Value, idx: usize, out: &mut Out) -> bool {
        if let Case::Margin { kind, wrapped } = c {
            self.margin_probe(kind, *wrapped, out);
            return false;
        }
        let Some((origin, path, texts)) = case_texts(c, &self.repo) else {
            out.inconclusive(idx, "undecodable case");
            return false;
        };
        let mut nt = false;
        let mut from = 0;
        while from < texts.len() {
            let r = {
                let mut beat_n = 0u64;
                let mut beat = || {
                    beat_n += 1;
                    if beat_n % 15 == 0 {
                        out.emit(json!({"ev": "note", "what": "waiting for a slow element"}));
                    }
                };
                run_child(&self.repo, &self.tier, case, from, 2, CHILD_AS_MIB, ELEM_TIMEOUT_S, &mut beat)
            };
            self.merge(out, idx, &r.events, &origin, &path, &texts, &mut nt);
            // which element was open when the child ended?
            let open = r.status.as_ref().filter(|(_, ph, _)| ph != "done").map(|(k, ph, fl)| (*k, ph.clone(), fl.clone()));
            match (&r.end, open) {
                (ChildEnd::Ok, Some((k, phase, _))) if phase == "recycle" => {
                    from = k + 1;
                }
                (ChildEnd::Ok, _) => break,
                (ChildEnd::Signal(_), Some((k, phase, _))) | (ChildEnd::Timeout, Some((k, phase, _)))
                    if k < texts.len() && phase.starts_with("emit_") && r.diags == Some(0) =>
                {
                    // the text has no syntax or type error: what its compilation does is not C04's business
                    out.count(&format!("{phase}:died_or_hung_on_text_without_diagnostics_not_judged"), 1);
                    out.set("crashes_on_texts_without_diagnostics_not_judged", format!("{phase}: {:?}", r.end));
                    from = k + 1;
                }
                (ChildEnd::Signal(s0), Some((k, phase, flag))) if k < texts.len() => {
                    // our SIGSEGV handler ends the process with abort(): name the original signal
                    let s = &(if flag == "SEGV" { "SIGSEGV".to_string() } else { s0.clone() });
                    out.emit(json!({"ev": "note", "what": "child died", "signal": s, "elem": k, "phase": phase}));
                    let text = &texts[k];
                    let one = one_case(&origin, &path, text);
                    let (sig, detail) = if flag == "OVERFLOW" {
                        // does it fit into a much larger stack?
                        let r2 = run_child(&self.repo, &self.tier, &one, 0, BIG_STACK_MIB, CHILD_AS_MIB + BIG_STACK_MIB as u64, ELEM_TIMEOUT_S * 2, &mut || {});
                        let tag = match (&r2.end, r2.status.as_ref().map(|s| s.2.as_str())) {
                            (ChildEnd::Ok, _) => format!("fits-in-{BIG_STACK_MIB}MiB"),
                            (ChildEnd::Signal(_), Some("OVERFLOW")) => "unbounded-recursion".to_string(),
                            (ChildEnd::Timeout, _) => "unbounded-recursion".to_string(),
                            _ => "other-failure-on-big-stack".to_string(),
                        };
                        (
                            format!("stack-overflow/{phase}/{tag}"),
                            format!("the 2 MiB stack overflowed in {phase} ({s}); with a {BIG_STACK_MIB} MiB stack: {:?}", r2.end),
                        )
                    } else if r.maxrss_kib >= RUNAWAY_RSS_KIB && s0 != "SIGKILL" {
                        // possibly the address-space limit: run it alone with twice the limit; if it
                        // dies again and its peak grew with the limit, the allocation is unbounded
                        if self.confirmed_hangs >= HANG_BUDGET {
                            self.unconfirmed_timeouts += 1;
                            out.count("memory_deaths_not_confirmed_after_budget", 1);
                            out.inconclusive(idx, &format!("element {k} died in {phase} with {} MiB resident; not confirmed (budget used), rest of the case skipped", r.maxrss_kib >> 10));
                            break;
                        }
                        let r2 = run_child(&self.repo, &self.tier, &one, 0, 2, CHILD_AS_MIB * 2, ELEM_TIMEOUT_S * 4, &mut || {});
                        let grew = r2.maxrss_kib >= r.maxrss_kib + r.maxrss_kib / 2;
                        match (&r2.end, grew) {
                            (ChildEnd::Signal(_), true) => {
                                self.confirmed_hangs += 1;
                                (
                                    format!("runaway-allocation/{phase}"),
                                    format!(
                                        "memory grows without bound in {phase} on a text of {} bytes: the process died at the {} MiB address-space limit with {} MiB resident and again alone at {} MiB with {} MiB resident",
                                        text.len(), CHILD_AS_MIB, r.maxrss_kib >> 10, CHILD_AS_MIB * 2, r2.maxrss_kib >> 10
                                    ),
                                )
                            }
                            (ChildEnd::Signal(s2), false) => (
                                format!("crash:{s}/{phase}"),
                                format!("process died with {s} in {phase} (not at the stack guard; {} MiB resident) and again alone with {s2}", r.maxrss_kib >> 10),
                            ),
                            (other, _) => {
                                out.inconclusive(idx, &format!("element {k} died in the batch with {} MiB resident but ended with {other:?} alone", r.maxrss_kib >> 10));
                                from = k + 1;
                                continue;
                            }
                        }
                    } else if s0 == "SIGKILL" {
                        out.inconclusive(idx, &format!("child killed while on element {k} (OOM killer?)"));
                        from = k + 1;
                        continue;
                    } else {
                        (format!("crash:{s}/{phase}"), format!("process died with {s} in {phase} (not at the stack guard)"))
                    };
                    out.count(&format!("violations:{sig}"), 1);
                    self.report(out, idx, &sig, &detail, &origin, &path, text);
                    from = k + 1;
                }
                (ChildEnd::Timeout, Some((k, phase, _))) if k < texts.len() => {
                    let text = &texts[k];
                    if self.confirmed_hangs >= HANG_BUDGET {
                        // hangs were already confirmed and reported by this worker: do not spend
                        // 4x the time on every further one
                        self.unconfirmed_timeouts += 1;
                        out.count("timeouts_not_confirmed_after_hang_budget", 1);
                        out.inconclusive(idx, &format!("element {k} gave no answer within {ELEM_TIMEOUT_S}s in {phase}; not confirmed (hang budget used), rest of the case skipped"));
                        break;
                    }
                    // confirm alone with 4x the time before calling it a hang
                    let one = one_case(&origin, &path, text);
                    let r2 = {
                        let mut beat_n = 0u64;
                        let mut beat2 = || {
                            beat_n += 1;
                            if beat_n % 15 == 0 {
                                out.emit(json!({"ev": "note", "what": "confirming a slow element alone"}));
                            }
                        };
                        run_child(&self.repo, &self.tier, &one, 0, 2, CHILD_AS_MIB, ELEM_TIMEOUT_S * 4, &mut beat2)
                    };
                    match r2.end {
                        ChildEnd::Timeout => {
                            self.confirmed_hangs += 1;
                            let ph2 = r2.status.map(|s| s.1).unwrap_or(phase);
                            let sig = format!("hang/{ph2}");
                            out.count(&format!("violations:{sig}"), 1);
                            self.report(
                                out,
                                idx,
                                &sig,
                                &format!("stayed in {ph2} for {ELEM_TIMEOUT_S}s in the batch and again for {}s alone", ELEM_TIMEOUT_S * 4),
                                &origin,
                                &path,
                                text,
                            );
                        }
                        ChildEnd::Ok => {
                            out.count("slow_elements_confirmed_alone", 1);
                            let shifted: Vec<String> = vec![text.clone()];
                            self.merge(out, idx, &r2.events, &origin, &path, &shifted, &mut nt);
                        }
                        other => {
                            out.inconclusive(idx, &format!("element {k} timed out in the batch and ended with {other:?} alone"));
                        }
                    }
                    from = k + 1;
                }
                (ChildEnd::Signal(s), _) if s == "SIGKILL" => {
                    out.inconclusive(idx, "child killed (OOM?)");
                    break;
                }
                (other, st) => {
                    out.inconclusive(idx, &format!("child ended abnormally: {other:?}, status {st:?}"));
                    break;
                }
            }
        }
        nt
    }

    /// How far beyond the stated bound does a ladder survive? Information only.
    fn margin_probe(&mut self, kind: &str, wrapped: bool, out: &mut Out) {
        let mut last_ok = NEST_BOUND;
        let mut verdict = "survives 2048".to_string();
        for d in [128usize, 256, 512, 1024, 2048] {
            let Some(mut text) = ladder(kind, d) else { return };
            if wrapped {
                text = wrap_dsp(&text);
            }
            let case = one_case(&format!("margin/{kind}/{d}"), &default_path(&self.repo), &text);
            let r = run_child(&self.repo, "quick", &case, 0, 2, CHILD_AS_MIB, 10, &mut || {});
            out.count("margin_probes_run", 1);
            match r.end {
                ChildEnd::Ok => {
                    if r.events.iter().any(|e| e.get("ev").and_then(|x| x.as_str()) == Some("violation")) {
                        verdict = format!("reports a violation (no crash) at {d}");
                        break;
                    }
                    last_ok = d;
                }
                ChildEnd::Signal(s) => {
                    let (ph, fl) = r.status.map(|s| (s.1, s.2)).unwrap_or_default();
                    verdict = format!("dies with {s} in {ph} {fl} at {d}");
                    break;
                }
                ChildEnd::Timeout => {
                    let ph = r.status.map(|s| s.1).unwrap_or_default();
                    verdict = format!("no answer within 10s in {ph} at {d}");
                    break;
                }
                other => {
                    out.count("margin_probe_failed", 1);
                    verdict = format!("probe failed: {other:?}");
                    break;
                }
            }
        }
        out.set(
            "nesting_margin_beyond_bound_64",
            format!("{kind}{}: ok up to {last_ok}, {verdict}", if wrapped { " (in fn dsp)" } else { "" }),
        );
    }
}


// ------------------------------------------------------------------ plan

struct Plan {
    /// (alphabet, len, joiner, block size)
    seqs: Vec<(&'static str, usize, &'static str, u64)>,
    ladders: Vec<(String, usize, bool)>,
    margins: Vec<(String, bool)>,
    /// corpus prefixes/suffixes: estimated CPU budget per file (ms) and the minimal stride;
    /// a file gets every `stride`-th cut with stride = max(min stride, cuts*cost/budget)
    prefix_budget_ms: u64,
    suffix_budget_ms: u64,
    prefix_stride: usize,
    suffix_stride: usize,
    cut_batch: usize,
    /// estimated CPU budget of one mutation case (ms): variants = budget/cost within 2..=variants
    mutation_budget_ms: u64,
    mutation_cases: usize,
    unicode_cases: usize,
    variants: usize,
}

fn plan(args: &Args) -> Plan {
    let mut seqs: Vec<(&'static str, usize, &'static str, u64)> = vec![];
    let th = args.thorough();
    let joiners: &[&'static str] = &["", " ", "\n"];
    let full_max = if th { 3 } else { 2 };
    for len in 1..=full_max {
        for j in joiners {
            if len == 1 && !j.is_empty() {
                continue;
            }
            seqs.push(("full", len, j, if th { 4096 } else { 512 }));
        }
    }
    let (s14_max, s24_max) = if th { (5, 4) } else { (4, 3) };
    for len in 3..=s14_max {
        for j in [" ", "\n"] {
            seqs.push(("s14", len, j, if th { 4096 } else { 1024 }));
        }
    }
    for len in 3..=s24_max {
        for j in [" ", "\n"] {
            seqs.push(("s24", len, j, if th { 4096 } else { 1024 }));
        }
    }
    let margins: Vec<(String, bool)> = LADDERS.iter().map(|(k, _)| (k.to_string(), false)).collect();
    Plan {
        seqs,
        ladders: ladder_cases(),
        margins,
        prefix_budget_ms: if th { 25_000 } else { 2_000 },
        suffix_budget_ms: if th { 10_000 } else { 800 },
        prefix_stride: if th { 1 } else { 12 },
        suffix_stride: if th { 2 } else { 48 },
        cut_batch: if th { 64 } else { 24 },
        mutation_cases: if th { 4_000 } else { 450 },
        unicode_cases: if th { 1_000 } else { 150 },
        variants: if th { 16 } else { 12 },
        mutation_budget_ms: if th { 4_000 } else { 2_500 },
    }
}

/// The deterministic list of "fixed" cases (everything except the random mutation cases).
enum Slot {
    Seq { alpha: &'static str, len: usize, joiner: &'static str, first: u64, count: u64 },
    Ladder { kind: String, depth: usize, wrapped: bool },
    Margin { kind: String, wrapped: bool },
    /// hand-built family (see family_texts): name, first text, count
    Family { name: &'static str, first: usize, count: usize },
    /// file index, first char-boundary ordinal, count, stride, is_suffix
    Cut { file: usize, first: usize, count: usize, stride: usize, suffix: bool },
}

fn slots(p: &Plan, corpus: &[CorpusFile], args: &Args) -> Vec<Slot> {
    let mut v = vec![];
    for (alpha, len, joiner, block) in &p.seqs {
        let n = alphabet(alpha).unwrap().len() as u64;
        let total = n.pow(*len as u32);
        let mut first = 0;
        while first < total {
            let count = (*block).min(total - first);
            v.push(Slot::Seq { alpha, len: *len, joiner, first, count });
            first += count;
        }
    }
    for (k, d, w) in &p.ladders {
        v.push(Slot::Ladder { kind: k.clone(), depth: *d, wrapped: *w });
    }
    for (k, w) in &p.margins {
        v.push(Slot::Margin { kind: k.clone(), wrapped: *w });
    }
    for name in family_names() {
        let n = family_texts(name).len();
        let mut first = 0;
        while first < n {
            let count = 24.min(n - first);
            v.push(Slot::Family { name, first, count });
            first += count;
        }
    }
    for (fi, f) in corpus.iter().enumerate() {
        let nb = f.text.chars().count() + 1;
        for (min_stride, budget, suffix) in
            [(p.prefix_stride, p.prefix_budget_ms, false), (p.suffix_stride, p.suffix_budget_ms, true)]
        {
            // a cut costs at most a full pass over the file (most cost much less)
            let stride = min_stride.max(((nb as u64 * f.cost_ms).div_ceil(budget)) as usize).min(nb.div_ceil(3).max(1));
            // the offset within the stride depends on the seed, so that different seeds
            // look at different cut points
            let mut r = Rng::derive(args.seed, 0xC04, (fi * 2 + suffix as usize) as u64);
            let off = r.below(stride);
            let n_cuts = if nb > off { (nb - off).div_ceil(stride) } else { 0 };
            let mut first = 0;
            while first < n_cuts {
                let count = p.cut_batch.min(n_cuts - first);
                v.push(Slot::Cut { file: fi, first: off + first * stride, count, stride, suffix });
                first += count;
            }
        }
    }
    v
}

fn slot_case(s: &Slot, corpus: &[CorpusFile], repo: &str) -> Case {
    match s {
        Slot::Seq { alpha, len, joiner, first, count } => {
            Case::Seq { alpha: alpha.to_string(), len: *len, first: *first, count: *count, joiner: joiner.to_string() }
        }
        Slot::Ladder { kind, depth, wrapped } => {
            let mut text = ladder(kind, *depth).unwrap_or_default();
            if *wrapped {
                text = wrap_dsp(&text);
            }
            Case::One {
                origin: format!("ladder/{kind}{}#{depth}", if *wrapped { "/in-dsp" } else { "" }),
                path: default_path(repo),
                text,
            }
        }
        Slot::Margin { kind, wrapped } => Case::Margin { kind: kind.clone(), wrapped: *wrapped },
        Slot::Family { name, first, count } => Case::Texts {
            origin: format!("family/{name}#{first}"),
            path: default_path(repo),
            texts: family_texts(name).into_iter().skip(*first).take(*count).collect(),
        },
        Slot::Cut { file, first, count, stride, suffix } => {
            let f = &corpus[*file];
            let bounds: Vec<usize> = f.text.char_indices().map(|(i, _)| i).chain(std::iter::once(f.text.len())).collect();
            let texts = (0..*count)
                .filter_map(|k| bounds.get(first + k * stride))
                .map(|b| if *suffix { f.text[*b..].to_string() } else { f.text[..*b].to_string() })
                .collect();
            Case::Texts {
                origin: format!("{}/{}#{}", if *suffix { "suffix" } else { "prefix" }, f.rel, first),
                path: f.vpath.clone(),
                texts,
            }
        }
    }
}

fn mutation_case(rng: &mut Rng, corpus: &[CorpusFile], variants: usize, budget_ms: u64, unicode: bool) -> Option<Case> {
    if corpus.is_empty() {
        return None;
    }
    let f = rng.pick(corpus);
    let variants = ((budget_ms / f.cost_ms.max(1)) as usize).clamp(2, variants);
    let base: Vec<String> = pieces(&f.text).into_iter().map(String::from).collect();
    let mut texts = vec![];
    let mut tags = vec![];
    for _ in 0..variants {
        if unicode {
            let (mut t, tag) = unicode_splice(rng, &f.text);
            // sometimes combine with a token mutation
            if rng.chance(1, 4) {
                let mut ps: Vec<String> = pieces(&t).into_iter().map(String::from).collect();
                mutate_tokens(rng, &mut ps);
                t = ps.concat();
            }
            tags.push(tag);
            texts.push(t);
        } else {
            let mut ps = base.clone();
            let k = 1 + rng.below(4);
            for _ in 0..k {
                tags.push(mutate_tokens(rng, &mut ps));
            }
            texts.push(ps.concat());
        }
    }
    tags.sort();
    tags.dedup();
    Some(Case::Texts {
        origin: format!("{}/{}#{}", if unicode { "unicode" } else { "mutation" }, f.rel, tags.join("+")),
        path: f.vpath.clone(),
        texts,
    })
}

// ------------------------------------------------------------------ entry points

/// Run `f` on a thread with the given stack size; `Out` is only touched by that thread while
/// the caller waits.
fn on_stack(stack: usize, out: &mut Out, f: impl FnOnce(&mut Out)) {
    struct P(*mut Out);
    unsafe impl Send for P {}
    struct F<T>(T);
    unsafe impl<T> Send for F<T> {}
    let p = P(out as *mut Out);
    let f = F(f);
    std::thread::scope(|s| {
        let h = std::thread::Builder::new()
            .stack_size(stack)
            .spawn_scoped(s, move || {
                let p = p;
                let f = f;
                let out = unsafe { &mut *p.0 };
                (f.0)(out)
            })
            .expect("spawn");
        if h.join().is_err() {
            panic!("C04 worker thread panicked (harness error)");
        }
    });
}

pub fn meta(args: &Args) -> Value {
    let p = plan(args);
    let th = args.thorough();
    json!({
        "level": "exploration",
        "rule": format!(
            "Every text goes through tokenize, preparse, parse_cst, parse_to_expr, typecheck_with_module_info, analyze_source, emit_bytecode and emit_wasm on a thread with a 2 MiB stack in a child process (a crash is pinned to one text and phase; the stack-overflow class is decided by a second run with a 256 MiB stack). Cases: (a) exhaustive lexeme sequences — all sequences of length <= {} over the full alphabet of {} lexemes (every TokenKind the tokenizer emits, trivia, error characters, unterminated openers, non-ASCII) joined by \"\", \" \" and \"\\n\"; all sequences of length 3..{} over 14 structural tokens and of length 3..{} over 24 structural tokens joined by \" \" and \"\\n\"; one case = one block of the enumeration; (b) char-boundary prefixes (\"typing the file\") and suffixes of each corpus file (lib, examples, mimium-test mmm, mimium-fmt tests): every {} prefix and every {} suffix, coarser for the files whose imports make one pass expensive (estimated budget {} / {} CPU-ms per file; offset within the stride derived from the seed), {} cuts per case; (c) {} cases of up to {} token-level mutations/bracket scrambles of a random corpus file; (d) {} cases of Unicode splices (multi-byte, combining, RTL, NUL, BOM, CR/CRLF, non-ASCII identifiers); (e) {} nesting ladders ({} construct kinds, bare and inside fn dsp, depths 1..64 = the stated bound), one case each; plus informational margin probes beyond the bound. A case is non-trivial if for at least one of its texts the front end produced >= 1 diagnostic or a non-empty syntax tree; distinctness = hash of the case (block coordinates or the texts themselves).",
            if th { 3 } else { 2 }, FULL.len(), if th { 5 } else { 4 }, if th { 4 } else { 3 },
            ordinal(p.prefix_stride), ordinal(p.suffix_stride), p.prefix_budget_ms, p.suffix_budget_ms, p.cut_batch,
            p.mutation_cases, p.variants, p.unicode_cases, p.ladders.len(), LADDERS.len()),
        "assumptions": [
            "the compiler contexts are built by ExecContext with the scheduler system plugin (VM context additionally with the audio-driver plugin); MIDI, sampler and GUI plugins of the CLI/language server are not loaded, so their builtin names are unknown identifiers here",
            "a text 'has syntax or type errors' iff parse_to_expr or typecheck_with_module_info returned at least one diagnostic; panics of emit_bytecode/emit_wasm on texts without diagnostics are counted but not judged (C03)",
            "label spans are byte ranges; a label whose path is empty or the text's own path refers to the text (the convention of utils::error::report and of the language server); labels in other files are not checked",
            "the stated nesting bound is 64 levels on a 2 MiB stack; deeper nesting is probed for information only",
            "include()/use resolve against the repository's lib/ directory (texts are 'saved' as a virtual sibling of their corpus file); stage-0 macro execution is cut off after 2e7 VM instructions (counted, not judged, unless the text has diagnostics: inconclusive)",
            "'never loops forever' is observed as: one text stays in one phase for 30 s inside its batch and again for 120 s when run alone; unbounded allocation as: the child dies at a 1.5 GiB address-space limit and again, with a peak that grew by >= 50%, at 3 GiB; after two confirmed hangs/runaways a worker stops confirming and after six more gives up (reported as inconclusive cases; the run is already failing then)"
        ],
        "floor": {"quick": 400, "thorough": 4000},
        "exhaustive": true,
        "case_timeout_s": 120,
        "hang_is_violation": true,
    })
}

fn ordinal(n: usize) -> String {
    match n {
        1 => "single".into(),
        2 => "2nd".into(),
        3 => "3rd".into(),
        n => format!("{n}th"),
    }
}

pub fn run(args: &Args, out: &mut Out) {
    let p = plan(args);
    let corpus = load_corpus(&args.repo);
    if corpus.len() < 50 {
        out.inconclusive(0, &format!("corpus not found under {} ({} files)", args.repo, corpus.len()));
    }
    out.count("corpus_files", if args.shard == 0 { corpus.len() as u64 } else { 0 });
    let sl = slots(&p, &corpus, args);
    let fixed = sl.len();
    let total_all = fixed + p.mutation_cases + p.unicode_cases;
    let total = args.budget.map(|b| b.min(total_all)).unwrap_or(total_all);
    if args.shard == 0 {
        let every = sl
            .iter()
            .filter(|s| matches!(s, Slot::Cut { stride: 1, suffix: false, first: 0, .. }))
            .count();
        out.count("files_with_every_prefix", every as u64);
    }
    let mut sup = Sup { repo: args.repo.clone(), tier: args.tier.clone(), reported: BTreeMap::new(), confirmed_hangs: 0, unconfirmed_timeouts: 0 };
    out.max_samples = 1;
    let repo = args.repo.clone();
    let variants = p.variants;
    let mb = p.mutation_budget_ms;
    let (mc, uc) = (p.mutation_cases, p.unicode_cases);
    drive(
        args,
        out,
        total,
        |idx, rng| {
            if idx < fixed {
                Some(slot_case(&sl[idx], &corpus, &repo))
            } else if idx < fixed + mc {
                mutation_case(rng, &corpus, variants, mb, false)
            } else if idx < fixed + mc + uc {
                mutation_case(rng, &corpus, variants, mb, true)
            } else {
                None
            }
        },
        |c, idx, out| {
            if sup.unconfirmed_timeouts >= TIMEOUT_BUDGET {
                // hangs are confirmed and reported; going on would only burn the time budget
                out.inconclusive(idx, "case skipped: this worker stopped after repeated timeouts");
                return false;
            }
            let j = serde_json::to_value(c).unwrap();
            sup.exec(c, &j, idx, out)
        },
    );
}

pub fn replay(args: &Args, out: &mut Out, case: &Value) {
    let c: Case = match serde_json::from_value(case.clone()) {
        Ok(c) => c,
        Err(e) => {
            out.inconclusive(0, &format!("cannot decode replay case: {e}"));
            return;
        }
    };
    // child mode: execute elements in this process, on a thread of the requested stack size
    if let Some(from) = args.extra.get("child") {
        let from: usize = from.parse().unwrap_or(0);
        let mib: usize = args.extra.get("stack-mib").and_then(|s| s.parse().ok()).unwrap_or(2);
        let args = args.clone();
        on_stack(mib * 1024 * 1024, out, move |out| child_main(&args, out, &c, from));
        return;
    }
    let mut sup = Sup { repo: args.repo.clone(), tier: args.tier.clone(), reported: BTreeMap::new(), confirmed_hangs: 0, unconfirmed_timeouts: 0 };
    if let Some(dest) = args.extra.get("minimize") {
        minimize(&mut sup, &c, dest, out);
        return;
    }
    out.begin(0, case);
    let nt = sup.exec(&c, case, 0, out);
    out.end(0, &fp(&case.to_string()), nt);
}

// ------------------------------------------------------------------ witness minimiser (tool)

/// `mmv C04 --replay <case> --minimize <out.json>` (optionally `C04_SIG=<sig>`): shrink the
/// first element of the case that shows a violation while that signature stays; every probe
/// runs in a child, so crashes can be minimised too.
fn minimize(sup: &mut Sup, c: &Case, dest: &str, out: &mut Out) {
    let Some((origin, path, texts)) = case_texts(c, &sup.repo) else { return };
    let want = std::env::var("C04_SIG").ok();
    let mut sigs_of = |sup: &mut Sup, t: &str| -> Vec<String> {
        let one = one_case(&origin, &path, t);
        let oc: Case = serde_json::from_value(one.clone()).unwrap();
        let mut tmp = Out::new(Some("/dev/null"));
        sup.reported.clear();
        sup.exec(&oc, &one, 0, &mut tmp);
        tmp.counters.keys().filter_map(|k| k.strip_prefix("violations:")).map(String::from).collect()
    };
    let mut target: Option<(String, String)> = None;
    for t in &texts {
        let sigs = sigs_of(sup, t);
        if let Some(s) = sigs.iter().find(|s| want.as_ref().is_none_or(|w| w == *s)) {
            target = Some((s.clone(), t.clone()));
            break;
        }
    }
    let Some((sig, mut cur)) = target else {
        out.inconclusive(0, "nothing to minimise: no (matching) violation on replay");
        return;
    };
    let mut fails = |sup: &mut Sup, t: &str| sigs_of(sup, t).iter().any(|s| *s == sig);
    for by_chars in [false, true, false, true] {
        let mut units: Vec<String> = if by_chars {
            if cur.chars().count() > 400 {
                continue;
            }
            cur.chars().map(|c| c.to_string()).collect()
        } else {
            pieces(&cur).into_iter().map(String::from).collect()
        };
        let mut chunk = units.len().div_ceil(2).max(1);
        loop {
            let mut i = 0;
            let mut progressed = false;
            while i < units.len() {
                let end = (i + chunk).min(units.len());
                let cand: String = units[..i].iter().chain(units[end..].iter()).cloned().collect();
                if fails(sup, &cand) {
                    units.drain(i..end);
                    progressed = true;
                } else {
                    i = end;
                }
            }
            if chunk == 1 && !progressed {
                break;
            }
            if !progressed {
                chunk = (chunk / 2).max(1);
            }
        }
        cur = units.concat();
    }
    let w = json!({"property": "C04", "sig": sig, "case": one_case(&format!("minimised/{origin}"), &path, &cur)});
    let _ = std::fs::write(dest, serde_json::to_string_pretty(&w).unwrap() + "\n");
    out.emit(json!({"ev": "minimised", "sig": sig, "text": cur}));
}
