//! C12 — long-running programs do not accumulate closures or heap objects, and no
//! closure / heap object is used after release: counter equality at quiescent points
//! (after sample W+N vs W+2N) + handle-validity hooks.

use super::c01::{corpus_files, mutate_source};
use super::progcase::{Case, gen_case, input_fn, report};
use super::{drive, replay_one};
use crate::run::{Backend, Session};
use crate::util::{Args, Out};
use mimium_lang::verif::{self, MiscEvent};
use serde_json::{Value, json};
use std::path::PathBuf;

pub struct Checked {
    pub violations: Vec<(String, String)>,
    pub ran: bool,
    pub max_closures: usize,
    pub max_heap: usize,
    pub samples: u64,
    pub wasm_heap_growth: i64,
}

fn window(c: &Case) -> (usize, usize) {
    // (warm-up, window); `n` of the case is the window
    (c.n.max(16), c.n.max(16))
}

pub fn check(c: &Case) -> Checked {
    let mut res = Checked { violations: vec![], ran: false, max_closures: 0, max_heap: 0, samples: 0, wasm_heap_growth: 0 };
    let inp = input_fn(c.input_seed, c.finite_inputs);
    let path = c.path.as_ref().map(PathBuf::from);
    let (w, n) = window(c);
    for &b in Backend::all() {
        let _ = verif::take_misc_events();
        let Ok(mut s) = Session::build(b, &c.src, c.scheduler, path.clone()) else { continue };
        let ich = s.io.input as usize;
        let mut inbuf = vec![0.0; ich];
        let mut marks: Vec<(usize, (usize, usize, usize))> = vec![];
        let mut failed = false;
        for t in 0..(w + 2 * n) {
            for (k, v) in inbuf.iter_mut().enumerate() {
                *v = inp(t, k);
            }
            if s.step(&inbuf).is_err() {
                failed = true; // crashes are C03's business
                break;
            }
            res.samples += 1;
            if t + 1 == w || t + 1 == w + n || t + 1 == w + 2 * n {
                marks.push((t + 1, s.live_counts()));
            }
        }
        if failed || marks.len() < 3 {
            continue;
        }
        res.ran = true;
        let (c1, c2) = (marks[1].1, marks[2].1);
        if b == Backend::Vm {
            res.max_closures = res.max_closures.max(c2.0);
            res.max_heap = res.max_heap.max(c2.1);
            if c1.0 != c2.0 {
                res.violations.push((
                    "live-closures-grow/vm".into(),
                    format!("closures after sample {}: {}, after sample {}: {} (after warm-up {}: {})", marks[1].0, c1.0, marks[2].0, c2.0, marks[0].0, marks[0].1.0),
                ));
            }
            if c1.1 != c2.1 {
                res.violations.push((
                    "live-heap-objects-grow/vm".into(),
                    format!("heap objects after sample {}: {}, after sample {}: {} (after warm-up {}: {})", marks[1].0, c1.1, marks[2].0, c2.1, marks[0].0, marks[0].1.1),
                ));
            }
            // handle-validity hooks
            for ev in verif::take_misc_events() {
                match ev {
                    MiscEvent::DeadHandle { op, raw } => {
                        // null / zero-initialised handles are legitimate (zero-initialised state)
                        // transmuted slot-map key: version in the low half, index in the high half
                        let version = raw & 0xffff_ffff;
                        let index = raw >> 32;
                        if raw == 0 || version == 0 || (index == 0xffff_ffff && version == 1) {
                            continue;
                        }
                        res.violations.push((format!("released-handle-used/{op}/vm"), format!("{op} on a handle that is not live: raw={raw:#x}")));
                    }
                    MiscEvent::Violation(m) if m.starts_with("closure-key") => {
                        res.violations.push(("released-closure-used/vm".into(), m));
                    }
                    _ => {}
                }
            }
        } else {
            // the WASM heap is observed for the record (the property's anchors are the VM's tables)
            res.wasm_heap_growth = c2.1 as i64 - c1.1 as i64;
            let _ = verif::take_misc_events();
        }
    }
    res.violations.dedup_by(|a, b| a.0 == b.0);
    res
}

fn exec(c: &Case, idx: usize, out: &mut Out) -> bool {
    let r = check(c);
    out.count("samples_run", r.samples);
    out.count("programs_with_live_closures_at_steady_state", (r.max_closures > 0) as u64);
    out.count("programs_with_live_heap_objects_at_steady_state", (r.max_heap > 0) as u64);
    if r.wasm_heap_growth != 0 {
        out.count("wasm_heap_grew_not_judged", 1);
    }
    let origin = c.origin.as_deref().unwrap_or("generated");
    out.count(&format!("origin:{}", origin.split(':').next().unwrap_or("")), 1);
    for f in c.prog.iter().flat_map(|p| p.features.iter()).filter(|f| f.contains("lambda") || f.contains("closure") || f.contains("fn_")) {
        out.count(&format!("feature:{f}"), 1);
    }
    report(out, idx, c, &r.violations, &|t| check(t).violations);
    r.ran
}

pub fn meta(args: &Args) -> Value {
    json!({
        "level": "exploration",
        "rule": "programs that allocate in dsp: generated core programs (lambdas, closures capturing and assigning locals, closures passed / returned / immediately invoked, escaping closures), every shipped source with a dsp (boxed recursive variants, closures in tuples and records, scheduler fixtures with self-rescheduling tasks) and operator/constant mutations of them. Each runs W + 2N samples (N = 64..256 quick, up to 4096 thorough; W = N); Machine.closures.len() and Machine.heap.len() after sample W+N and W+2N must be equal; every heap retain/release/load/store on a handle that is not live (slot-map version says it once was) and every closure dereference through an invalid key is a violation. Non-trivial = the VM ran all W+2N samples; distinct = hash of text + parameters.",
        "assumptions": ["steady state is reached within W = N samples", "zero / null handles are legitimate zero-initialised state and ignored", "the WASM heap is recorded, not judged (usersum release is a documented no-op there)"],
        "floor": {"quick": 80, "thorough": 2000},
        "case_timeout_s": 60,
        "hang_is_violation": false,
        "crash_is_violation": false,
        "budget": args.cases(400, 10000),
        "sanitizer": {"kind": "asan", "budget": 400, "slowdown": 6},
    })
}

/// Hand-written programs with heap-allocated (boxed) variant values of one level in local
/// scopes of dsp: direct, inside tuples / records, in helpers, in blocks, next to closures.
/// (Nested constructions and recursive variants passed to a function leak on the unchanged
/// tree: known finding C12-boxed-variants; the templates stay clear of both.)
pub fn boxed_templates() -> Vec<String> {
    let head = "type rec List = Nil | Cons(float, List)\ntype rec Opt = Non | Som(float)\nfn hd(l: List) -> float { match l { Nil => 0.0, Cons(h, t) => h } }\nfn get(o: Opt) -> float { match o { Non => 0.0, Som(v) => v } }\n";
    let bodies = [
        "fn dsp(){ let l = Cons(1.0, Nil)\n 1.0 }",
        "fn dsp(){ let t = (Cons(1.0, Nil), 2.0)\n t.1 }",
        "fn dsp(){ let t = (2.0, Cons(1.0, Nil))\n t.0 }",
        "fn dsp(){ let t = {head = Cons(1.0, Nil), n = 2.0}\n t.n }",
        "fn dsp(){ let t = {n = 2.0, opt = Som(3.0)}\n t.n + get(t.opt) }",
        "fn mk(x){ let t = (Cons(x, Nil), 2.0)\n t.1 }\nfn dsp(){ mk(1.0) + mk(2.0) }",
        "fn mk(x){ let t = {head = Cons(x, Nil), n = x}\n t.n }\nfn dsp(){ mk(now) }",
        "fn dsp(){ let y = { let t = (Som(now), 1.0)\n get(t.0) }\n y }",
        "fn dsp(){ let f = |x| x + 1.0\n let t = (f, Cons(1.0, Nil), 2.0)\n t.2 }",
        "fn dsp(){ let a = Som(1.0)\n let b = Cons(2.0, Nil)\n let t = (a, b)\n get(t.0) }",
        "fn dsp(){ let t = ((Som(1.0), 2.0), 3.0)\n t.1 }",
        "fn dsp(){ let t = (Non, Nil, 1.0)\n t.2 }",
        "fn dsp(){ let o = if (now > 2.0) Som(now) else Non\n get(o) }",
        // several closures made while a boxed value is alive (the heap table and the closure table
        // are separate slot maps whose keys coincide): before / after / around the box, capturing
        // each other, in a helper that is called while the caller's box and closures are alive
        "fn dsp(){ let l = Cons(1.0, Nil)\n let k = 2.0\n let h = |x| x + k\n let f = |x| h(x) * 2.0\n f(1.0) }",
        "fn dsp(){ let k = 2.0\n let h = |x| x + k\n let l = Cons(now, Nil)\n let f = |x| h(x) * 2.0\n f(1.0) + h(0.0) }",
        "fn dsp(){ let k = 2.0\n let h = |x| x + k\n let f = |x| h(x) * 2.0\n let o = Som(now)\n let l = Cons(1.0, Nil)\n f(1.0) + h(0.0) + get(o) }",
        "fn work(a){ let g = |x| x + a\n let g2 = |x| g(x) + a\n g2(1.0) }\nfn dsp(){ let l = Cons(1.0, Nil)\n let k = 2.0\n let h = |x| x + k\n let f = |x| h(x) * 2.0\n let r = work(3.0)\n f(1.0) + r + h(0.0) }",
        "fn work(a){ let o = Som(a)\n let g = |x| x + a\n let g2 = |x| g(x) + a\n g2(1.0) + get(o) }\nfn dsp(){ let h = |x| x + 1.0\n let f = |x| h(x) * 2.0\n f(work(now)) + work(2.0) }",
        "fn dsp(){ let a = Som(1.0)\n let b = Som(2.0)\n let c = Cons(3.0, Nil)\n let p = |x| x + 1.0\n let q = |x| p(x) + 1.0\n let r = |x| q(x) + p(x)\n r(now) + get(a) + get(b) }",
    ];
    bodies.iter().map(|b| format!("{head}{b}\n")).collect()
}

pub fn run(args: &Args, out: &mut Out) {
    let files = corpus_files(&args.repo);
    let ncorpus = files.len();
    let nmut = if args.thorough() { ncorpus * 4 } else { ncorpus / 2 };
    let ngen = args.cases(400, 10000);
    let boxed = boxed_templates();
    drive(
        args,
        out,
        ncorpus + nmut + ngen + boxed.len(),
        |idx, rng| {
            if idx >= ncorpus + nmut + ngen {
                if args.q("boxed-values-moved-into-aggregate") && boxed[idx - (ncorpus + nmut + ngen)].contains("let t = (a, b)") {
                    return None;
                }
                return Some(Case {
                    src: boxed[idx - (ncorpus + nmut + ngen)].clone(),
                    n: 64,
                    input_seed: 1,
                    finite_inputs: true,
                    prog: None,
                    expect: None,
                    scheduler: false,
                    path: None,
                    origin: Some("template:boxed-variant".into()),
                    split: None,
                });
            }
            if idx < ncorpus + nmut {
                let f = if idx < ncorpus { &files[idx] } else { &files[rng.below(ncorpus.max(1))] };
                let src = std::fs::read_to_string(f).ok()?;
                for bad in ["Sampler", "sampler", "midi", "loadwav", "gen_sampler", "Slider", "Probe"] {
                    if src.contains(bad) {
                        return None;
                    }
                }
                let name = f.file_name()?.to_string_lossy().to_string();
                if args.q(&format!("corpus:{name}")) || args.q(&format!("c12-corpus:{name}")) {
                    return None;
                }
                let mutate = idx >= ncorpus;
                Some(Case {
                    src: if mutate { mutate_source(&src, rng) } else { src },
                    n: if args.thorough() { *rng.pick(&[256usize, 1024, 4096]) } else { *rng.pick(&[64usize, 256]) },
                    input_seed: rng.next(),
                    finite_inputs: true,
                    prog: None,
                    expect: None,
                    scheduler: true,
                    path: Some(f.to_string_lossy().to_string()),
                    origin: Some(format!("{}:{name}", if mutate { "mutant" } else { "corpus" })),
                    split: None,
                })
            } else {
                let mut c = gen_case(args, rng, true);
                c.n = if args.thorough() { *rng.pick(&[64usize, 256, 1024]) } else { *rng.pick(&[32usize, 64]) };
                Some(c)
            }
        },
        exec,
    );
}

pub fn replay(_args: &Args, out: &mut Out, case: &Value) {
    replay_one::<Case>(out, case, exec);
}
