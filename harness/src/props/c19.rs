//! C19 — concurrent compilations do not interfere: K threads released on a barrier
//! compile and run programs; each thread's diagnostics / outputs are compared with what
//! the same job yields alone. The interner hook (H8) logs the order in which threads
//! pass the interner lock (evidence of the interleavings actually observed) and makes
//! threads give up the CPU after PRNG-chosen interner operations (after the unlock).

use super::c01::{corpus_files, mutate_source};
use super::progcase::{gen_case, input_fn};
use super::{drive, replay_one};
use crate::run::{Backend, BuildError, RunError, run_program};
use crate::util::{Args, Out, Rng, catch, fnv, hooks_default};
use mimium_lang::verif;
use serde::{Deserialize, Serialize};
use serde_json::{Value, json};
use std::path::PathBuf;
use std::sync::{Arc, Barrier};

#[derive(Clone, Debug, Serialize, Deserialize)]
pub struct Job {
    pub src: String,
    pub path: Option<String>,
    pub scheduler: bool,
    pub n: usize,
    pub input_seed: u64,
    pub wasm: bool,
    pub origin: String,
}

#[derive(Clone, Debug, Serialize, Deserialize)]
pub struct CCase {
    pub jobs: Vec<Job>,
    /// per thread: indices into `jobs`, run in this order
    pub threads: Vec<Vec<usize>>,
    /// give up the CPU after about one in `yield_one_in` interner operations (0 = never)
    pub yield_one_in: u32,
    pub sched_seed: u64,
    /// repetitions of the concurrent phase (each with another yield seed)
    pub rounds: usize,
    /// in the concurrent phase every job's text gets a tail of definitions whose identifiers have never
    /// been interned in this process (the same tail for all threads of a round, another one per round):
    /// the threads then intern the same new names at the same time. The tail does not change what the
    /// job outputs, so the outcome computed alone (without it) is still the reference.
    #[serde(default)]
    pub fresh_names: bool,
}

/// 24 chained functions and a global that calls the last one: every name is defined and referenced
fn fresh_tail(seed: u64, round: usize) -> String {
    let nonce = format!("{:x}r{round}", seed & 0xffff_ffff_ffff);
    let mut s = String::from("\n");
    s.push_str(&format!("fn zq{nonce}_0(x){{ x }}\n"));
    for i in 1..24 {
        s.push_str(&format!("fn zq{nonce}_{i}(x){{ zq{nonce}_{}(x) + {i}.0 }}\n", i - 1));
    }
    s.push_str(&format!("let zq{nonce}_g = zq{nonce}_23(1.0)\n"));
    s
}

/// What one job yields, rendered so that equality is what the property asks for.
fn outcome(j: &Job) -> String {
    let inp = input_fn(j.input_seed, true);
    let path = j.path.as_ref().map(PathBuf::from);
    let backend = if j.wasm { Backend::Wasm } else { Backend::Vm };
    let r = catch(|| run_program(backend, &j.src, j.scheduler, j.n, &inp, false, path));
    match r {
        Err(p) => format!("panic:{}", p.sig()),
        Ok(Ok(o)) => {
            let bytes: Vec<u8> = o.out.iter().flat_map(|x| x.to_bits().to_le_bytes()).collect();
            format!("ok:ch{}:n{}:{:016x}", o.channels, o.out.len(), fnv(&bytes))
        }
        Ok(Err(RunError::Build(BuildError::Rejected(d)))) => {
            // the order of independent diagnostics follows hash-map iteration order, which
            // differs per thread even without any concurrency: compare them as a multiset
            let mut items: Vec<String> = d
                .into_iter()
                .map(|x| {
                    let mut s = x.message.clone();
                    for (a, b, p, m) in x.labels {
                        s.push_str(&format!("[{a}..{b}@{}:{m}]", p.rsplit('/').next().unwrap_or("")));
                    }
                    s
                })
                .collect();
            items.sort();
            format!("rejected:{}", items.join("|"))
        }
        Ok(Err(RunError::Build(BuildError::BackendRefused(m)))) => format!("refused:{m}"),
        Ok(Err(RunError::Build(BuildError::NoDsp))) => "nodsp".into(),
        Ok(Err(RunError::Build(BuildError::Panicked(ph, p)))) => format!("panic-in-{ph}:{}", p.sig()),
        Ok(Err(RunError::DspPanic(i, p))) => format!("dsp-panic@{i}:{}", p.sig()),
    }
}

fn kind(o: &str) -> &str {
    o.split(':').next().unwrap_or("")
}

pub struct Checked {
    pub violations: Vec<(String, String)>,
    pub jobs_compared: u64,
    pub unstable_alone: u64,
    pub order_hashes: Vec<String>,
    pub handovers: u64,
    pub ops_logged: u64,
    pub kinds: Vec<String>,
    pub poisoned: bool,
    pub child_failed: bool,
}

fn interner_alive() -> bool {
    use mimium_lang::interner::ToSymbol;
    catch(|| "c19_probe".to_symbol()).is_ok()
}

/// Run every job alone in a fresh process (a job that kills or hangs the process alone is
/// not this property's business and must not take the schedule down with it).
fn alone_in_child(c: &CCase) -> Option<Vec<String>> {
    use std::io::Write;
    let dir = std::env::current_dir().unwrap_or_else(|_| std::env::temp_dir()).join(format!("mmv-c19-{}", std::process::id()));
    let _ = std::fs::create_dir_all(&dir);
    let cf = dir.join("case.json");
    {
        let mut f = std::fs::File::create(&cf).ok()?;
        let _ = f.write_all(serde_json::to_string(c).ok()?.as_bytes());
    }
    let exe = std::env::current_exe().ok()?;
    let mut child = std::process::Command::new(exe)
        .arg("C19")
        .arg("--alone")
        .arg(&cf)
        .stderr(std::process::Stdio::null())
        .stdout(std::process::Stdio::piped())
        .spawn()
        .ok()?;
    let t0 = std::time::Instant::now();
    loop {
        match child.try_wait() {
            Ok(Some(_)) => break,
            Ok(None) => {
                if t0.elapsed().as_secs() > 40 {
                    let _ = child.kill();
                    let _ = child.wait();
                    return None;
                }
                std::thread::sleep(std::time::Duration::from_millis(5));
            }
            Err(_) => return None,
        }
    }
    let out = child.wait_with_output().ok()?;
    let txt = String::from_utf8_lossy(&out.stdout);
    let line = txt.lines().rev().find_map(|l| l.strip_prefix("ALONE "))?;
    serde_json::from_str::<Vec<String>>(line).ok()
}

pub fn check(c: &CCase) -> Checked {
    let mut res = Checked { violations: vec![], jobs_compared: 0, unstable_alone: 0, order_hashes: vec![], handovers: 0, ops_logged: 0, kinds: vec![], poisoned: false, child_failed: false };
    verif::interleave_disable();
    let Some(fresh) = alone_in_child(c) else {
        res.child_failed = true;
        return res;
    };
    // alone, twice: the reference, and whether the job is reproducible at all
    let mut alone: Vec<Option<String>> = vec![];
    for (ji, j) in c.jobs.iter().enumerate() {
        let a = outcome(j);
        let b = outcome(j);
        if a == b && fresh.get(ji) == Some(&a) {
            res.kinds.push(kind(&a).to_string());
            alone.push(Some(a));
        } else {
            res.unstable_alone += 1;
            alone.push(None);
        }
    }
    // a tail of the same shape (other names) must leave the job's outcome alone as it is; jobs for which it
    // does not (the text ends inside a construct, a macro-stage section ...) run without a tail
    let tail_ok: Vec<bool> = c
        .jobs
        .iter()
        .enumerate()
        .map(|(ji, j)| {
            c.fresh_names
                && alone[ji].as_deref().is_some_and(|a| a.starts_with("ok:"))
                && {
                    let mut t = j.clone();
                    t.src.push_str(&fresh_tail(c.sched_seed ^ 0x5a5a_5a5a, 9999));
                    Some(outcome(&t)) == alone[ji]
                }
        })
        .collect();
    if !interner_alive() {
        res.poisoned = true;
        return res;
    }
    let k = c.threads.len();
    for round in 0..c.rounds.max(1) {
        let barrier = Arc::new(Barrier::new(k));
        verif::order_log_start();
        let mut hs = vec![];
        for (ti, list) in c.threads.iter().enumerate() {
            let tail = if c.fresh_names { fresh_tail(c.sched_seed, round) } else { String::new() };
            let jobs: Vec<Job> = list
                .iter()
                .map(|&i| {
                    let mut j = c.jobs[i].clone();
                    // only texts that are accepted alone: a tail after a syntax error would change the diagnostics
                    if tail_ok[i] {
                        j.src.push_str(&tail);
                    }
                    j
                })
                .collect();
            let barrier = barrier.clone();
            let seed = c.sched_seed ^ ((ti as u64 + 1) * 0x9e37_79b9_7f4a_7c15) ^ ((round as u64) << 32);
            let one_in = c.yield_one_in;
            hs.push(
                std::thread::Builder::new()
                    .stack_size(64 << 20)
                    .spawn(move || {
                        hooks_default();
                        verif::interleave_configure(ti as u8 + 1, seed, one_in);
                        barrier.wait();
                        let r: Vec<String> = jobs.iter().map(outcome).collect();
                        verif::interleave_disable();
                        r
                    })
                    .expect("spawn"),
            );
        }
        let results: Vec<Option<Vec<String>>> = hs.into_iter().map(|h| h.join().ok()).collect();
        let order = verif::order_log_take();
        res.ops_logged += order.len() as u64;
        res.handovers += order.windows(2).filter(|w| w[0] != w[1]).count() as u64;
        res.order_hashes.push(format!("{:016x}", fnv(&order[..order.len().min(2000)])));
        for (ti, r) in results.iter().enumerate() {
            let Some(r) = r else {
                res.violations.push(("thread-died".into(), format!("thread {ti} of {k} terminated abnormally (round {round})")));
                continue;
            };
            for (pos, got) in r.iter().enumerate() {
                let ji = c.threads[ti][pos];
                let Some(want) = &alone[ji] else { continue };
                res.jobs_compared += 1;
                if got != want {
                    let cls = match (kind(want), kind(got)) {
                        (a, b) if a == b && a == "ok" => "outputs-differ-from-alone".to_string(),
                        (a, b) if a == b && a == "rejected" => "diagnostics-differ-from-alone".to_string(),
                        (a, b) if b.starts_with("panic") || b.starts_with("dsp-panic") => format!("panic-only-when-concurrent/{a}"),
                        (a, b) => format!("outcome-kind-differs/{a}->{b}"),
                    };
                    res.violations.push((
                        cls,
                        format!("thread {ti}/{k} job {ji} ({}) round {round}: alone = {} ; concurrent = {}", c.jobs[ji].origin, clip(want), clip(got)),
                    ));
                }
            }
        }
        if !interner_alive() {
            res.poisoned = true;
            res.violations.push(("interner-poisoned-after-concurrent-phase".into(), format!("the interner mutex is poisoned after round {round}")));
            break;
        }
    }
    res.violations.sort();
    res.violations.dedup_by(|a, b| a.0 == b.0);
    res
}

fn clip(s: &str) -> String {
    s.chars().take(300).collect()
}

fn exec(c: &CCase, idx: usize, out: &mut Out) -> bool {
    let r = check(c);
    if r.child_failed {
        out.inconclusive(idx, "a job of this schedule kills or hangs a process even when run alone (C03/C04's business)");
        out.count("schedules_with_a_job_that_dies_alone", 1);
        return false;
    }
    out.count("jobs_compared_with_alone", r.jobs_compared);
    out.count("jobs_not_reproducible_alone_skipped", r.unstable_alone);
    out.count("interner_ops_logged", r.ops_logged);
    out.count("interner_lock_handovers_between_threads", r.handovers);
    out.count(&format!("threads:{}", c.threads.len()), 1);
    if c.fresh_names {
        out.count("schedules_interning_fresh_identifiers_concurrently", 1);
    }
    for h in &r.order_hashes {
        out.set("distinct_interleavings_observed", h.clone());
    }
    for k in &r.kinds {
        out.count(&format!("alone_outcome:{k}"), 1);
    }
    for j in &c.jobs {
        out.count(&format!("origin:{}", j.origin.split(':').next().unwrap_or("")), 1);
    }
    for (sig, detail) in &r.violations {
        out.count(&format!("violations:{sig}"), 1);
        out.violation(idx, sig, detail, &serde_json::to_value(c).unwrap());
    }
    if r.poisoned {
        // the interner mutex is poisoned: this process is useless from here on. Leave the case
        // open and exit with the harness-trouble code so that the supervisor restarts after it
        // (a violation recorded above stays recorded).
        if r.violations.is_empty() {
            out.inconclusive(idx, "a job panicked inside the interner lock when run alone (C03/C04's business); worker restarts");
        }
        out.finish();
        std::process::exit(3);
    }
    r.jobs_compared > 0 && r.handovers > 0
}

pub fn meta(args: &Args) -> Value {
    json!({
        "level": "exploration",
        "rule": "each case = a schedule: K in {2,4,8,16} threads released on a barrier, each compiling and running 1-3 jobs (shipped sources incl. macros / modules / type declarations, generated programs, mutated sources with type errors; distinct and identical sources; VM and WASM; one long-running job while the others compile). Every job's outcome (rendered diagnostics with spans, or hash of all output bits, or panic signature) is first computed alone, twice (in a fresh process and twice in the worker process; jobs whose three alone outcomes differ are skipped, schedules with a job that kills a process alone are inconclusive), then compared with what the thread obtained concurrently; any difference, a thread that dies, or a poisoned interner is a violation; a schedule that never finishes is reported by the supervisor as a hang (confirmed by re-running alone). The H8 hook logs the order in which threads pass the interner lock and yields / spins after the unlock of about one in N operations (N from the case). Non-trivial = at least one comparison and at least one lock handover between threads; distinct interleavings = hash of the first 2000 lock acquisitions.",
        "assumptions": ["'alone' = single-threaded in the same process just before the concurrent phase", "all interleavings are not reachable; the verdict is about the interleavings observed"],
        "floor": {"quick": 40, "thorough": 1500},
        "case_timeout_s": 240,
        "hang_is_violation": true,
        "crash_is_violation": true,
        "budget": args.cases(64, 3000),
        "sanitizer": {"kind": "tsan", "budget": 160, "slowdown": 10},
    })
}

/// Programs that declare the same names with other meanings (variant `v` of family `fam`): the value they
/// yield tells whose declarations were used. Two threads compiling two variants at the same time must
/// not see each other's aliases, types, functions or macros.
fn same_names_program(fam: usize, v: usize) -> String {
    let k = 2 + v % 3; // width of the innermost tuple
    match fam % 4 {
        0 => {
            // alias used inside other aliases
            let pt = vec!["float"; k].join(", ");
            let names: Vec<String> = (0..k).map(|i| format!("a{i}")).collect();
            let namesb: Vec<String> = (0..k).map(|i| format!("b{i}")).collect();
            let lit = |base: usize| (0..k).map(|i| format!("{}.0", base + i)).collect::<Vec<_>>().join(", ");
            format!(
                "type alias Pt = ({pt})\ntype alias Seg = (Pt, Pt)\ntype alias Path2 = (Seg, Seg)\nfn endsum(s:Seg)->float {{\n  let (a, b) = s\n  let ({}) = a\n  let ({}) = b\n  {} + {} * 10.0\n}}\nfn pathsum(p:Path2)->float {{\n  let (s1, s2) = p\n  endsum(s1) + endsum(s2) * 1000.0\n}}\nfn dsp(){{\n  pathsum(((({}), ({})), (({}), ({}))))\n}}\n",
                names.join(", "), namesb.join(", "), names.join(" + "), namesb.join(" + "), lit(1), lit(10), lit(20), lit(30)
            )
        }
        1 => {
            // sum type with the same constructor names and other payloads
            let payload = vec!["float"; k].join(", ");
            let binders: Vec<String> = (0..k).map(|i| format!("p{i}")).collect();
            let args = (0..k).map(|i| format!("{}.0", i + 1 + v)).collect::<Vec<_>>().join(", ");
            format!(
                "type Shape = Dot | Box({payload}) | Ring(float)\nfn area(s: Shape){{\n  match s {{\n    Dot => 0.0,\n    Box({}) => {},\n    Ring(r) => r * {}.0\n  }}\n}}\nfn dsp(){{\n  area(Box({args})) + area(Ring(2.0)) * 100.0 + area(Dot)\n}}\n",
                binders.join(", "), binders.join(" * "), v + 3
            )
        }
        2 => {
            // macro and macro-stage helper of the same name generating other code
            format!(
                "#stage(macro)\nfn weights(){{ [{}] }}\nfn pickw(i){{ let w = weights()\n  w[i] |> lift_f }}\nfn gain(){{ `{{ |x| x * $(pickw({})) + {}.0 }} }}\n#stage(main)\nfn cnt(){{ self + 1.0 }}\nfn dsp(){{\n  gain!()(cnt()) + $(pickw(0))\n}}\n",
                (0..4).map(|i| format!("{}.5", i + v * 3)).collect::<Vec<_>>().join(", "), v % 4, v + 1
            )
        }
        _ => {
            // module members of the same path with other bodies, reached through use / qualified path
            format!(
                "mod util {{\n  pub fn scale(x){{ x * {}.0 }}\n  pub mod deep {{\n    pub fn offset(){{ {}.25 }}\n  }}\n  pub use deep::offset\n}}\nuse util::scale\nfn dsp(){{\n  scale(now + 1.0) + util::offset() + util::deep::offset() * 100.0\n}}\n",
                v + 2, v + 7
            )
        }
    }
}

/// macro-stage code that panics (second element of a one-element array) next to the same macro used legally
pub fn macro_stage_program(panics: bool) -> String {
    format!(
        "#stage(macro)\nfn second(arr:[float])->float{{\n  let (h1, rest) = split_head(arr)\n  let (h2, rest2) = split_head(rest)\n  h2\n}}\n#stage(main)\nfn dsp(){{\n  let ans = ${{ second([1.0{}]) |> lift_f }}\n  ans + 40.0\n}}\n",
        if panics { "" } else { ", 2.0" }
    )
}

pub fn gen_ccase(args: &Args, rng: &mut Rng, files: &[PathBuf]) -> CCase {
    let k = *rng.pick(&[2usize, 4, 4, 8, 8, 16]);
    let mut jobs: Vec<Job> = vec![];
    let njobs = 1 + rng.below(k.min(6));
    let plain_job = |src: String, origin: &str| Job { src, path: None, scheduler: false, n: 8, input_seed: 1, wasm: false, origin: origin.into() };
    for _ in 0..njobs {
        let pick = rng.below(13);
        if pick >= 10 {
            if pick == 12 {
                // one job whose macro-stage code panics, and users of the same macro that must not notice
                jobs.push(plain_job(macro_stage_program(true), "macro-stage-panic"));
                jobs.push(plain_job(macro_stage_program(false), "macro-stage-ok"));
            } else {
                // two variants of one family: same declared names, other meanings
                let fam = rng.below(4);
                let v = rng.below(6);
                jobs.push(plain_job(same_names_program(fam, v), &format!("same-names/{fam}")));
                jobs.push(plain_job(same_names_program(fam, v + 1 + rng.below(2)), &format!("same-names/{fam}")));
            }
            continue;
        }
        let job = if pick < 5 && !files.is_empty() {
            // shipped source (possibly mutated: type errors, other constants)
            let mut tries = 0;
            loop {
                let f = &files[rng.below(files.len())];
                let src = std::fs::read_to_string(f).unwrap_or_default();
                tries += 1;
                let bad = ["Sampler", "sampler", "midi", "loadwav", "gen_sampler", "Slider", "Probe"].iter().any(|b| src.contains(b));
                if bad && tries < 20 {
                    continue;
                }
                let mutate = rng.chance(1, 3);
                let name = f.file_name().map(|x| x.to_string_lossy().to_string()).unwrap_or_default();
                break Job {
                    src: if mutate { mutate_source(&src, rng) } else { src },
                    path: Some(f.to_string_lossy().to_string()),
                    scheduler: true,
                    n: 64,
                    input_seed: rng.next(),
                    wasm: rng.chance(1, 4),
                    origin: format!("{}:{name}", if mutate { "mutant" } else { "corpus" }),
                };
            }
        } else if pick < 8 {
            let g = gen_case(args, rng, true);
            Job { src: g.src, path: None, scheduler: false, n: 64, input_seed: g.input_seed, wasm: rng.chance(1, 4), origin: "generated".into() }
        } else if pick == 8 {
            // ill-typed / syntactically broken text: diagnostics must not be contaminated
            let g = gen_case(args, rng, true);
            let mut s = g.src;
            let cut = rng.below(s.len().max(1));
            let cut = (0..=cut).rev().find(|&i| s.is_char_boundary(i)).unwrap_or(0);
            if rng.chance(1, 2) {
                s.truncate(cut);
            } else {
                s.insert_str(cut, " \"str\" + ");
            }
            Job { src: s, path: None, scheduler: false, n: 8, input_seed: 1, wasm: false, origin: "broken".into() }
        } else {
            // long-running machine while the others compile
            let g = gen_case(args, rng, true);
            Job { src: g.src, path: None, scheduler: false, n: 4096, input_seed: g.input_seed, wasm: false, origin: "long-run".into() }
        };
        jobs.push(job);
    }
    let identical = rng.chance(1, 3);
    let threads: Vec<Vec<usize>> = (0..k)
        .map(|t| {
            let m = 1 + rng.below(3);
            (0..m).map(|_| if identical { 0 } else if rng.chance(1, 2) { t % jobs.len() } else { rng.below(jobs.len()) }).collect()
        })
        .collect();
    let fresh_names = rng.chance(1, 2);
    CCase { jobs, threads, yield_one_in: *rng.pick(&[0u32, 1, 2, 8, 64, 512]), sched_seed: rng.next(), rounds: if args.thorough() { 3 } else { 2 }, fresh_names }
}

pub fn run(args: &Args, out: &mut Out) {
    if let Some(f) = args.extra.get("alone") {
        let c: CCase = serde_json::from_str(&std::fs::read_to_string(f).expect("case file")).expect("case json");
        hooks_default();
        let r: Vec<String> = c.jobs.iter().map(outcome).collect();
        println!("\nALONE {}", serde_json::to_string(&r).unwrap());
        std::process::exit(0);
    }
    let files = corpus_files(&args.repo);
    let n = args.cases(64, 3000);
    drive(args, out, n, |_idx, rng| Some(gen_ccase(args, rng, &files)), exec);
}

pub fn replay(_args: &Args, out: &mut Out, case: &Value) {
    replay_one::<CCase>(out, case, exec);
}
