//! Shared case type for the properties that run generated core-language programs
//! (C01, C02, C03, C05, ...): program text + run parameters (+ G-AST or expected stream).

use crate::gens::core::{Feat, Program, generate};
use crate::util::{Args, Out, Rng, splitmix};
use serde::{Deserialize, Serialize};

#[derive(Clone, Debug, Serialize, Deserialize)]
pub struct Case {
    pub src: String,
    pub n: usize,
    #[serde(default)]
    pub input_seed: u64,
    #[serde(default = "yes")]
    pub finite_inputs: bool,
    /// generated programs carry their G-AST (the reference interpreter runs on it)
    #[serde(default)]
    pub prog: Option<Program>,
    /// hand-written witnesses carry the expected output stream instead
    /// (flattened [sample][channel], as strings so that NaN / -0.0 / inf can be written)
    #[serde(default)]
    pub expect: Option<Vec<String>>,
    /// run with the scheduler plugin
    #[serde(default)]
    pub scheduler: bool,
    /// file the text came from (resolves `use` / includes), if any
    #[serde(default)]
    pub path: Option<String>,
    /// where the case came from (generated / corpus:<file> / mutant:<file> / witness)
    #[serde(default)]
    pub origin: Option<String>,
    /// hot-swap properties: fixed (split point, consecutive swaps)
    #[serde(default)]
    pub split: Option<(usize, usize)>,
}
fn yes() -> bool {
    true
}

const PALETTE: [f64; 16] =
    [0.0, 1.0, -1.0, 0.5, -0.5, 2.0, 3.0, 0.25, 10.0, -3.5, 0.1, 7.0, 100.0, -0.75, 1e-3, 4.0];
const NASTY: [f64; 8] = [f64::NAN, f64::INFINITY, f64::NEG_INFINITY, -0.0, 1e308, 5e-324, -1e308, 1e16];

pub fn input_fn(seed: u64, finite: bool) -> impl Fn(usize, usize) -> f64 {
    move |t: usize, c: usize| {
        let mut s = seed ^ ((t as u64) << 8) ^ (c as u64).wrapping_mul(0x9E37_79B9);
        let r = splitmix(&mut s);
        if !finite && r % 7 == 0 {
            return NASTY[(r >> 8) as usize % NASTY.len()];
        }
        match r % 4 {
            0 => PALETTE[(r >> 8) as usize % PALETTE.len()],
            1 => ((r >> 8) % 2001) as f64 / 1000.0 - 1.0,
            2 => (t as f64) * 0.5 - c as f64,
            _ => ((r >> 8) % 17) as f64 - 8.0,
        }
    }
}

/// Dynamic quarantines: predicates over the *reference execution* of a generated case, one per
/// recorded defect class whose shape cannot be kept out of the generator statically. Returns the
/// names (as listed in KNOWN_FINDINGS.txt) of the classes this case falls into.
pub fn dyn_quarantined(c: &Case) -> Vec<&'static str> {
    let mut v = vec![];
    let Some(prog) = &c.prog else { return v };
    let inp = input_fn(c.input_seed, c.finite_inputs);
    if let Ok((_, flags)) = crate::refsem::run(prog, c.n, &inp) {
        for (flag, q) in [
            ("modulo_non_integer_operand", "modulo"),
            ("reentrant_call_with_aggregate_parameter", "wasm-reentrant-call-with-aggregate-parameter"),
        ] {
            if flags.contains(flag) && crate::util::q(q) {
                v.push(q);
            }
        }
    }
    v
}

pub fn feat_for(args: &Args, rng: &mut Rng) -> Feat {
    let budget = if args.thorough() { 10 + rng.below(30) } else { 6 + rng.below(14) };
    let mut f = Feat::all(budget);
    f.max_fns = if args.thorough() { 2 + rng.below(8) } else { 1 + rng.below(5) };
    f.max_state_depth = 1 + rng.below(4);
    // individually switch some features off so that failures localise
    if rng.chance(1, 4) {
        f.lambdas = false;
        f.escaping_closures = false;
    }
    if rng.chance(1, 4) {
        f.records = false;
    }
    if rng.chance(1, 5) {
        f.tuples = false;
        f.self_tuple = false;
    }
    if rng.chance(1, 3) {
        f.defaults = false;
    }
    f.defaults_dotdot = !args.q("default-args-dotdot") && rng.chance(1, 3);
    f.branch_state = !args.q("stateful-call-in-branch") && rng.chance(1, 4);
    // one gated state cell at the end of a stateful function (float-valued arms, one arm stateful)
    f.gated_state = !args.q("gated-state") && rng.chance(1, 3);
    f.raw_logic = false;
    if matches!(args.prop.as_str(), "C01" | "C03" | "C05" | "C12") {
        // hostile profile: these properties need no reference semantics for what they observe
        f.raw_logic = rng.chance(1, 3);
    }
    if matches!(args.prop.as_str(), "C01" | "C05") && !args.q("delay-time-out-of-range") {
        f.hostile_delay_time = rng.chance(1, 2);
    }
    if matches!(args.prop.as_str(), "C03" | "C05") {
        f.many_locals = rng.chance(1, 25);
        f.max_state_depth = 1 + rng.below(5);
    }
    if args.q("modulo") {
        f.modulo = false;
    }
    if args.prop == "C12" && args.q("vm-leak-closure-alias") {
        f.closure_alias = false;
    }
    if args.prop == "C12" && args.q("vm-leak-closure-as-argument") {
        // no function-typed parameters: every call site would pass a closure
        f.hof = false;
    }
    f.avoid = args.quarantine.iter().cloned().collect();
    f
}


/// Minimise a failing case for one signature; `violations(case)` is the property's pure oracle.
pub fn minimise(c: &Case, sig: &str, max_evals: usize, violations: &dyn Fn(&Case) -> Vec<(String, String)>) -> Case {
    let mut best = c.clone();
    for n in [1usize, 2, 4, 8, 16] {
        if n < best.n {
            let mut t = best.clone();
            t.n = n;
            if violations(&t).iter().any(|v| v.0 == sig) {
                best = t;
                break;
            }
        }
    }
    let Some(prog0) = best.prog.clone() else {
        // text-only case: delta-debug the text itself
        let base = best.clone();
        let mut pred = |t: &str| {
            let c = Case { src: t.to_string(), ..base.clone() };
            violations(&c).iter().any(|v| v.0 == sig)
        };
        best.src = minimise_text(&best.src, &mut pred, max_evals);
        return best;
    };
    let base = best.clone();
    let mut pred = |p: &Program| {
        if !crate::gens::tycheck::well_typed(p) {
            return false;
        }
        let t = Case { src: p.print(), prog: Some(p.clone()), ..base.clone() };
        violations(&t).iter().any(|v| v.0 == sig)
    };
    let small = crate::gens::shrink::shrink(&prog0, &mut pred, max_evals);
    best.src = small.print();
    best.prog = Some(small);
    best
}

/// Report violations: the first hit of a signature in this worker is minimised, a few
/// more are reported as they are, the rest only counted.
pub fn report(
    out: &mut Out,
    idx: usize,
    c: &Case,
    found: &[(String, String)],
    violations: &dyn Fn(&Case) -> Vec<(String, String)>,
) {
    for (sig, detail) in found {
        let key = format!("violations:{sig}");
        let seen = out.counters.get(&key).copied().unwrap_or(0);
        out.count(&key, 1);
        if seen == 0 && !cfg!(miri) {
            let small = minimise(c, sig, 400, violations);
            let d2 = violations(&small).into_iter().find(|v| &v.0 == sig).map(|v| v.1).unwrap_or(detail.clone());
            out.violation(
                idx,
                sig,
                &format!("{d2}\n(minimised from a {}-byte program)", c.src.len()),
                &serde_json::to_value(&small).unwrap(),
            );
        } else if seen < 4 {
            out.violation(idx, sig, detail, &serde_json::to_value(c).unwrap());
        }
    }
}

pub fn gen_case(args: &Args, rng: &mut Rng, finite_inputs: bool) -> Case {
    let feat = feat_for(args, rng);
    let mut prog = generate(rng, feat.clone());
    // programs whose call tree explodes (nested higher-order calls) would run unbounded on the
    // WASM runtime, which has no instruction budget: draw again (C03 keeps them, it judges hangs)
    if args.prop != "C03" {
        // (a program that is still heavy after many draws is replaced by one without higher-order
        // functions: keeping the last draw let programs through whose call tree the reference
        // interpreter cannot finish either - found by ./check C05 thorough at seed 7, where such a
        // program overflowed the VM's native stack)
        let mut light = false;
        for _ in 0..24 {
            if !crate::refsem::is_heavy(&prog, 2, 150_000) {
                light = true;
                break;
            }
            prog = generate(rng, feat.clone());
        }
        if !light {
            let mut f2 = feat.clone();
            f2.hof = false;
            f2.lambdas = false;
            f2.escaping_closures = false;
            for _ in 0..24 {
                prog = generate(rng, f2.clone());
                if !crate::refsem::is_heavy(&prog, 2, 150_000) {
                    break;
                }
            }
        }
    }
    if args.q("assign-to-variable-captured-by-another-closure") {
        for _ in 0..6 {
            if !crate::gens::shrink::assigns_variable_captured_by_another_closure(&prog) {
                break;
            }
            prog = generate(rng, feat.clone());
        }
    }
    let n = *rng.pick(&[8usize, 16, 24, 40, 64]);
    let input_seed = rng.next();
    // the same question over a whole run (80 samples cover every run length the properties use) with the
    // case's own inputs: found by ./check C05 thorough at seed 7 (second program of that kind)
    if args.prop != "C03" && crate::refsem::is_heavy_run(&prog, 80, 3_000_000, &input_fn(input_seed, finite_inputs)) {
        let mut f2 = feat.clone();
        f2.hof = false;
        f2.lambdas = false;
        f2.escaping_closures = false;
        for _ in 0..24 {
            prog = generate(rng, f2.clone());
            if !crate::refsem::is_heavy_run(&prog, 80, 3_000_000, &input_fn(input_seed, finite_inputs)) {
                break;
            }
        }
    }
    let src = prog.print();
    Case { src, n, input_seed, finite_inputs, prog: Some(prog), expect: None, scheduler: false, path: None, origin: None, split: None }
}

/// The enumerated family "every state word is audible" (gens::layoutfam) as cases.
pub fn family_cases() -> Vec<Case> {
    crate::gens::layoutfam::family()
        .into_iter()
        .map(|(tag, prog)| Case {
            src: prog.print(),
            n: 12,
            input_seed: 1,
            finite_inputs: true,
            prog: Some(prog),
            expect: None,
            scheduler: false,
            path: None,
            origin: Some(format!("family:state-words-audible/{tag}")),
            split: None,
        })
        .collect()
}

/// strip identifiers / numbers from a diagnostic so signatures are stable
pub fn norm(s: &str) -> String {
    let s = &crate::util::repo_norm(s);
    let mut o = String::new();
    let mut last = ' ';
    for ch in s.chars().take(100) {
        let c = if ch.is_ascii_digit() { 'N' } else { ch };
        if c == 'N' && last == 'N' {
            continue;
        }
        o.push(c);
        last = c;
    }
    o
}

/// Text-level minimiser: removes lines (ddmin), then replaces / removes bracketed groups.
pub fn minimise_text(src: &str, pred: &mut dyn FnMut(&str) -> bool, max_evals: usize) -> String {
    let mut evals = 0usize;
    let mut lines: Vec<String> = src.lines().map(|l| l.to_string()).collect();
    // 1. ddmin over lines
    let mut chunk = (lines.len() / 2).max(1);
    while chunk >= 1 && evals < max_evals {
        let mut i = 0;
        let mut removed_any = false;
        while i < lines.len() && evals < max_evals {
            let end = (i + chunk).min(lines.len());
            let cand: Vec<String> = lines[..i].iter().chain(lines[end..].iter()).cloned().collect();
            evals += 1;
            if !cand.is_empty() && pred(&cand.join("\n")) {
                lines = cand;
                removed_any = true;
            } else {
                i += chunk;
            }
        }
        if chunk == 1 && !removed_any {
            break;
        }
        if !removed_any {
            chunk /= 2;
        }
    }
    let mut cur = lines.join("\n");
    // 2. bracketed groups: replace `( ... )` / `{ ... }` by a literal or drop them
    loop {
        let mut progressed = false;
        let bytes: Vec<char> = cur.chars().collect();
        let mut groups: Vec<(usize, usize)> = vec![];
        let mut stack: Vec<(char, usize)> = vec![];
        for (i, c) in bytes.iter().enumerate() {
            match c {
                '(' | '{' | '[' => stack.push((*c, i)),
                ')' | '}' | ']' => {
                    if let Some((o, s)) = stack.pop() {
                        let ok = matches!((o, c), ('(', ')') | ('{', '}') | ('[', ']'));
                        if ok && i > s + 1 {
                            groups.push((s, i));
                        }
                    }
                }
                _ => {}
            }
        }
        // larger groups first
        groups.sort_by_key(|g| std::cmp::Reverse(g.1 - g.0));
        'g: for (s, e) in groups {
            for repl in ["1.0", "(1.0)", "{ 1.0 }", ""] {
                if evals >= max_evals {
                    return cur;
                }
                let cand: String = bytes[..s].iter().chain(repl.chars().collect::<Vec<_>>().iter()).chain(bytes[e + 1..].iter()).collect();
                if cand.len() >= cur.len() {
                    continue;
                }
                evals += 1;
                if pred(&cand) {
                    cur = cand;
                    progressed = true;
                    break 'g;
                }
            }
        }
        if !progressed {
            return cur;
        }
    }
}
