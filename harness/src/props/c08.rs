//! C08 — migration plans are well-formed and keep what survives.
//!
//! The real `state_tree::build_state_storage_patch_plan` and
//! `apply_state_storage_patch_plan` are executed on (a) every ordered pair of
//! layouts up to a node bound and (b) pairs derived by edit scripts (delete /
//! insert whole subtrees) from random larger trees; a structural checker looks
//! at the returned plan and at the migrated, uniquely tagged storage.

use super::{drive, replay_one};
use crate::util::{Args, Out, Rng};
use serde::{Deserialize, Serialize};
use serde_json::{Value, json};
use state_tree::tree::StateTreeSkeleton;
use state_tree::{apply_state_storage_patch_plan, build_state_storage_patch_plan};

#[derive(Clone, Debug, PartialEq, Eq, Hash, Serialize, Deserialize)]
pub enum Sk {
    M(u64),
    Fd(u64),
    D(u64),
    F(Vec<Sk>),
}

impl Sk {
    fn to_real(&self) -> StateTreeSkeleton<u64> {
        match self {
            Sk::M(n) => StateTreeSkeleton::Mem(*n),
            Sk::Fd(n) => StateTreeSkeleton::Feed(*n),
            Sk::D(n) => StateTreeSkeleton::Delay { len: *n },
            Sk::F(c) => StateTreeSkeleton::FnCall(c.iter().map(|x| Box::new(x.to_real())).collect()),
        }
    }
    fn size(&self) -> usize {
        match self {
            Sk::M(n) | Sk::Fd(n) => *n as usize,
            Sk::D(n) => *n as usize + 2,
            Sk::F(c) => c.iter().map(|x| x.size()).sum(),
        }
    }
    fn nodes(&self) -> usize {
        match self {
            Sk::F(c) => 1 + c.iter().map(|x| x.nodes()).sum::<usize>(),
            _ => 1,
        }
    }
    fn shape(&self) -> String {
        match self {
            Sk::M(n) => format!("m{n}"),
            Sk::Fd(n) => format!("f{n}"),
            Sk::D(n) => format!("d{n}"),
            Sk::F(c) => format!("({})", c.iter().map(|x| x.shape()).collect::<Vec<_>>().join(",")),
        }
    }
    /// all nodes as (path, addr, size, shape), own prefix-sum walk
    fn table(&self) -> Vec<(Vec<usize>, usize, usize, String)> {
        fn rec(s: &Sk, path: &mut Vec<usize>, addr: usize, out: &mut Vec<(Vec<usize>, usize, usize, String)>) {
            out.push((path.clone(), addr, s.size(), s.shape()));
            if let Sk::F(c) = s {
                let mut a = addr;
                for (i, ch) in c.iter().enumerate() {
                    path.push(i);
                    rec(ch, path, a, out);
                    path.pop();
                    a += ch.size();
                }
            }
        }
        let mut out = vec![];
        rec(self, &mut vec![], 0, &mut out);
        out
    }
    fn at(&self, path: &[usize]) -> Option<&Sk> {
        let mut cur = self;
        for &i in path {
            match cur {
                Sk::F(c) => cur = c.get(i)?,
                _ => return None,
            }
        }
        Some(cur)
    }
}

const LEAVES: [Sk; 5] = [Sk::M(1), Sk::Fd(1), Sk::Fd(2), Sk::D(1), Sk::Fd(0)];

/// All trees with exactly `n` nodes (leaf kinds from LEAVES, FnCall may be empty).
fn trees_exact(n: usize, memo: &mut Vec<Option<Vec<Sk>>>) -> Vec<Sk> {
    if let Some(Some(v)) = memo.get(n) {
        return v.clone();
    }
    let mut res = vec![];
    if n == 1 {
        res.extend(LEAVES.iter().cloned());
        res.push(Sk::F(vec![]));
    } else if n > 1 {
        // FnCall with children forests of total n-1 nodes
        for forest in forests(n - 1, memo) {
            res.push(Sk::F(forest));
        }
    }
    while memo.len() <= n {
        memo.push(None);
    }
    memo[n] = Some(res.clone());
    res
}
/// ordered forests with exactly `n` nodes in total (n>=1)
fn forests(n: usize, memo: &mut Vec<Option<Vec<Sk>>>) -> Vec<Vec<Sk>> {
    let mut res = vec![];
    for first in 1..=n {
        let heads = trees_exact(first, memo);
        if first == n {
            for h in heads {
                res.push(vec![h]);
            }
        } else {
            let tails = forests(n - first, memo);
            for h in &heads {
                for t in &tails {
                    let mut v = vec![h.clone()];
                    v.extend(t.iter().cloned());
                    res.push(v);
                }
            }
        }
    }
    res
}
/// all root layouts (root is a FnCall, as for `dsp`) with at most `max` nodes
fn roots_upto(max: usize) -> Vec<Sk> {
    let mut memo = vec![];
    let mut res = vec![];
    for n in 1..=max {
        for t in trees_exact(n, &mut memo) {
            if matches!(t, Sk::F(_)) {
                res.push(t);
            }
        }
    }
    res
}

#[derive(Clone, Debug, Serialize, Deserialize)]
pub enum Case {
    /// all `new` layouts up to `max_nodes` against the `old_index`-th old layout
    Exh { max_nodes: usize, old_index: usize },
    /// every enumerated edit script (see `edit_scripts`) applied to the `old_index`-th old layout
    EditAll { max_nodes: usize, old_index: usize },
    /// one explicit pair
    Pair { old: Sk, new: Sk },
    /// old + edit script: delete the subtrees at `del` (paths in old, none an
    /// ancestor of another), then insert `ins` = (parent path in the result, slot, subtree)
    Edit { old: Sk, del: Vec<Vec<usize>>, ins: Vec<(Vec<usize>, usize, Sk)> },
}

/// Labelled tree used to apply an edit script while remembering where each kept leaf came from.
#[derive(Clone, Debug)]
enum L {
    Leaf(Sk, Option<Vec<usize>>), // origin path in old (None = inserted)
    F(Vec<L>),
}
fn label(s: &Sk, path: &mut Vec<usize>) -> L {
    match s {
        Sk::F(c) => L::F(
            c.iter()
                .enumerate()
                .map(|(i, ch)| {
                    path.push(i);
                    let r = label(ch, path);
                    path.pop();
                    r
                })
                .collect(),
        ),
        leaf => L::Leaf(leaf.clone(), Some(path.clone())),
    }
}
fn label_new(s: &Sk) -> L {
    match s {
        Sk::F(c) => L::F(c.iter().map(label_new).collect()),
        leaf => L::Leaf(leaf.clone(), None),
    }
}
fn unlabel(l: &L) -> Sk {
    match l {
        L::Leaf(s, _) => s.clone(),
        L::F(c) => Sk::F(c.iter().map(unlabel).collect()),
    }
}
fn delete_paths(l: &L, path: &mut Vec<usize>, del: &[Vec<usize>]) -> Option<L> {
    if del.iter().any(|d| d == path) {
        return None;
    }
    Some(match l {
        L::Leaf(..) => l.clone(),
        L::F(c) => L::F(
            c.iter()
                .enumerate()
                .filter_map(|(i, ch)| {
                    path.push(i);
                    let r = delete_paths(ch, path, del);
                    path.pop();
                    r
                })
                .collect(),
        ),
    })
}
fn insert_at(l: &mut L, parent: &[usize], slot: usize, sub: &Sk) -> bool {
    let mut cur = l;
    for &i in parent {
        match cur {
            L::F(c) if i < c.len() => cur = &mut c[i],
            _ => return false,
        }
    }
    match cur {
        L::F(c) => {
            let s = slot.min(c.len());
            c.insert(s, label_new(sub));
            true
        }
        _ => false,
    }
}
/// (new path, origin path) of every kept leaf
fn kept_leaves(l: &L, path: &mut Vec<usize>, out: &mut Vec<(Vec<usize>, Vec<usize>)>) {
    match l {
        L::Leaf(_, o) => {
            if let Some(o) = o {
                out.push((path.clone(), o.clone()));
            }
        }
        L::F(c) => {
            for (i, x) in c.iter().enumerate() {
                path.push(i);
                kept_leaves(x, path, out);
                path.pop();
            }
        }
    }
}

struct Checked {
    patches: usize,
    nontrivial: bool,
}

/// The structural oracle. Err((sig, detail)) on the first refuting clause.
fn check_pair(old: &Sk, new: &Sk, kept: Option<&[(Vec<usize>, Vec<usize>)]>) -> Result<Checked, (String, String)> {
    let ro = old.to_real();
    let rn = new.to_real();
    let plan = build_state_storage_patch_plan(ro.clone(), rn.clone());
    let ctx = || format!("old={} new={}", old.shape(), new.shape());
    let old_storage: Vec<u64> = (0..old.size() as u64).map(|i| i + 1).collect();
    let Some(plan) = plan else {
        if old != new {
            // `None` means "copy the buffer as is": only legitimate for identical layouts
            if old.shape() != new.shape() {
                return Err(("no-plan-for-different-layouts".into(), ctx()));
            }
        }
        return Ok(Checked { patches: 0, nontrivial: false });
    };
    if old.shape() == new.shape() {
        // identical layouts must be a no-op: either None or the identity
        let migrated = apply_state_storage_patch_plan(&old_storage, &plan);
        if migrated != old_storage {
            return Err(("identical-layouts-not-noop".into(), format!("{} plan={:?}", ctx(), plan)));
        }
    }
    if plan.total_size != new.size() {
        return Err(("total-size".into(), format!("{} total_size={} expected {}", ctx(), plan.total_size, new.size())));
    }
    let ot = old.table();
    let nt = new.table();
    let mut ps: Vec<_> = plan.patches.iter().filter(|p| p.size > 0).cloned().collect();
    for p in &ps {
        if p.src_addr + p.size > old.size() || p.dst_addr + p.size > new.size() {
            return Err(("patch-out-of-range".into(), format!("{} patch={:?}", ctx(), p)));
        }
        let ok = ot.iter().any(|(_, a, s, sh)| {
            *a == p.src_addr && *s == p.size && nt.iter().any(|(_, na, ns, nsh)| *na == p.dst_addr && *ns == p.size && nsh == sh)
        });
        if !ok {
            return Err(("patch-not-between-identical-subtrees".into(), format!("{} patch={:?}", ctx(), p)));
        }
    }
    ps.sort_by_key(|p| p.dst_addr);
    for w in ps.windows(2) {
        if w[0].dst_addr + w[0].size > w[1].dst_addr {
            return Err(("destination-written-twice".into(), format!("{} patches={:?},{:?}", ctx(), w[0], w[1])));
        }
        if w[0].src_addr > w[1].src_addr {
            return Err(("sibling-order-not-preserved".into(), format!("{} patches={:?},{:?}", ctx(), w[0], w[1])));
        }
    }
    // apply on tagged storage (the real function)
    let migrated = apply_state_storage_patch_plan(&old_storage, &plan);
    if migrated.len() != new.size() {
        return Err(("migrated-length".into(), format!("{} len={}", ctx(), migrated.len())));
    }
    let mut expect = vec![0u64; new.size()];
    for p in &ps {
        for k in 0..p.size {
            expect[p.dst_addr + k] = old_storage[p.src_addr + k];
        }
    }
    if migrated != expect {
        return Err(("apply-differs-from-plan".into(), format!("{} migrated={:?} expect={:?}", ctx(), migrated, expect)));
    }
    // survival clause. `kept` lists the new-layout leaves that were not inserted by the
    // edit script (inserted subtrees only use leaf kinds absent from the old layout, so
    // the kept part of the new layout is obtained from the old one purely by removing
    // subtrees). Whatever removal explains the pair, all kept leaves survive, so each must
    // hold exactly the words of one old leaf of its kind, and that leaf map must be a tree
    // inclusion: injective, depth preserving, order preserving, and two kept leaves share
    // their depth-k ancestor iff their sources do. (Exchange among identically shaped
    // siblings is just another inclusion and therefore accepted.)
    if let Some(kept) = kept {
        let addr_of = |t: &Vec<(Vec<usize>, usize, usize, String)>, p: &Vec<usize>| {
            let (_, a, s, sh) = t.iter().find(|(q, ..)| q == p).expect("path");
            (*a, *s, sh.clone())
        };
        let old_leaves: Vec<&(Vec<usize>, usize, usize, String)> =
            ot.iter().filter(|(p, ..)| !matches!(old.at(p), Some(Sk::F(_)))).collect();
        // source of every kept leaf, identified by the unique tags
        let mut srcs: Vec<(Vec<usize>, Vec<usize>, Option<Vec<usize>>)> = vec![];
        for (np, origin) in kept {
            let (na, ns, nsh) = addr_of(&nt, np);
            if ns == 0 {
                continue;
            }
            let words = &migrated[na..na + ns];
            let src = old_leaves.iter().find(|(_, a, s, sh)| *s == ns && *sh == nsh && words == &old_storage[*a..a + s]);
            srcs.push((np.clone(), origin.clone(), src.map(|t| t.0.clone())));
        }
        if let Some((np, origin, _)) = srcs.iter().find(|t| t.2.is_none()) {
            // classify: was the enclosing kept node fed from a later, differently shaped sibling?
            let mut class = "other";
            'outer: for d in 1..=np.len().min(origin.len()) {
                let (n_anc, s_anc) = (&np[..d], &origin[..d]);
                for (np2, _, src2) in &srcs {
                    if let Some(src2) = src2
                        && np2.len() >= d
                        && &np2[..d] == n_anc
                        && src2.len() >= d
                        && src2[..d - 1] == s_anc[..d - 1]
                        && src2[d - 1] > s_anc[d - 1]
                        && old.at(&src2[..d]).map(|x| x.shape()) != old.at(s_anc).map(|x| x.shape())
                    {
                        class = "displaced-by-later-sibling-partial-match";
                        break 'outer;
                    }
                }
            }
            fn nested_empty(s: &Sk, root: bool) -> bool {
                match s {
                    Sk::F(c) => (!root && c.is_empty()) || c.iter().any(|x| nested_empty(x, false)),
                    _ => false,
                }
            }
            if class == "other" && (nested_empty(old, true) || nested_empty(new, true)) {
                class = "zero-size-call-node-in-layout";
            }
            let (na, ns, _) = addr_of(&nt, np);
            let (oa, os, _) = addr_of(&ot, origin);
            return Err((
                format!("surviving-subtree-not-carried-over/{class}"),
                format!(
                    "{} kept leaf new_path={:?} (origin {:?} in the script) holds {:?} after migration, which is not the content of any old leaf of its kind (its own old words: {:?}); plan={:?}",
                    ctx(), np, origin, &migrated[na..na + ns], &old_storage[oa..oa + os], plan.patches
                ),
            ));
        }
        let phi: Vec<(Vec<usize>, Vec<usize>)> = srcs.into_iter().map(|(n, _, s)| (n, s.unwrap())).collect();
        for i in 0..phi.len() {
            let (na, oa) = &phi[i];
            if na.len() != oa.len() {
                return Err(("survivor-depth-changed".into(), format!("{} new {:?} <- old {:?}", ctx(), na, oa)));
            }
            for j in i + 1..phi.len() {
                let (nb, ob) = &phi[j];
                if oa == ob {
                    return Err(("surviving-words-duplicated".into(), format!("{} old {:?} copied to {:?} and {:?}", ctx(), oa, na, nb)));
                }
                // kept leaves are listed in document order
                if oa > ob {
                    return Err(("survivor-order-not-preserved".into(), format!("{} new {:?},{:?} <- old {:?},{:?}", ctx(), na, nb, oa, ob)));
                }
                let depth = na.len().min(nb.len()).min(oa.len()).min(ob.len());
                for k in 0..=depth {
                    if (na[..k] == nb[..k]) != (oa[..k] == ob[..k]) {
                        return Err((
                            "survivors-regrouped".into(),
                            format!("{} new {:?},{:?} <- old {:?},{:?} (ancestor at depth {k})", ctx(), na, nb, oa, ob),
                        ));
                    }
                }
            }
        }
    }
    Ok(Checked { patches: ps.len(), nontrivial: old.shape() != new.shape() && !ps.is_empty() })
}

fn apply_edit(old: &Sk, del: &[Vec<usize>], ins: &[(Vec<usize>, usize, Sk)]) -> Option<(Sk, Vec<(Vec<usize>, Vec<usize>)>)> {
    let l = label(old, &mut vec![]);
    let mut l = delete_paths(&l, &mut vec![], del)?;
    for (parent, slot, sub) in ins {
        if !insert_at(&mut l, parent, *slot, sub) {
            return None;
        }
    }
    if !matches!(l, L::F(_)) {
        return None;
    }
    let new = unlabel(&l);
    let mut kept = vec![];
    kept_leaves(&l, &mut vec![], &mut kept);
    Some((new, kept))
}

fn random_tree(rng: &mut Rng, budget: &mut usize, depth: usize) -> Sk {
    if *budget == 0 || depth > 4 || rng.chance(1, 2) {
        *budget = budget.saturating_sub(1);
        return match rng.below(6) {
            0 => Sk::M(1),
            1 => Sk::Fd(1),
            2 => Sk::Fd(rng.range(2, 3) as u64),
            3 => Sk::D(rng.range(1, 5) as u64),
            4 => Sk::M(1),
            _ => Sk::F(vec![]),
        };
    }
    *budget = budget.saturating_sub(1);
    let n = rng.range(1, 4) as usize;
    Sk::F((0..n).map(|_| random_tree(rng, budget, depth + 1)).collect())
}

/// Replace every leaf kind by one that never occurs in generated old layouts.
fn fresh(s: &Sk) -> Sk {
    match s {
        Sk::M(n) => Sk::M(n + 10),
        Sk::Fd(n) => Sk::Fd(n + 10),
        Sk::D(n) => Sk::D(n + 10),
        Sk::F(c) => Sk::F(c.iter().map(fresh).collect()),
    }
}

fn random_edit(rng: &mut Rng, old: &Sk) -> (Vec<Vec<usize>>, Vec<(Vec<usize>, usize, Sk)>) {
    let table = old.table();
    let non_root: Vec<&Vec<usize>> = table.iter().map(|t| &t.0).filter(|p| !p.is_empty()).collect();
    let mut del: Vec<Vec<usize>> = vec![];
    let ndel = if non_root.is_empty() { 0 } else { rng.below(3) };
    for _ in 0..ndel {
        let p = (*rng.pick(&non_root)).clone();
        if del.iter().any(|d| d.starts_with(&p) || p.starts_with(d)) {
            continue;
        }
        del.push(p);
    }
    // insertion parents are addressed in the tree *after* deletion
    let l = delete_paths(&label(old, &mut vec![]), &mut vec![], &del).unwrap();
    let after = unlabel(&l);
    let parents: Vec<Vec<usize>> =
        after.table().into_iter().filter(|(p, ..)| matches!(after.at(p), Some(Sk::F(_)))).map(|t| t.0).collect();
    let mut ins = vec![];
    let nins = rng.below(3);
    let mut cur = after.clone();
    for _ in 0..nins {
        // recompute parents on the current tree (paths shift after an insertion)
        let parents_now: Vec<Vec<usize>> =
            cur.table().into_iter().filter(|(p, ..)| matches!(cur.at(p), Some(Sk::F(_)))).map(|t| t.0).collect();
        let parent = rng.pick(&parents_now).clone();
        let Some(Sk::F(ch)) = cur.at(&parent) else { continue };
        let slot = rng.below(ch.len() + 1);
        let mut b = 3;
        let sub = fresh(&random_tree(rng, &mut b, 3));
        // apply to cur
        let mut lc = label_new(&cur);
        insert_at(&mut lc, &parent, slot, &sub);
        cur = unlabel(&lc);
        ins.push((parent, slot, sub));
    }
    let _ = parents;
    (del, ins)
}

fn report(idx: usize, out: &mut Out, sig: String, detail: String, case: &Case, old: &Sk, new: &Sk) {
    let _ = old;
    let key = format!("violations:{sig}");
    let n = out.counters.get(&key).copied().unwrap_or(0);
    out.count(&key, 1);
    if n < 25 {
        out.violation(idx, &sig, &format!("{detail} new={}", new.shape()), &serde_json::to_value(case).unwrap());
    }
}

fn exec_edit(old: &Sk, del: &[Vec<usize>], ins: &[(Vec<usize>, usize, Sk)], idx: usize, out: &mut Out) -> bool {
    let Some((new, kept)) = apply_edit(old, del, ins) else {
        return false;
    };
    out.count("edit_pairs_checked", 1);
    out.count("kept_leaves_checked", kept.len() as u64);
    match check_pair(old, &new, Some(&kept)) {
        Ok(ch) => {
            out.count("patches_checked", ch.patches as u64);
            !kept.is_empty() && old.shape() != new.shape()
        }
        Err((sig, detail)) => {
            let c = Case::Edit { old: old.clone(), del: del.to_vec(), ins: ins.to_vec() };
            report(idx, out, sig, detail, &c, old, &new);
            false
        }
    }
}

fn exec(c: &Case, idx: usize, out: &mut Out) -> bool {
    match c {
        Case::Exh { max_nodes, old_index } => {
            let roots = roots_upto(*max_nodes);
            let old = &roots[*old_index];
            let mut nt = 0u64;
            for new in &roots {
                out.count("pairs_checked", 1);
                match check_pair(old, new, None) {
                    Ok(ch) => {
                        out.count("patches_checked", ch.patches as u64);
                        if ch.nontrivial {
                            nt += 1;
                        }
                    }
                    Err((sig, detail)) => {
                        let pc = Case::Pair { old: old.clone(), new: new.clone() };
                        report(idx, out, sig, detail, &pc, old, new);
                    }
                }
            }
            out.count("pairs_with_patches_and_different_layout", nt);
            out.set("old_layouts", old.shape());
            nt > 0
        }
        Case::EditAll { max_nodes, old_index } => {
            let roots = roots_upto(*max_nodes);
            let old = &roots[*old_index];
            let mut nt = 0u64;
            for (del, ins) in edit_scripts(old) {
                if exec_edit(old, &del, &ins, idx, out) {
                    nt += 1;
                }
            }
            out.count("edit_scripts_nontrivial", nt);
            nt > 0
        }
        Case::Pair { old, new } => match check_pair(old, new, None) {
            Ok(ch) => {
                out.count("pairs_checked", 1);
                ch.nontrivial
            }
            Err((sig, detail)) => {
                report(idx, out, sig, detail, c, old, new);
                false
            }
        },
        Case::Edit { old, del, ins } => exec_edit(old, del, ins, idx, out),
    }
}

fn plan(args: &Args) -> (usize, usize, usize, usize) {
    // (exhaustive pair node bound, edit-enum node bound, random edit cases, random tree size)
    if args.thorough() { (5, 6, 60_000, 40) } else { (4, 5, 4_000, 24) }
}

/// Edit scripts enumerated for one old layout: every set of 0, 1 or 2 disjoint subtree
/// deletions, alone and combined with every single insertion (5 small subtrees whose leaf
/// kinds do not occur in any old layout, at every slot of every FnCall node).
fn edit_scripts(old: &Sk) -> Vec<(Vec<Vec<usize>>, Vec<(Vec<usize>, usize, Sk)>)> {
    let small: Vec<Sk> =
        vec![Sk::Fd(5), Sk::D(7), Sk::F(vec![]), Sk::F(vec![Sk::Fd(5)]), Sk::F(vec![Sk::Fd(5), Sk::D(7)])];
    let mut res = vec![];
    let table = old.table();
    let paths: Vec<Vec<usize>> = table.iter().map(|t| t.0.clone()).filter(|p| !p.is_empty()).collect();
    let mut dels: Vec<Vec<Vec<usize>>> = vec![vec![]];
    for p in &paths {
        dels.push(vec![p.clone()]);
    }
    for i in 0..paths.len() {
        for j in i + 1..paths.len() {
            if !paths[i].starts_with(&paths[j]) && !paths[j].starts_with(&paths[i]) {
                dels.push(vec![paths[i].clone(), paths[j].clone()]);
            }
        }
    }
    for del in dels {
        let l = delete_paths(&label(old, &mut vec![]), &mut vec![], &del).unwrap();
        let after = unlabel(&l);
        if !del.is_empty() {
            res.push((del.clone(), vec![]));
        }
        for (p, ..) in after.table() {
            if let Some(Sk::F(ch)) = after.at(&p) {
                for slot in 0..=ch.len() {
                    for sub in &small {
                        res.push((del.clone(), vec![(p.clone(), slot, sub.clone())]));
                    }
                }
            }
        }
    }
    res
}

pub fn meta(args: &Args) -> Value {
    let (n, en, r, sz) = plan(args);
    json!({
        "level": "exploration",
        "rule": format!("(a) exhaustive: every ordered pair of root layouts with <= {n} nodes over leaf kinds Mem(1), Feed(1), Feed(2), Delay(1), Feed(0) (the cell of a unit-valued self) and (possibly empty) FnCall — one case = one old layout against all new layouts, non-trivial if at least one pair with different layouts yielded patches; (b) exhaustive edit scripts (every 0/1/2 disjoint subtree deletions, alone and combined with every single insertion of 5 small fresh-kind subtrees at every slot) over all old layouts with <= {en} nodes — one case = one old layout with all its scripts, non-trivial if some script changed the layout and kept a leaf; (c) {r} random trees up to {sz} nodes with random delete/insert scripts — non-trivial if layouts differ and at least one leaf survives. Distinctness = hash of the case (layout index or layouts + script)."),
        "assumptions": ["u64 word sizes stand in for mir::StateType (the diff only looks at word_size)", "sibling order is checked as global monotonicity of (src,dst) over the flat layout", "survival is only asserted for scripts whose insertions use leaf kinds absent from the old layout, so that the kept part of the new layout is unambiguously a pure removal"],
        "floor": {"quick": 200, "thorough": 2000},
        "exhaustive": true,
        "case_timeout_s": 300,
        "hang_is_violation": false,
    })
}

pub fn run(args: &Args, out: &mut Out) {
    let (n, en, r, sz) = plan(args);
    let n_exh = roots_upto(n).len();
    let n_edit = roots_upto(en).len();
    let fixed = n_exh + n_edit;
    let total = args.budget.map(|b| b.min(fixed + r)).unwrap_or(fixed + r);
    out.max_samples = 2;
    drive(
        args,
        out,
        total,
        |idx, rng| {
            if idx < n_exh {
                Some(Case::Exh { max_nodes: n, old_index: idx })
            } else if idx < fixed {
                Some(Case::EditAll { max_nodes: en, old_index: idx - n_exh })
            } else {
                let mut b = 2 + rng.below(sz);
                let old = match random_tree(rng, &mut b, 0) {
                    Sk::F(c) => Sk::F(c),
                    leaf => Sk::F(vec![leaf]),
                };
                let (del, ins) = random_edit(rng, &old);
                Some(Case::Edit { old, del, ins })
            }
        },
        exec,
    );
}

pub fn replay(_args: &Args, out: &mut Out, case: &Value) {
    replay_one::<Case>(out, case, exec);
}
