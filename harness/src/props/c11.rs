//! C11 — scheduled tasks run exactly once at exactly their sample: generated task
//! sets with unique power-of-two weights, checked per sample against a 20-line model
//! on both runtimes.

use super::{drive, replay_one};
use crate::gens::core::fmt_num;
use crate::run::{Backend, RunError, run_program};
use crate::util::{Args, Out, Rng, bits_eq};
use serde::{Deserialize, Serialize};
use serde_json::{Value, json};

#[derive(Clone, Debug, Serialize, Deserialize)]
pub enum Task {
    /// scheduled from global scope at `t` (t >= 1); adds weight bit `j`
    Global { t: f64, j: usize },
    /// scheduled from dsp at sample `s` for time s + d (d >= 1)
    FromDsp { s: usize, d: f64, j: usize },
    /// a task scheduled from global scope at `t` (adds bit `j`) that schedules another one-shot (bit `j2`) at now + d
    Spawner { t: f64, j: usize, d: f64, j2: usize },
    /// self-rescheduling chain starting at `t0` with period `p`, counting its runs in chain counter `k`
    Chain { t0: f64, p: f64, k: usize },
    /// a task scheduled from global scope at `t` that schedules `count` one-shots (bits j0..j0+count) for
    /// now + d in one go (a burst of hand-overs within one sample)
    Burst { t: f64, d: f64, j0: usize, count: usize },
}

#[derive(Clone, Debug, Serialize, Deserialize)]
pub struct Case {
    pub tasks: Vec<Task>,
    pub n: usize,
    /// order in which the global-scope scheduling statements are written
    pub order: Vec<usize>,
    /// judge WASM on this case whatever the quarantine list says (witnesses)
    #[serde(default)]
    pub wasm_all: Option<bool>,
}

fn nbits(c: &Case) -> usize {
    c.tasks
        .iter()
        .map(|t| match t {
            Task::Global { j, .. } | Task::FromDsp { j, .. } => *j + 1,
            Task::Spawner { j, j2, .. } => (*j).max(*j2) + 1,
            Task::Burst { j0, count, .. } => *j0 + *count,
            Task::Chain { .. } => 0,
        })
        .max()
        .unwrap_or(0)
}
fn nchains(c: &Case) -> usize {
    c.tasks.iter().filter(|t| matches!(t, Task::Chain { .. })).count()
}
fn naccs(c: &Case) -> usize {
    nbits(c).div_ceil(50).max(1)
}

pub fn source(c: &Case) -> String {
    let mut s = String::new();
    let na = naccs(c);
    for a in 0..na {
        s.push_str(&format!("let acc{a} = 0.0\n"));
        s.push_str(&format!("fn mkadd{a}(w){{\n  | | {{\n    acc{a} = acc{a} + w\n  }}\n}}\n"));
    }
    for k in 0..nchains(c) {
        s.push_str(&format!("let cnt{k} = 0.0\n"));
    }
    let w = |j: usize| fmt_num((2.0f64).powi((j % 50) as i32), false);
    let mut global_stmts: Vec<String> = vec![];
    let mut dsp_stmts: Vec<String> = vec![];
    let mut chain_i = 0;
    for (i, t) in c.tasks.iter().enumerate() {
        match t {
            Task::Global { t, j } => {
                s.push_str(&format!("let task{i} = mkadd{}({})\n", j / 50, w(*j)));
                global_stmts.push(format!("let _s{i} = task{i}@{}\n", fmt_num(*t, false)));
            }
            Task::FromDsp { s: at, d, j } => {
                s.push_str(&format!("let task{i} = mkadd{}({})\n", j / 50, w(*j)));
                s.push_str(&format!(
                    "fn sched{i}(n){{\n  if (n == {}) {{\n    let _ = task{i}@(n + {})\n    0.0\n  }} else {{\n    0.0\n  }}\n}}\n",
                    fmt_num(*at as f64, false),
                    fmt_num(*d, false)
                ));
                dsp_stmts.push(format!("  let _d{i} = sched{i}(now)\n"));
            }
            Task::Spawner { t, j, d, j2 } => {
                s.push_str(&format!("let child{i} = mkadd{}({})\n", j2 / 50, w(*j2)));
                s.push_str(&format!(
                    "fn spawner{i}(){{\n  acc{a} = acc{a} + {}\n  let _ = child{i}@(now + {})\n}}\n",
                    w(*j),
                    fmt_num(*d, false),
                    a = j / 50
                ));
                global_stmts.push(format!("let _s{i} = spawner{i}@{}\n", fmt_num(*t, false)));
            }
            Task::Burst { t, d, j0, count } => {
                for m in 0..*count {
                    let j = j0 + m;
                    s.push_str(&format!("let bchild{i}_{m} = mkadd{}({})\n", j / 50, w(j)));
                }
                s.push_str(&format!("fn burst{i}(){{\n"));
                for m in 0..*count {
                    s.push_str(&format!("  let _b{m} = bchild{i}_{m}@(now + {})\n", fmt_num(*d, false)));
                }
                s.push_str("}\n");
                global_stmts.push(format!("let _s{i} = burst{i}@{}\n", fmt_num(*t, false)));
            }
            Task::Chain { t0, p, .. } => {
                let k = chain_i;
                chain_i += 1;
                s.push_str(&format!(
                    "fn chain{i}(){{\n  cnt{k} = cnt{k} + 1.0\n  let _ = chain{i}@(now + {})\n}}\n",
                    fmt_num(*p, false)
                ));
                global_stmts.push(format!("let _s{i} = chain{i}@{}\n", fmt_num(*t0, false)));
            }
        }
    }
    // global scheduling statements in the requested order
    let mut order: Vec<usize> = c.order.iter().copied().filter(|i| *i < global_stmts.len()).collect();
    for i in 0..global_stmts.len() {
        if !order.contains(&i) {
            order.push(i);
        }
    }
    for i in order {
        s.push_str(&global_stmts[i]);
    }
    s.push_str("fn dsp(){\n");
    for d in &dsp_stmts {
        s.push_str(d);
    }
    let mut outs: Vec<String> = (0..na).map(|a| format!("acc{a}")).collect();
    outs.extend((0..nchains(c)).map(|k| format!("cnt{k}")));
    if outs.len() == 1 {
        s.push_str(&format!("  {}\n}}\n", outs[0]));
    } else {
        s.push_str(&format!("  ({})\n}}\n", outs.join(", ")));
    }
    s
}

/// The model: per sample, every pending task whose truncated time equals the sample runs once, before dsp.
pub fn model(c: &Case) -> (Vec<f64>, u64) {
    #[derive(Clone)]
    enum Eff {
        Bit(usize),
        Spawn(usize, f64, usize),
        Chain(f64, usize),
        Burst(f64, usize, usize),
    }
    let na = naccs(c);
    let nc = nchains(c);
    let mut acc = vec![0.0f64; na];
    let mut cnt = vec![0.0f64; nc];
    let mut pending: Vec<(u64, Eff)> = vec![];
    let mut dsp_sched: Vec<(usize, f64, usize)> = vec![];
    let mut ci = 0;
    for t in &c.tasks {
        match t {
            Task::Global { t, j } => pending.push((*t as u64, Eff::Bit(*j))),
            Task::FromDsp { s, d, j } => dsp_sched.push((*s, *d, *j)),
            Task::Spawner { t, j, d, j2 } => pending.push((*t as u64, Eff::Spawn(*j, *d, *j2))),
            Task::Chain { t0, p, .. } => {
                pending.push((*t0 as u64, Eff::Chain(*p, ci)));
                ci += 1;
            }
            Task::Burst { t, d, j0, count } => pending.push((*t as u64, Eff::Burst(*d, *j0, *count))),
        }
    }
    let mut out = vec![];
    let mut executed = 0u64;
    for s in 0..c.n {
        // tasks scheduled while running tasks of this sample are always for later samples
        let (due, rest): (Vec<_>, Vec<_>) = pending.into_iter().partition(|(w, _)| *w <= s as u64);
        pending = rest;
        for (_, e) in due {
            executed += 1;
            match e {
                Eff::Bit(j) => acc[j / 50] += (2.0f64).powi((j % 50) as i32),
                Eff::Spawn(j, d, j2) => {
                    acc[j / 50] += (2.0f64).powi((j % 50) as i32);
                    pending.push(((s as f64 + d) as u64, Eff::Bit(j2)));
                }
                Eff::Chain(p, k) => {
                    cnt[k] += 1.0;
                    pending.push(((s as f64 + p) as u64, Eff::Chain(p, k)));
                }
                Eff::Burst(d, j0, count) => {
                    for j in j0..j0 + count {
                        pending.push(((s as f64 + d) as u64, Eff::Bit(j)));
                    }
                }
            }
        }
        for (at, d, j) in &dsp_sched {
            if *at == s {
                pending.push(((s as f64 + d) as u64, Eff::Bit(*j)));
            }
        }
        out.extend(acc.iter().copied());
        out.extend(cnt.iter().copied());
    }
    (out, executed)
}

pub struct Checked {
    pub violations: Vec<(String, String)>,
    pub tasks_executed: u64,
    pub samples: u64,
    pub ran: bool,
    pub wasm_judged: bool,
    pub faults_injected: u64,
}

/// tasks scheduled while a tick is running (from dsp, from a task, a chain)
fn scheduled_in_tick(c: &Case) -> usize {
    c.tasks.iter().map(|t| match t { Task::Global { .. } => 0, Task::Burst { count, .. } => *count, _ => 1 }).sum()
}

thread_local! {
    /// known finding `wasm-closure-allocated-in-tick-scheduled` active: judge WASM only on cases that
    /// schedule at most one closure during ticks
    static WASM_SAFE_ONLY: std::cell::Cell<bool> = const { std::cell::Cell::new(false) };
}

thread_local! {
    /// known finding `wasm-many-tasks-from-global-scope` active: judge WASM only on cases with <= 40 tasks
    static WASM_FEW_ONLY: std::cell::Cell<bool> = const { std::cell::Cell::new(false) };
}

pub fn check(c: &Case) -> Checked {
    let mut res = Checked { violations: vec![], tasks_executed: 0, samples: 0, ran: false, wasm_judged: false, faults_injected: 0 };
    let src = source(c);
    let (want, executed) = model(c);
    res.tasks_executed = executed;
    let ch = naccs(c) + nchains(c);
    for b in [Backend::Vm, Backend::Wasm] {
        if b == Backend::Wasm && WASM_SAFE_ONLY.with(|w| w.get()) && scheduled_in_tick(c) > 1 {
            continue;
        }
        if b == Backend::Wasm && WASM_FEW_ONLY.with(|w| w.get()) && c.tasks.len() > 40 {
            continue;
        }
        if b == Backend::Wasm {
            res.wasm_judged = true;
        }
        match run_program(b, &src, true, c.n, &|_, _| 0.0, false, None) {
            Ok(r) => {
                res.ran = true;
                res.samples += c.n as u64;
                if r.out.len() != want.len() {
                    res.violations.push((format!("channel-count/{}", b.name()), format!("{} words vs {}", r.out.len(), want.len())));
                    continue;
                }
                if let Some(i) = (0..want.len()).find(|&i| !bits_eq(want[i], r.out[i])) {
                    let (s, k) = (i / ch, i % ch);
                    let what = if k < naccs(c) {
                        let diff = r.out[i] - want[i];
                        let kind = if diff < 0.0 { "missing (late or dropped)" } else { "extra (early or duplicated)" };
                        format!("accumulator {k}: runtime {} model {} -> weight {} {kind}", r.out[i], want[i], diff.abs())
                    } else {
                        format!("chain counter {}: runtime {} model {}", k - naccs(c), r.out[i], want[i])
                    };
                    let class = if k < naccs(c) { if r.out[i] < want[i] { "task-late-or-dropped" } else { "task-early-or-duplicated" } } else { "chain-run-count" };
                    res.violations.push((format!("{class}/{}", b.name()), format!("sample {s}: {what}")));
                }
            }
            Err(RunError::Build(e)) => res.violations.push((format!("build/{}: {}", b.name(), super::progcase::norm(&e.short())), e.short())),
            Err(RunError::DspPanic(t, p)) => res.violations.push((format!("{}/dsp/{}", p.sig(), b.name()), format!("sample {t}: {} @ {}", p.msg, p.loc))),
        }
    }
    // Fault injection (hook H12): one execution of a task fails on the WASM runtime (the call of
    // `_mimium_exec_closure_void` returns an error without running). Every *other* task must still run
    // exactly once at its sample: per accumulator the run may differ from the model by the weight of
    // exactly one task, missing from the sample that task was due at until the end.
    let one_shots_only = c.tasks.iter().all(|t| matches!(t, Task::Global { .. } | Task::FromDsp { .. }));
    if one_shots_only && executed >= 2 && res.wasm_judged && res.violations.is_empty() {
        let k = 1 + (c.n as u64 * 31 + c.tasks.len() as u64 * 7 + executed) % executed;
        mimium_lang::verif::failpoint_arm("_mimium_exec_closure_void", k);
        let r = run_program(Backend::Wasm, &src, true, c.n, &|_, _| 0.0, false, None);
        let seen = mimium_lang::verif::failpoint_disarm();
        res.faults_injected = (seen >= k) as u64;
        if let Ok(r) = r
            && r.out.len() == want.len()
            && seen >= k
        {
            let na = naccs(c);
            // due sample and weight of every task
            let mut due: Vec<(usize, usize, f64)> = vec![]; // (sample, accumulator, weight)
            for t in &c.tasks {
                match t {
                    Task::Global { t, j } => due.push((*t as usize, j / 50, (2.0f64).powi((j % 50) as i32))),
                    Task::FromDsp { s, d, j } => due.push(((*s as f64 + d) as usize, j / 50, (2.0f64).powi((j % 50) as i32))),
                    _ => {}
                }
            }
            let last = c.n - 1;
            let missing: Vec<(usize, f64)> = (0..na).map(|a| (a, want[last * ch + a] - r.out[last * ch + a])).filter(|(_, d)| *d != 0.0).collect();
            let verdict = match missing.as_slice() {
                [(a, w)] => match due.iter().find(|(_, da, dw)| da == a && dw == w) {
                    Some((s0, _, _)) => {
                        // the same weight is missing from s0 on and nothing else differs anywhere
                        (0..c.n).find_map(|s| {
                            (0..ch).find_map(|kk| {
                                let exp = want[s * ch + kk] - if kk == *a && s >= *s0 { *w } else { 0.0 };
                                (!bits_eq(exp, r.out[s * ch + kk])).then(|| format!("sample {s} accumulator {kk}: runtime {} expected {exp} (task of weight {w} due at {s0} failed by injection)", r.out[s * ch + kk]))
                            })
                        })
                    }
                    None => Some(format!("accumulator {a} lacks {w} at the end, which is not the weight of one task")),
                },
                [] => Some("the injected fault left no trace: the failed task ran all the same".to_string()),
                more => Some(format!("one task execution failed by injection, but {} accumulators differ at the end: {more:?}", more.len())),
            };
            if let Some(d) = verdict {
                res.violations.push(("other-tasks-affected-by-a-failing-task/wasm".into(), format!("fault injected into execution #{k} of {executed}: {d}")));
            }
        }
    }
    res
}

fn minimise(c: &Case, sig: &str) -> Case {
    // every evaluation runs both back ends: bounded by count and by time
    let evals = std::cell::Cell::new(0usize);
    let t0 = std::time::Instant::now();
    let has = |x: &Case| {
        evals.set(evals.get() + 1);
        if evals.get() > 120 || t0.elapsed().as_secs() > 60 {
            return false;
        }
        check(x).violations.iter().any(|v| v.0 == sig)
    };
    let mut cur = c.clone();
    loop {
        let mut progressed = false;
        let mut chunk = (cur.tasks.len() / 2).max(1);
        while chunk >= 1 {
            let mut i = 0;
            while i < cur.tasks.len() && cur.tasks.len() > 1 {
                let mut t = cur.clone();
                let end = (i + chunk).min(t.tasks.len());
                t.tasks.drain(i..end);
                if !t.tasks.is_empty() && has(&t) {
                    cur = t;
                    progressed = true;
                } else {
                    i += chunk;
                }
            }
            if chunk == 1 {
                break;
            }
            chunk /= 2;
        }
        if cur.n > 4 {
            let mut t = cur.clone();
            t.n = (cur.n / 2).max(4);
            if has(&t) {
                cur = t;
                progressed = true;
            }
        }
        if !progressed {
            return cur;
        }
    }
}

fn exec_with(args: &Args) -> impl Fn(&Case, usize, &mut Out) -> bool + '_ {
    move |c, idx, out| {
        WASM_SAFE_ONLY.with(|w| w.set(c.wasm_all != Some(true) && args.q("wasm-closure-allocated-in-tick-scheduled")));
        WASM_FEW_ONLY.with(|w| w.set(c.wasm_all != Some(true) && args.q("wasm-many-tasks-from-global-scope")));
        exec(c, idx, out)
    }
}

fn exec(c: &Case, idx: usize, out: &mut Out) -> bool {
    let r = check(c);
    out.count(if r.wasm_judged { "cases_judged_on_wasm" } else { "cases_judged_on_vm_only" }, 1);
    out.count("tasks_executed_in_model", r.tasks_executed);
    out.count("samples_compared", r.samples);
    out.count("tasks_in_case", c.tasks.len() as u64);
    for t in &c.tasks {
        out.count(
            match t {
                Task::Global { .. } => "kind:from-global-scope",
                Task::FromDsp { .. } => "kind:from-dsp",
                Task::Spawner { .. } => "kind:from-running-task",
                Task::Chain { .. } => "kind:self-rescheduling-chain",
                Task::Burst { .. } => "kind:burst-from-running-task",
            },
            1,
        );
    }
    out.count("faults_injected_into_one_task_execution/wasm", r.faults_injected);
    for (sig, detail) in &r.violations {
        let key = format!("violations:{sig}");
        let seen = out.counters.get(&key).copied().unwrap_or(0);
        out.count(&key, 1);
        if seen < 3 {
            let small = if seen == 0 { minimise(c, sig) } else { c.clone() };
            let d = check(&small).violations.into_iter().find(|v| &v.0 == sig).map(|v| v.1).unwrap_or(detail.clone());
            let mut j = serde_json::to_value(&small).unwrap();
            j["src"] = Value::String(source(&small));
            out.violation(idx, sig, &d, &j);
        }
    }
    r.ran && c.tasks.len() >= 2 && r.tasks_executed >= 1
}

fn gen_case(args: &Args, idx: usize, rng: &mut Rng) -> Case {
    let big = args.thorough() && rng.chance(1, 20);
    // one case in twelve hands more than 256 tasks over within one sample (from global scope or from one task)
    let burst = !big && rng.chance(1, 12);
    let ntasks = if big { 500 + rng.below(1500) } else if burst && rng.chance(1, 2) { 270 + rng.below(130) } else if rng.chance(1, 4) { 60 + rng.below(140) } else { 2 + rng.below(40) };
    let n = if big { 400 + rng.below(2000) } else { 16 + rng.below(if args.thorough() { 600 } else { 100 }) };
    let frac = |rng: &mut Rng| *rng.pick(&[0.0, 0.0, 0.5, 0.25, 0.999, 0.001, 0.9999995, 0.999999999]);
    // a time a few units in the last place below the whole number k (still sample k - 1)
    let below = |k: usize, rng: &mut Rng| f64::from_bits((k as f64).to_bits() - (1 + rng.below(3)) as u64);
    let mut tasks = vec![];
    let mut j = 0usize;
    let same_time = if rng.chance(1, 3) { Some(1 + rng.below(n.min(60))) } else { None };
    // on WASM a function scheduled from a running task is wrapped in a closure allocated in the
    // per-tick arena (known finding): more than one chain makes the dangling addresses collide
    let nchain = rng.below(4);
    for _ in 0..ntasks {
        let tt = |rng: &mut Rng| match same_time {
            Some(t) if rng.chance(2, 3) => t as f64 + frac(rng),
            _ if rng.chance(1, 6) => below(2 + rng.below(n + 5), rng),
            _ => (1 + rng.below(n + 5)) as f64 + frac(rng),
        };
        let safe_case = args.q("wasm-closure-allocated-in-tick-scheduled") && idx % 2 == 0;
        match if safe_case { 0 } else { rng.below(10) } {
            0..=5 => {
                tasks.push(Task::Global { t: tt(rng), j });
                j += 1;
            }
            6 | 7 => {
                tasks.push(Task::FromDsp { s: rng.below(n), d: (1 + rng.below(20)) as f64 + frac(rng), j });
                j += 1;
            }
            _ => {
                tasks.push(Task::Spawner { t: tt(rng), j, d: (1 + rng.below(12)) as f64 + frac(rng), j2: j + 1 });
                j += 2;
            }
        }
    }
    if burst && ntasks < 270 {
        let count = 258 + rng.below(120);
        tasks.push(Task::Burst { t: (1 + rng.below(6)) as f64, d: (1 + rng.below(6)) as f64 + frac(rng), j0: j, count });
    }
    let nchain = if args.q("wasm-closure-allocated-in-tick-scheduled") && idx % 2 == 0 { nchain.min(1) } else { nchain };
    for k in 0..nchain {
        tasks.push(Task::Chain { t0: (1 + rng.below(8)) as f64 + frac(rng), p: (1 + rng.below(17)) as f64 + *rng.pick(&[0.0, 0.0, 0.5]), k });
    }
    // order of the scheduling statements: ascending time, descending or random
    let nglob = tasks.iter().filter(|t| !matches!(t, Task::FromDsp { .. })).count();
    let mut order: Vec<usize> = (0..nglob).collect();
    match (idx + rng.below(3)) % 3 {
        0 => {}
        1 => order.reverse(),
        _ => rng.shuffle(&mut order),
    }
    Case { tasks, n, order, wasm_all: None }
}

pub fn meta(args: &Args) -> Value {
    json!({
        "level": "exploration",
        "rule": "task sets of 2-200 (thorough: up to 2000) tasks scheduled with @ from global scope, from dsp at chosen samples, from running tasks, plus up to 3 self-rescheduling chains with periods 1..17.5; fractional times, up to all tasks at one sample, scheduling statements in ascending / descending / random order; always strictly later than the current sample. One-shot task j adds 2^(j mod 50) to accumulator j div 50, chains count their runs; dsp exposes all accumulators and every sample of both runtimes is compared bitwise with the model (run exactly once, before dsp of sample floor(t)). Non-trivial = at least two tasks and at least one executed within the run; distinct = hash of the task table.",
        "assumptions": ["effects commute, so the order among tasks of one sample is not constrained", "unique power-of-two weights make a missing, early or duplicated task visible in one f64 comparison"],
        "floor": {"quick": 40, "thorough": 1500},
        "case_timeout_s": 90,
        "hang_is_violation": false,
        "budget": args.cases(900, 8000),
    })
}

pub fn run(args: &Args, out: &mut Out) {
    let total = args.cases(900, 8000);
    let exec = exec_with(args);
    drive(args, out, total, |idx, rng| Some(gen_case(args, idx, rng)), exec);
}

pub fn replay(args: &Args, out: &mut Out, case: &Value) {
    let mut c = case.clone();
    if let Some(o) = c.as_object_mut() {
        o.remove("src");
    }
    let exec = exec_with(args);
    replay_one::<Case>(out, &c, exec);
}
