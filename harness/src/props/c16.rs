//! C16 — meaning is invariant under consistent renaming, redundant parentheses,
//! layout/comments inside brackets and agreeing type annotations: metamorphic oracle
//! (original vs transformed program, accept/reject and every output bit, both back ends).

use super::c01::corpus_files;
use super::progcase::{feat_for, input_fn, norm};
use super::{drive, replay_one};
use crate::gens::core::*;
use crate::run::{Backend, RunError, run_program};
use crate::util::{Args, Out, Rng, bits_eq};
use serde::{Deserialize, Serialize};
use serde_json::{Value, json};
use std::collections::HashMap;
use std::path::PathBuf;

#[derive(Clone, Debug, Serialize, Deserialize)]
pub struct MCase {
    pub original: String,
    pub transformed: String,
    pub transformation: String,
    pub n: usize,
    pub input_seed: u64,
    #[serde(default)]
    pub path: Option<String>,
    #[serde(default)]
    pub scheduler: bool,
}

// ------------------------------------------------------------------ renaming

fn map_name(m: &HashMap<String, String>, n: &str) -> String {
    m.get(n).cloned().unwrap_or_else(|| n.to_string())
}
fn ren_pat(p: &Pat, m: &HashMap<String, String>, f: &HashMap<String, String>) -> Pat {
    match p {
        Pat::Var(v) => Pat::Var(map_name(m, v)),
        Pat::Tup(v) => Pat::Tup(v.iter().map(|x| ren_pat(x, m, f)).collect()),
        Pat::Rec(v) => Pat::Rec(v.iter().map(|(fl, b)| (map_name(f, fl), map_name(m, b))).collect()),
    }
}
fn ren_ty(t: &Ty, f: &HashMap<String, String>) -> Ty {
    match t {
        Ty::F => Ty::F,
        Ty::Tup(v) => Ty::Tup(v.iter().map(|x| ren_ty(x, f)).collect()),
        Ty::Rec(v) => Ty::Rec(v.iter().map(|(n, x)| (map_name(f, n), ren_ty(x, f))).collect()),
        Ty::Fun(a, r) => Ty::Fun(a.iter().map(|x| ren_ty(x, f)).collect(), Box::new(ren_ty(r, f))),
    }
}
fn ren_params(ps: &[Param], m: &HashMap<String, String>, f: &HashMap<String, String>) -> Vec<Param> {
    ps.iter().map(|p| Param { name: map_name(m, &p.name), ty: ren_ty(&p.ty, f), annot: p.annot, default: p.default }).collect()
}
fn ren_block(b: &Block, m: &HashMap<String, String>, f: &HashMap<String, String>) -> Block {
    Block {
        stmts: b
            .stmts
            .iter()
            .map(|s| match s {
                Stmt::Let(p, t, e) => Stmt::Let(ren_pat(p, m, f), t.as_ref().map(|t| ren_ty(t, f)), ren_expr(e, m, f)),
                Stmt::Assign(n, e) => Stmt::Assign(map_name(m, n), ren_expr(e, m, f)),
            })
            .collect(),
        result: ren_expr(&b.result, m, f),
    }
}
fn ren_expr(e: &E, m: &HashMap<String, String>, f: &HashMap<String, String>) -> E {
    let r = |x: &E| Box::new(ren_expr(x, m, f));
    let rv = |v: &[E]| v.iter().map(|x| ren_expr(x, m, f)).collect::<Vec<_>>();
    match e {
        E::Num(..) | E::SelfE | E::Now | E::SampleRate => e.clone(),
        E::Var(n) => E::Var(map_name(m, n)),
        E::FnRef(n) => E::FnRef(map_name(m, n)),
        E::Bin(op, a, b) => E::Bin(*op, r(a), r(b)),
        E::Neg(a) => E::Neg(r(a)),
        E::Not(a) => E::Not(r(a)),
        E::Builtin(n, v) => E::Builtin(n.clone(), rv(v)),
        E::CallFn { name, args, style, site } => {
            // record-style arguments name the callee's parameters
            let args = match (style, args.first()) {
                (CallStyle::Positional, _) => rv(args),
                (_, Some(E::Record(fs))) => vec![E::Record(fs.iter().map(|(n, x)| (map_name(m, n), ren_expr(x, m, f))).collect())],
                _ => rv(args),
            };
            E::CallFn { name: map_name(m, name), args, style: *style, site: *site }
        }
        E::CallVal(c, v) => E::CallVal(r(c), rv(v)),
        E::PipeFn { arg, name, site } => E::PipeFn { arg: r(arg), name: map_name(m, name), site: *site },
        E::PipeVal(a, b) => E::PipeVal(r(a), r(b)),
        E::If(c, a, b) => E::If(r(c), r(a), r(b)),
        E::Tuple(v) => E::Tuple(rv(v)),
        E::Proj(a, i) => E::Proj(r(a), *i),
        E::Record(fs) => E::Record(fs.iter().map(|(n, x)| (map_name(f, n), ren_expr(x, m, f))).collect()),
        E::Field(a, n) => E::Field(r(a), map_name(f, n)),
        E::Lambda(ps, b) => E::Lambda(ren_params(ps, m, f), Box::new(ren_block(b, m, f))),
        E::Block(b) => E::Block(Box::new(ren_block(b, m, f))),
        E::Mem(a, s) => E::Mem(r(a), *s),
        E::Delay(n, x, t, s) => E::Delay(*n, r(x), r(t), *s),
    }
}

fn collect_names(p: &Program) -> Vec<String> {
    let mut names: Vec<String> = vec![];
    let mut add = |n: &str| {
        if n != "dsp" && !names.iter().any(|x| x == n) {
            names.push(n.to_string());
        }
    };
    fn pat(p: &Pat, add: &mut dyn FnMut(&str)) {
        match p {
            Pat::Var(v) if v == "_" => {}
            Pat::Var(v) => add(v),
            Pat::Tup(v) => v.iter().for_each(|x| pat(x, add)),
            Pat::Rec(v) => v.iter().for_each(|(_, b)| add(b)),
        }
    }
    fn block(b: &Block, add: &mut dyn FnMut(&str)) {
        for s in &b.stmts {
            match s {
                Stmt::Let(p, _, e) => {
                    pat(p, add);
                    expr(e, add);
                }
                Stmt::Assign(_, e) => expr(e, add),
            }
        }
        expr(&b.result, add);
    }
    fn expr(e: &E, add: &mut dyn FnMut(&str)) {
        crate::gens::shrink::visit(e, &mut |x| {
            if let E::Lambda(ps, b) = x {
                ps.iter().for_each(|p| add(&p.name));
                for s in &b.stmts {
                    if let Stmt::Let(p, _, _) = s {
                        pat(p, add);
                    }
                }
            }
            if let E::Block(b) = x {
                for s in &b.stmts {
                    if let Stmt::Let(p, _, _) = s {
                        pat(p, add);
                    }
                }
            }
        });
    }
    for (n, _, e) in p.pre_globals.iter().chain(p.globals.iter()) {
        add(n);
        expr(e, &mut add);
    }
    for f in p.fns.iter().chain(std::iter::once(&p.dsp)) {
        add(&f.name);
        f.params.iter().for_each(|q| add(&q.name));
        block(&f.body, &mut add);
    }
    names
}

const COMPILER_LIKE: [&str; 14] = [
    "lambda_0", "lambda_1", "__default_1_x", "record_update_temp", "__dt0", "__dt1", "dsp_", "_dsp", "Dsp", "state", "input", "output", "main_", "_mimium_global_",
];

pub fn rename(p: &Program, rng: &mut Rng, style: u8) -> Program {
    let names = collect_names(p);
    let mut m = HashMap::new();
    let mut used: Vec<String> = vec![];
    for (i, n) in names.iter().enumerate() {
        let mut cand = match style {
            0 => format!("zq{}_{}", i, n.len()),
            1 => {
                if i < COMPILER_LIKE.len() && rng.chance(2, 3) { COMPILER_LIKE[i].to_string() } else { format!("lambda_{}", 10 + i) }
            }
            _ => {
                // names differing only in case / underscores
                match i % 4 {
                    0 => format!("Xa{}", i / 4),
                    1 => format!("xa{}", i / 4),
                    2 => format!("x_a{}", i / 4),
                    _ => format!("_xa{}", i / 4),
                }
            }
        };
        while used.contains(&cand) || cand == "dsp" {
            cand.push('_');
        }
        used.push(cand.clone());
        m.insert(n.clone(), cand);
    }
    // record field names
    let mut f = HashMap::new();
    for (a, b) in [("p", "alpha"), ("q", "beta_"), ("r", "Gamma"), ("s", "d0")] {
        f.insert(a.to_string(), b.to_string());
    }
    // record types keep sorted field order: rename must preserve order: alpha < beta_ < (Gamma sorts before lowercase!) -> use lowercase
    f.insert("r".into(), "gamma".into());
    f.insert("s".into(), "omega".into());
    let rp = |g: &Vec<(String, Ty, E)>| g.iter().map(|(n, t, e)| (map_name(&m, n), ren_ty(t, &f), ren_expr(e, &m, &f))).collect();
    let rf = |fd: &FnDef| FnDef {
        name: map_name(&m, &fd.name),
        params: ren_params(&fd.params, &m, &f),
        ret: ren_ty(&fd.ret, &f),
        ret_annot: fd.ret_annot,
        body: ren_block(&fd.body, &m, &f),
        stateful: fd.stateful,
    };
    Program { pre_globals: rp(&p.pre_globals), fns: p.fns.iter().map(rf).collect(), globals: rp(&p.globals), dsp: rf(&p.dsp), features: p.features.clone() }
}

// ------------------------------------------------------------------ annotations

fn annotate_block(b: &mut Block) {
    for s in b.stmts.iter_mut() {
        if let Stmt::Let(_, _, e) = s {
            annotate_expr(e);
        }
        if let Stmt::Assign(_, e) = s {
            annotate_expr(e);
        }
    }
    annotate_expr(&mut b.result);
}
fn annotate_expr(e: &mut E) {
    match e {
        E::Lambda(ps, b) => {
            ps.iter_mut().for_each(|p| p.annot = true);
            annotate_block(b);
        }
        E::Block(b) => annotate_block(b),
        E::Bin(_, a, b) | E::PipeVal(a, b) => {
            annotate_expr(a);
            annotate_expr(b);
        }
        E::Neg(a) | E::Not(a) | E::Proj(a, _) | E::Field(a, _) | E::Mem(a, _) => annotate_expr(a),
        E::PipeFn { arg, .. } => annotate_expr(arg),
        E::Builtin(_, v) | E::Tuple(v) => v.iter_mut().for_each(annotate_expr),
        E::CallFn { args, .. } => args.iter_mut().for_each(annotate_expr),
        E::CallVal(c, v) => {
            annotate_expr(c);
            v.iter_mut().for_each(annotate_expr);
        }
        E::If(c, a, b) => {
            annotate_expr(c);
            annotate_expr(a);
            annotate_expr(b);
        }
        E::Record(fs) => fs.iter_mut().for_each(|(_, x)| annotate_expr(x)),
        E::Delay(_, x, t, _) => {
            annotate_expr(x);
            annotate_expr(t);
        }
        _ => {}
    }
}
/// add every annotation the G-AST knows (they agree with the inferred types by construction)
pub fn annotate(p: &Program) -> Program {
    let mut q = p.clone();
    for f in q.fns.iter_mut().chain(std::iter::once(&mut q.dsp)) {
        f.params.iter_mut().for_each(|x| x.annot = true);
        if f.ret.is_data() {
            f.ret_annot = true;
        }
        annotate_block(&mut f.body);
    }
    for (_, _, e) in q.pre_globals.iter_mut().chain(q.globals.iter_mut()) {
        annotate_expr(e);
    }
    q
}

// ------------------------------------------------------------------ text-level transformations

/// whitespace, comments and line breaks after `(`, `[` and `,` while inside () or []
pub fn relayout(src: &str, rng: &mut Rng) -> String {
    let mut out = String::new();
    let mut depth = 0i32;
    let chars: Vec<char> = src.chars().collect();
    let mut in_line_comment = false;
    let mut in_string = false;
    let mut i = 0;
    while i < chars.len() {
        let c = chars[i];
        out.push(c);
        if in_line_comment {
            if c == '\n' {
                in_line_comment = false;
            }
            i += 1;
            continue;
        }
        if in_string {
            if c == '"' {
                in_string = false;
            }
            i += 1;
            continue;
        }
        if c == '"' {
            in_string = true;
        }
        if c == '/' && chars.get(i + 1) == Some(&'/') {
            in_line_comment = true;
        }
        match c {
            '(' | '[' => depth += 1,
            ')' | ']' => depth -= 1,
            _ => {}
        }
        if (c == '(' || c == '[' || c == ',') && depth > 0 && rng.chance(1, 3) {
            out.push_str(match rng.below(5) {
                0 => "\n    ",
                1 => " /* c */ ",
                2 => " // c\n  ",
                3 => "   ",
                _ => "\n\n",
            });
        }
        i += 1;
    }
    out
}

/// comments added at line ends (`// c`, `/* c */`) and on lines of their own, outside strings and
/// existing comments: wherever a line break already is, so that only comments change
pub fn recomment(src: &str, rng: &mut Rng) -> String {
    let mut out = String::new();
    let chars: Vec<char> = src.chars().collect();
    let mut in_line_comment = false;
    let mut in_block_comment = false;
    let mut in_string = false;
    let mut i = 0;
    if rng.chance(1, 2) {
        out.push_str("// leading comment\n");
    }
    while i < chars.len() {
        let c = chars[i];
        if c == '\n' && !in_string && !in_block_comment {
            if !in_line_comment && rng.chance(1, 2) {
                out.push_str(match rng.below(9) {
                    0 => " // c",
                    1 => " /* c */",
                    2 => "// c",
                    3 => " /* a */ /* b */",
                    // comment texts made of the comment delimiters' own characters
                    4 => " /** banner **/",
                    5 => " /****/",
                    6 => " /* a * b / c ** */",
                    7 => " // /* not a block comment",
                    _ => " /***/ /* // */",
                });
            }
            in_line_comment = false;
            out.push(c);
            if rng.chance(1, 8) {
                out.push_str("// a line of its own\n");
            }
            i += 1;
            continue;
        }
        out.push(c);
        if in_line_comment {
            i += 1;
            continue;
        }
        if in_block_comment {
            if c == '*' && chars.get(i + 1) == Some(&'/') {
                out.push('/');
                in_block_comment = false;
                i += 2;
                continue;
            }
            i += 1;
            continue;
        }
        if in_string {
            if c == '"' {
                in_string = false;
            }
            i += 1;
            continue;
        }
        if c == '"' {
            in_string = true;
        } else if c == '/' && chars.get(i + 1) == Some(&'/') {
            in_line_comment = true;
        } else if c == '/' && chars.get(i + 1) == Some(&'*') {
            in_block_comment = true;
        }
        i += 1;
    }
    out
}

// ------------------------------------------------------------------ oracle

pub struct Checked {
    pub violations: Vec<(String, String)>,
    pub compared: u64,
    pub ran: bool,
    pub heavy: bool,
}

pub fn check(c: &MCase) -> Checked {
    let mut res = Checked { violations: vec![], compared: 0, ran: false, heavy: false };
    let inp = input_fn(c.input_seed, true);
    let path = c.path.as_ref().map(PathBuf::from);
    for b in [Backend::Vm, Backend::Wasm] {
        let a = run_program(b, &c.original, c.scheduler, c.n, &inp, false, path.clone());
        // a program that exhausts the VM's logical instruction budget would run unbounded on
        // WASM (no budget there): not a case for this oracle
        if let Err(RunError::DspPanic(_, p)) | Err(RunError::Build(crate::run::BuildError::Panicked(_, p))) = &a
            && p.is_verif_tag() == Some("VERIF-STEPS")
        {
            res.heavy = true;
            return res;
        }
        let t = run_program(b, &c.transformed, c.scheduler, c.n, &inp, false, path.clone());
        match (&a, &t) {
            (Ok(x), Ok(y)) => {
                res.ran = true;
                res.compared += x.out.len() as u64;
                if x.out.len() != y.out.len() {
                    res.violations.push((format!("{}: channel-count-changes/{}", c.transformation, b.name()), format!("{} vs {}", x.out.len(), y.out.len())));
                } else if let Some(i) = (0..x.out.len()).find(|&i| !bits_eq(x.out[i], y.out[i])) {
                    res.violations.push((
                        format!("{}: output-changes/{}", c.transformation, b.name()),
                        format!("word {i}: original {:?} transformed {:?}", x.out[i], y.out[i]),
                    ));
                }
            }
            (Err(ea), Err(et)) => {
                // both refused: fine as long as both are refusals of the same kind (diagnostics vs crash)
                let ka = matches!(ea, RunError::Build(be) if be.is_reject());
                let kt = matches!(et, RunError::Build(be) if be.is_reject());
                if ka != kt {
                    res.violations.push((
                        format!("{}: refusal-kind-changes/{}", c.transformation, b.name()),
                        format!("original: {} | transformed: {}", ea.short(), et.short()),
                    ));
                }
            }
            (Ok(_), Err(e)) => {
                res.violations.push((
                    format!("{}: accepted-becomes-refused/{}: {}", c.transformation, b.name(), norm(&e.short())),
                    format!("transformed program: {}", e.short()),
                ));
            }
            (Err(e), Ok(_)) => {
                res.violations.push((
                    format!("{}: refused-becomes-accepted/{}: {}", c.transformation, b.name(), norm(&e.short())),
                    format!("original program: {}", e.short()),
                ));
            }
        }
    }
    res
}

fn exec(c: &MCase, idx: usize, out: &mut Out) -> bool {
    let r = check(c);
    out.count(&format!("transformation:{}", c.transformation), 1);
    out.count("output_words_compared", r.compared);
    if r.heavy {
        out.count("heavy_programs_skipped", 1);
    }
    for (sig, detail) in &r.violations {
        let key = format!("violations:{sig}");
        let seen = out.counters.get(&key).copied().unwrap_or(0);
        out.count(&key, 1);
        if seen < 3 {
            out.violation(idx, sig, detail, &serde_json::to_value(c).unwrap());
        }
    }
    r.ran && c.original != c.transformed
}

pub fn meta(args: &Args) -> Value {
    json!({
        "level": "exploration",
        "rule": "metamorphic: each generated core program (G-AST) is paired with a transformed version and both run on both back ends with the same inputs: (rename-fresh) every user identifier and record field consistently renamed to fresh names; (rename-compiler-like) to names resembling compiler-generated ones (lambda_0, __default_1_x, record_update_temp, __dt0, dsp_ ...); (rename-case) to names differing only in case and underscores; (annotate) every parameter / return / lambda parameter annotated with the type the G-AST knows; (parens) redundant parentheses around grouping parentheses; (layout) whitespace, block and line comments and line breaks after ( [ , inside brackets. Shipped sources get the layout transformation. Accept/reject and every output bit must be unchanged. Non-trivial = the transformation changed the text and both versions ran; distinct = hash of the pair.",
        "assumptions": ["renamings never use keywords, builtin or intrinsic names", "annotations are exactly the generator's own types"],
        "floor": {"quick": 100, "thorough": 4000},
        "case_timeout_s": 60,
        "hang_is_violation": false,
        "crash_is_violation": false,
        "budget": args.cases(400, 15000),
    })
}

const TRANSFORMS: [&str; 7] = ["rename-fresh", "rename-compiler-like", "rename-case", "annotate", "parens", "layout", "comments"];

/// Hand-built pairs for transformation classes the G-AST transformations cannot express:
/// (A) a local binder renamed to the name of a function that is visible where its initialiser
///     is evaluated (top-level, `use m::*`, `use m::f`, qualified) — `let` is not recursive, so
///     the initialiser still denotes the function; binder forms: let, tuple-let, lambda
///     parameter, function parameter, nested block;
/// (B) agreeing record annotations written in a field order that is not the canonical one, and
///     consistent renamings of record fields that change their alphabetical order, around field
///     reads, field assignments, record updates, parameters and results.
pub fn extra_pairs() -> Vec<MCase> {
    let mut v = vec![];
    let mut push = |tag: &str, a: String, b: String| {
        v.push(MCase { original: a, transformed: b, transformation: tag.to_string(), n: 3, input_seed: 1, path: None, scheduler: false });
    };
    // ---- (A)
    let imports: [(&str, &str, &str); 4] = [
        ("toplevel", "fn gain(x){ x * 0.5 }\nfn offset(x){ x + 100.0 }\n", ""),
        ("use-wildcard", "mod m {\n  pub fn gain(x){ x * 0.5 }\n  pub fn offset(x){ x + 100.0 }\n}\nuse m::*\n", ""),
        ("use-single", "mod m {\n  pub fn gain(x){ x * 0.5 }\n  pub fn offset(x){ x + 100.0 }\n}\nuse m::gain\nuse m::offset\n", ""),
        ("use-multi", "mod m {\n  pub fn gain(x){ x * 0.5 }\n  pub fn offset(x){ x + 100.0 }\n}\nuse m::{gain, offset}\n", ""),
    ];
    // (binder tag, body with placeholders G and O for the two local names)
    let binders: [(&str, &str); 6] = [
        ("let", "fn dsp(){\n  let G = gain(4.0)\n  let O = offset(G)\n  O\n}\n"),
        ("tuple-let", "fn dsp(){\n  let (G, O) = (gain(4.0), offset(1.0))\n  G + O\n}\n"),
        ("lambda-parameter", "fn dsp(){\n  (|G, O| G * 2.0 + O)(gain(4.0), offset(1.0))\n}\n"),
        ("fn-parameter", "fn h(G, O){\n  G * 2.0 + O\n}\nfn dsp(){\n  h(gain(4.0), offset(1.0))\n}\n"),
        ("let-in-block", "fn dsp(){\n  let y = {\n    let G = gain(4.0)\n    G + 1.0\n  }\n  let O = offset(y)\n  O\n}\n"),
        ("let-then-lambda", "fn dsp(){\n  let G = gain(4.0)\n  let O = (|q| q + G)(offset(2.0))\n  O\n}\n"),
    ];
    for (itag, prelude, _) in imports {
        for (btag, body) in binders {
            let a = format!("{prelude}{}", body.replace('G', "g_loc").replace('O', "o_loc"));
            let b = format!("{prelude}{}", body.replace('G', "gain").replace('O', "offset"));
            push(&format!("rename-local-to-visible-function/{itag}/{btag}"), a, b);
        }
    }
    // ---- (C) the same function name at two or three levels of nested modules: renaming the definition at
    // one level (and the references that denote it) leaves every unqualified reference with its meaning
    let levels = [("x * 0.5", "OUTER"), ("x + 100.0", "MID"), ("x * 7.0 + 1.0", "INNER")];
    for depth in 2..=3usize {
        for renamed in 0..depth {
            for from in 0..depth {
                // level k defines gain_k (all called `gain` in the original) and run_k() { gain(4.0) }
                let mk = |name_at: &dyn Fn(usize) -> String| {
                    let mut src = String::new();
                    for k in 0..depth {
                        let ind = "  ".repeat(k);
                        src.push_str(&format!("{ind}pub mod m{k} {{\n"));
                        src.push_str(&format!("{ind}  pub fn {}(x){{ {} }}\n", name_at(k), levels[k].0));
                        // an unqualified reference denotes the innermost enclosing definition
                        src.push_str(&format!("{ind}  pub fn run{k}(x){{ {}(x) }}\n", name_at(k)));
                    }
                    for k in (0..depth).rev() {
                        src.push_str(&format!("{}}}\n", "  ".repeat(k)));
                    }
                    let path: Vec<String> = (0..=from).map(|k| format!("m{k}")).collect();
                    src.push_str(&format!("fn dsp(){{\n  {}::run{from}(4.0)\n}}\n", path.join("::")));
                    src
                };
                let a = mk(&|_k| "gain".to_string());
                let b = mk(&|k| if k == renamed { "boost".to_string() } else { "gain".to_string() });
                push(&format!("rename-one-of-same-named-functions-in-nested-modules/depth{depth}/renamed-level{renamed}/called-level{from}"), a, b);
            }
        }
    }
    let _ = levels;
    // ---- (E) user-chosen *type* names: an alias, a record alias and a sum type, used in parameter, result
    // and let annotations whose structure matters (projection, field access, match); renamed to short and
    // odd but legal names (single upper-case letters, names that differ in case only, names that contain
    // a builtin type's name)
    let type_progs: [(&str, &str); 3] = [
        ("alias-of-tuple", "type alias TYPE = (float, float)\nfn swap(v: TYPE)->TYPE{ (v.1, v.0) }\nfn dsp(){\n  let p: TYPE = swap((1.0, now))\n  p.0 * 10.0 + p.1\n}\n"),
        ("alias-of-record", "type alias TYPE = {freq: float, amp: float}\nfn louder(v: TYPE)->TYPE{ {freq = v.freq, amp = v.amp * 2.0} }\nfn dsp(){\n  let p: TYPE = louder({freq = 440.0, amp = now})\n  p.freq + p.amp\n}\n"),
        ("sum-type", "type TYPE = Off | On(float)\nfn level(v: TYPE)->float{\n  match v { Off => 0.0, On(x) => x }\n}\nfn flip(v: TYPE)->TYPE{\n  match v { Off => On(1.0), On(x) => Off }\n}\nfn dsp(){\n  level(flip(Off)) * 10.0 + level(flip(On(now)))\n}\n"),
    ];
    for (ttag, text) in type_progs {
        for new_name in ["V", "T", "X", "Vec2", "vec2", "Float2", "Tfloat", "V_", "A1"] {
            push(&format!("rename-type/{ttag}/{new_name}"), text.replace("TYPE", "Signal"), text.replace("TYPE", new_name));
        }
    }
    // ---- (D) two function values whose parameters are named differently meet in one type (arms of an
    // if, elements of an array, two uses of one higher-order parameter): renaming a parameter of one of
    // them must not change whether the program compiles
    let meets: [(&str, &str); 4] = [
        ("if-arms", "fn scale(p, k){ p * k }\nfn dsp(){\n  let g = |Q, k| { Q - k }\n  let h = if (now % 2) scale else g\n  h(3.0, 7.0)\n}\n"),
        ("array-elements", "fn scale(p, k){ p * k }\nfn minus(Q, k){ Q - k }\nfn dsp(){\n  let fs = [scale, minus]\n  fs[now % 2](3.0, 7.0)\n}\n"),
        ("hof-parameter-twice", "fn scale(p, k){ p * k }\nfn app(f){ f(3.0, 7.0) }\nfn dsp(){\n  let g = |Q, k| { Q - k }\n  app(scale) + app(g)\n}\n"),
        ("if-arms-typed-aggregate", "fn scale(p:(float,float), k:float){ p.0 * k + p.1 }\nfn dsp(){\n  let t = (now, now + 0.25)\n  let g = |Q:(float,float), k:float| { Q.0 - Q.1 * k }\n  let h = if (now % 2) scale else g\n  h(t, 7.0)\n}\n"),
    ];
    for (mtag, body) in meets {
        push(&format!("rename-parameter-of-function-value-meeting-another/{mtag}"), body.replace('Q', "p"), body.replace('Q', "q"));
    }
    // ---- (E) a user variable that has the name of something the compiler generates (feed binders of
    // `self`, desugaring temporaries, record-update temporaries, lifted lambdas, the global initialiser)
    let gen_names = ["feed_id0", "feed_id1", "feed_global", "__dt0", "__dt1", "record_update_temp", "lambda_0", "lambda_1", "_mimium_global", "__default_1_x", "closure_0"];
    let uses: [(&str, &str); 6] = [
        ("local-next-to-self", "fn acc(x){\n  let N = 100.0\n  self + x + N\n}\nfn dsp(){\n  acc(1.0)\n}\n"),
        ("local-in-nested-stateful-calls", "fn inner(x){\n  self + x\n}\nfn outer(x){\n  let N = 7.0\n  inner(x) + self * 0.5 + N\n}\nfn dsp(){\n  outer(1.0)\n}\n"),
        ("parameter-next-to-self", "fn acc(N){\n  self + N\n}\nfn dsp(){\n  acc(1.0) + acc(10.0)\n}\n"),
        ("local-next-to-record-update", "fn dsp(){\n  let r = {a = 1.0, b = 2.0}\n  let N = 5.0\n  let s = {r <- a = N}\n  s.a + s.b * 10.0 + N * 100.0\n}\n"),
        ("local-next-to-nested-pattern", "fn dsp(){\n  let N = 3.0\n  let (a, (b, c)) = (1.0, (2.0, N))\n  a + b * 10.0 + c * 100.0 + N * 1000.0\n}\n"),
        ("local-next-to-lambdas", "fn dsp(){\n  let N = 4.0\n  let f = |x| x + N\n  let g = |y| f(y) * 2.0\n  g(now) + N\n}\n"),
    ];
    for (utag, body) in uses {
        for n in gen_names {
            push(&format!("rename-to-compiler-generated-name/{utag}/{n}"), body.replace('N', "zz_q"), body.replace('N', n));
        }
    }
    // ---- (F) redundant parentheses around a lambda body and around a lambda that is an argument
    let parens: [(&str, &str, &str); 5] = [
        ("lambda-body-typed-parameter", "fn dsp(){\n  let f = |x: float| x + 1.0\n  f(now)\n}\n", "fn dsp(){\n  let f = |x: float| (x + 1.0)\n  f(now)\n}\n"),
        ("lambda-body-untyped-parameter", "fn dsp(){\n  let f = |x| x + 1.0\n  f(now)\n}\n", "fn dsp(){\n  let f = |x| (x + 1.0)\n  f(now)\n}\n"),
        ("lambda-as-argument-typed", "fn app(v, f){ f(v) }\nfn dsp(){\n  app(now, |x: float| x * 2.0)\n}\n", "fn app(v, f){ f(v) }\nfn dsp(){\n  app(now, (|x: float| x * 2.0))\n}\n"),
        ("lambda-value-typed", "fn dsp(){\n  let f = |x: float| x\n  f(now)\n}\n", "fn dsp(){\n  let f = (|x: float| x)\n  f(now)\n}\n"),
        ("lambda-body-typed-return", "fn dsp(){\n  let f = |x: float| -> float x + 1.0\n  f(now)\n}\n", "fn dsp(){\n  let f = |x: float| -> float (x + 1.0)\n  f(now)\n}\n"),
    ];
    for (ptag, a, b) in parens {
        push(&format!("redundant-parentheses/{ptag}"), a.to_string(), b.to_string());
    }
    // ---- (B)
    let ops: [(&str, &str); 6] = [
        ("field-read", "  r.F1 + r.F2 * 10.0 + r.F3 * 100.0\n"),
        ("field-assign", "  r.F2 = 50.0\n  r.F1 + r.F2 * 10.0 + r.F3 * 100.0\n"),
        ("record-update", "  let s = {r <- F3 = 700.0}\n  r.F1 + r.F2 * 10.0 + r.F3 * 100.0 + s.F1 * 1000.0 + s.F2 * 10000.0 + s.F3 * 100000.0\n"),
        ("assign-then-update", "  r.F2 = 50.0\n  let s = {r <- F3 = 700.0}\n  r.F1 + r.F2 * 10.0 + r.F3 * 100.0 + s.F1 * 1000.0 + s.F2 * 10000.0 + s.F3 * 100000.0\n"),
        ("pass-to-function", "  k(r) + r.F1\n"),
        ("destructure", "  let {F1 = a1, F2 = a2, F3 = a3} = r\n  a1 + a2 * 10.0 + a3 * 100.0\n"),
    ];
    // field names in written order; the canonical (alphabetical) order differs from it in `mixed`
    let sorted = ["p_freq", "q_gain", "r_bias"];
    let mixed = ["freq", "gain", "bias"];
    for (otag, op) in ops {
        let mk = |names: [&str; 3], annot: bool| {
            let ty = format!("{{{}: float, {}: float, {}: float}}", names[0], names[1], names[2]);
            let lit = format!("{{{} = 1.0, {} = 2.0, {} = 3.0}}", names[0], names[1], names[2]);
            let k = format!("fn k(x{}){{\n  x.{} * 3.0 + x.{}\n}}\n", if annot { format!(":{ty}") } else { String::new() }, names[1], names[2]);
            let body = op.replace("F1", names[0]).replace("F2", names[1]).replace("F3", names[2]);
            format!("{k}fn dsp(){{\n  let r{} = {lit}\n{body}}}\n", if annot { format!(":{ty}") } else { String::new() })
        };
        push(&format!("agreeing-annotation-in-written-field-order/{otag}"), mk(mixed, false), mk(mixed, true));
        push(&format!("rename-fields-changing-canonical-order/{otag}"), mk(sorted, false), mk(mixed, false));
        push(&format!("rename-fields-changing-canonical-order-annotated/{otag}"), mk(sorted, true), mk(mixed, true));
    }
    v
}

pub fn run(args: &Args, out: &mut Out) {
    let files = corpus_files(&args.repo);
    let ncorpus = files.len();
    let ngen = args.cases(400, 15000);
    let extra = extra_pairs();
    drive(
        args,
        out,
        ncorpus + ngen + extra.len(),
        |idx, rng| {
            if idx >= ncorpus + ngen {
                return Some(extra[idx - (ncorpus + ngen)].clone());
            }
            if idx < ncorpus {
                // quick: a third of the shipped sources, rotating with the seed
                if !args.thorough() && idx % 3 != (args.seed % 3) as usize {
                    return None;
                }
                let f = &files[idx];
                let src = std::fs::read_to_string(f).ok()?;
                for bad in ["Sampler", "sampler", "midi", "loadwav", "gen_sampler", "Slider", "Probe"] {
                    if src.contains(bad) {
                        return None;
                    }
                }
                let name = f.file_name()?.to_string_lossy().to_string();
                if args.q(&format!("corpus:{name}")) {
                    return None;
                }
                let comments = rng.chance(1, 2);
                let t = if comments { recomment(&src, rng) } else { relayout(&src, rng) };
                return Some(MCase {
                    original: src,
                    transformed: t,
                    transformation: if comments { "comments".into() } else { "layout".into() },
                    n: 8,
                    input_seed: rng.next(),
                    path: Some(f.to_string_lossy().to_string()),
                    scheduler: true,
                });
            }
            let feat = feat_for(args, rng);
            let prog = generate(rng, feat);
            let original = prog.print();
            let which = TRANSFORMS[idx % TRANSFORMS.len()];
            let transformed = match which {
                "rename-fresh" => rename(&prog, rng, 0).print(),
                "rename-compiler-like" => rename(&prog, rng, 1).print(),
                "rename-case" => rename(&prog, rng, 2).print(),
                "annotate" => annotate(&prog).print(),
                "parens" => prog.print_with(Some(rng.next() | 1)),
                "comments" => recomment(&original, rng),
                _ => relayout(&original, rng),
            };
            Some(MCase { original, transformed, transformation: which.into(), n: *rng.pick(&[8usize, 24]), input_seed: rng.next(), path: None, scheduler: false })
        },
        exec,
    );
}

pub fn replay(_args: &Args, out: &mut Out, case: &Value) {
    replay_one::<MCase>(out, case, exec);
}
