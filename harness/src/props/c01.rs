//! C01 — VM and WASM produce identical audio: differential oracle over generated
//! programs (all features, nasty dsp inputs), the shipped sources and mutations of them.

use super::progcase::{Case, gen_case, input_fn, norm, report};
use super::{drive, replay_one};
use crate::refsem;
use crate::run::{Backend, BuildError, RunError, RunOut, run_program};
use crate::util::{Args, Out, Rng, bits_eq, f64s_to_json};
use serde_json::{Value, json};
use std::path::PathBuf;

pub struct Checked {
    pub violations: Vec<(String, String)>,
    pub nontrivial: bool,
    pub samples_compared: usize,
    pub state_words_compared: usize,
    pub both_rejected: bool,
    pub dyn_quarantine: Vec<&'static str>,
}

fn outcome(r: &Result<RunOut, RunError>) -> String {
    match r {
        Ok(_) => "ran".into(),
        Err(RunError::Build(BuildError::Rejected(d))) => {
            format!("rejected({})", d.first().map(|d| norm(&d.message)).unwrap_or_default())
        }
        Err(RunError::Build(BuildError::BackendRefused(s))) => format!("backend-refused({})", norm(s)),
        Err(RunError::Build(BuildError::NoDsp)) => "no-dsp".into(),
        Err(RunError::Build(BuildError::Panicked(ph, p))) => format!("{}@{ph}", p.sig()),
        Err(RunError::DspPanic(_, p)) => format!("{}@dsp", p.sig()),
    }
}

/// `dynq`: names of dynamic quarantines that are active (from KNOWN_FINDINGS).
pub fn check(c: &Case, dynq: &[String]) -> Checked {
    let mut res = Checked {
        violations: vec![],
        nontrivial: false,
        samples_compared: 0,
        state_words_compared: 0,
        both_rejected: false,
        dyn_quarantine: vec![],
    };
    let inp = input_fn(c.input_seed, c.finite_inputs);
    // dynamic quarantine predicates are evaluated on the reference execution
    let _ = dynq;
    res.dyn_quarantine = super::progcase::dyn_quarantined(c);
    if !res.dyn_quarantine.is_empty() {
        return res;
    }
    let path = c.path.as_ref().map(PathBuf::from);
    let vm = run_program(Backend::Vm, &c.src, c.scheduler, c.n, &inp, true, path.clone());
    let wasm = run_program(Backend::Wasm, &c.src, c.scheduler, c.n, &inp, true, path);
    match (&vm, &wasm) {
        (Ok(a), Ok(b)) => {
            if a.channels != b.channels || a.in_channels != b.in_channels {
                res.violations.push((
                    "channel-count-differs".into(),
                    format!("vm in/out {}/{} wasm {}/{}", a.in_channels, a.channels, b.in_channels, b.channels),
                ));
                return res;
            }
            res.samples_compared = a.out.len();
            if let Some(i) = (0..a.out.len().min(b.out.len())).find(|&i| !bits_eq(a.out[i], b.out[i])) {
                let ch = a.channels.max(1);
                let lo = i.saturating_sub(2 * ch);
                res.violations.push((
                    "output-differs".into(),
                    format!(
                        "sample {} channel {}: vm = {:?} wasm = {:?}; window vm {} wasm {}",
                        i / ch,
                        i % ch,
                        a.out[i],
                        b.out[i],
                        f64s_to_json(&a.out[lo..=i]),
                        f64s_to_json(&b.out[lo..=i])
                    ),
                ));
            } else if let Some(t) = (0..a.rcs.len()).find(|&t| (a.rcs[t] < 0) != (b.rcs[t] < 0)) {
                res.violations.push((
                    "dsp-return-code-differs".into(),
                    format!("sample {t}: vm rc {} wasm rc {}", a.rcs[t], b.rcs[t]),
                ));
            } else if c.prog.is_some() {
                // flat dsp state words after every sample (WASM grows lazily: zero-pad); only for
                // generated programs, whose state holds numbers and ring indices only (array /
                // closure handles in state are representation specific)
                let total = a.total_state_size.unwrap_or(0);
                'outer: for t in 0..a.states.len().min(b.states.len()) {
                    let (sa, sb) = (&a.states[t], &b.states[t]);
                    let n = sa.len().max(sb.len()).max(total);
                    res.state_words_compared += n;
                    for k in 0..n {
                        let (x, y) = (sa.get(k).copied().unwrap_or(0), sb.get(k).copied().unwrap_or(0));
                        let same = x == y || (f64::from_bits(x).is_nan() && f64::from_bits(y).is_nan());
                        if !same {
                            res.violations.push((
                                "state-words-differ".into(),
                                format!("after sample {t} word {k}: vm {x:#x} wasm {y:#x} (layout size {total}); outputs agree"),
                            ));
                            break 'outer;
                        }
                    }
                }
            }
            let first = a.out.first().copied().unwrap_or(0.0);
            res.nontrivial = a.out.iter().any(|x| !bits_eq(*x, first));
        }
        (Err(RunError::Build(BuildError::Rejected(_))), Err(RunError::Build(BuildError::Rejected(_)))) => {
            res.both_rejected = true;
        }
        (Err(RunError::Build(BuildError::NoDsp)), Err(RunError::Build(BuildError::NoDsp))) => {
            res.both_rejected = true;
        }
        _ => {
            let (ov, ow) = (outcome(&vm), outcome(&wasm));
            let sched = |r: &Result<RunOut, RunError>| r.as_ref().err().is_some_and(|e| e.short().contains("must be in the future"));
            let both_panic_in_dsp = matches!((&vm, &wasm), (Err(RunError::DspPanic(..)), Err(RunError::DspPanic(..))))
                || (sched(&vm) && sched(&wasm));
            if ov == ow || both_panic_in_dsp {
                // both fail in the same way (same panic): that is C03's/C04's business, the back ends agree
                res.both_rejected = true;
            } else {
                let detail = format!(
                    "vm: {} | wasm: {}",
                    vm.as_ref().err().map(|e| e.short()).unwrap_or("ran".into()),
                    wasm.as_ref().err().map(|e| e.short()).unwrap_or("ran".into())
                );
                res.violations.push((format!("accept-differs: vm {ov} / wasm {ow}"), detail));
            }
        }
    }
    res
}

fn dynq(args: &Args) -> Vec<String> {
    args.quarantine.iter().cloned().collect()
}

fn exec_with(args: &Args) -> impl Fn(&Case, usize, &mut Out) -> bool + '_ {
    move |c, idx, out| {
        let dq = dynq(args);
        let r = check(c, &dq);
        for q in &r.dyn_quarantine {
            out.quarantined(idx, q);
        }
        if !r.dyn_quarantine.is_empty() {
            return false;
        }
        for f in c.prog.iter().flat_map(|p| p.features.iter()) {
            out.count(&format!("feature:{f}"), 1);
        }
        out.count("samples_compared", r.samples_compared as u64);
        out.count("state_words_compared", r.state_words_compared as u64);
        if r.both_rejected {
            out.count("both_backends_refused_alike", 1);
        }
        let origin = c.origin.as_deref().unwrap_or("generated");
        out.count(&format!("origin:{}", origin.split(':').next().unwrap_or("")), 1);
        if let Some(f) = origin.split(':').nth(1) {
            out.set("source_files", f);
        }
        report(out, idx, c, &r.violations, &|t| check(t, &dq).violations);
        r.nontrivial
    }
}

// ------------------------------------------------------------------ corpus

pub fn corpus_files(repo: &str) -> Vec<PathBuf> {
    let mut v = vec![];
    for d in ["lib", "examples", "crates/lib/mimium-test/tests/mmm"] {
        if let Ok(rd) = std::fs::read_dir(PathBuf::from(repo).join(d)) {
            let mut fs: Vec<PathBuf> =
                rd.filter_map(|e| e.ok()).map(|e| e.path()).filter(|p| p.extension().is_some_and(|x| x == "mmm")).collect();
            fs.sort();
            v.extend(fs);
        }
    }
    // hand-written programs for feature combinations the typed generator does not build
    // (recursion through closures, scheduler ties, auto-spread of stateful functions, sum types ...)
    if let Ok(rd) = std::fs::read_dir(verif_dir().join("corpus/programs")) {
        let mut fs: Vec<PathBuf> =
            rd.filter_map(|e| e.ok()).map(|e| e.path()).filter(|p| p.extension().is_some_and(|x| x == "mmm")).collect();
        fs.sort();
        v.extend(fs);
    }
    v
}

/// the verification directory (set by ./check; falls back to the crate's parent)
pub fn verif_dir() -> PathBuf {
    match std::env::var_os("MMV_VERIF") {
        Some(d) => PathBuf::from(d),
        None => PathBuf::from(env!("CARGO_MANIFEST_DIR")).join(".."),
    }
}

/// token-level mutations that often still compile: swap an operator, perturb a number literal
/// does some `fn name(..)` / `letrec name` of the text mention its own name again (recursion)?
pub fn has_self_recursion(src: &str) -> bool {
    for kw in ["fn ", "letrec "] {
        for (i, _) in src.match_indices(kw) {
            let rest = &src[i + kw.len()..];
            let name: String = rest.chars().take_while(|c| c.is_alphanumeric() || *c == '_').collect();
            if name.is_empty() {
                continue;
            }
            let call = format!("{name}(");
            if src.matches(&call).count() >= 2 || (kw == "letrec " && src.matches(&call).count() >= 1) {
                // fn: its declaration plus at least one call; the call may be the recursive one
                let decl_end = i + kw.len() + name.len();
                if src[decl_end..].contains(&call) && src[decl_end..].find(&call).is_some_and(|p| {
                    // inside the function's own body: before the next top-level `fn `
                    let next_fn = src[decl_end..].find("\nfn ").unwrap_or(usize::MAX);
                    p < next_fn
                }) {
                    return true;
                }
            }
        }
    }
    false
}

/// Operator / constant mutations. Texts with a recursive function are returned unchanged: turning
/// `n - 1` into `n + 1` there makes the source-level meaning diverge (stated exclusion, DESIGN 3a).
pub fn mutate_source(src: &str, rng: &mut Rng) -> String {
    if has_self_recursion(src) {
        return src.to_string();
    }
    let bytes = src.as_bytes();
    let mut sites: Vec<(usize, usize, String)> = vec![];
    let mut i = 0;
    while i < bytes.len() {
        let c = bytes[i] as char;
        if c.is_ascii_digit() && (i == 0 || !(bytes[i - 1] as char).is_ascii_alphanumeric() && bytes[i - 1] != b'_' && bytes[i - 1] != b'.') {
            let mut j = i;
            while j < bytes.len() && ((bytes[j] as char).is_ascii_digit() || bytes[j] == b'.') {
                j += 1;
            }
            let lit = &src[i..j];
            if lit.matches('.').count() <= 1 && !lit.ends_with('.') {
                let repl = ["0", "1", "2", "0.5", "3", "7", "0.25", "100", "0.001"];
                sites.push((i, j, rng.pick(&repl).to_string()));
            }
            i = j;
            continue;
        }
        for (op, alts) in [("+", vec!["-", "*"]), ("-", vec!["+", "*"]), ("*", vec!["+", "/"]), ("/", vec!["*", "%"]), ("<", vec![">", "<="]), (">", vec!["<", ">="])] {
            if src[i..].starts_with(op)
                && i + 1 < bytes.len()
                && bytes[i + 1] == b' '
                && i > 0
                && bytes[i - 1] == b' '
            {
                sites.push((i, i + op.len(), rng.pick(&alts).to_string()));
            }
        }
        i += 1;
    }
    if sites.is_empty() {
        return src.to_string();
    }
    let mut s = src.to_string();
    let k = 1 + rng.below(2);
    let mut chosen: Vec<(usize, usize, String)> = (0..k).map(|_| rng.pick(&sites).clone()).collect();
    chosen.sort_by(|a, b| b.0.cmp(&a.0));
    chosen.dedup_by(|a, b| a.0 == b.0);
    for (a, b, r) in chosen {
        s.replace_range(a..b, &r);
    }
    s
}

fn corpus_case(args: &Args, file: &PathBuf, rng: &mut Rng, mutate: bool) -> Option<Case> {
    let src = std::fs::read_to_string(file).ok()?;
    let name = file.file_name()?.to_string_lossy().to_string();
    // device / file / GUI plugins are out of scope (no devices here)
    for bad in ["Sampler", "sampler", "midi", "Slider", "Probe", "loadwav", "gen_sampler", "osc_", "#include", "include("] {
        if src.contains(bad) {
            return None;
        }
    }
    if args.q(&format!("corpus:{name}")) {
        return None;
    }
    if mutate && args.q("default-args-dotdot") && src.contains("..}") {
        // mutating the numbers of an incomplete record literal lands in the known `..` defect
        return None;
    }
    let src = if mutate { mutate_source(&src, rng) } else { src };
    Some(Case {
        src,
        n: *rng.pick(&[4usize, 16, 48]),
        input_seed: rng.next(),
        finite_inputs: rng.chance(1, 2),
        prog: None,
        expect: None,
        scheduler: true,
        path: Some(file.to_string_lossy().to_string()),
        origin: Some(if mutate { format!("mutant:{name}") } else { format!("corpus:{name}") }),
        split: None,
    })
}

pub fn meta(args: &Args) -> Value {
    json!({
        "level": "exploration",
        "rule": "differential VM vs WASM through the CLI's code path (ExecContext / emit_wasm -> RuntimeData -> LocalBufferDriver::init, per sample set_input + run_dsp + get_output): (a) generated core-language programs with all features and dsp input streams including NaN, +-inf, -0.0, subnormals, 1e308; (b) every shipped source under lib/, examples/, tests/mmm that needs no device/file plugin, with the scheduler plugin; (c) operator/constant mutations of (b). Compared: accept/reject, channel counts, every output word bitwise (NaN==NaN), dsp return codes, flat dsp state words after every sample. Non-trivial = both back ends ran and the output stream has at least two distinct values; distinct = hash of program text + run parameters. Programs both back ends refuse alike are counted, not judged.",
        "assumptions": ["sample rate 48000 via Driver::init on both sides", "plugins other than scheduler/audio-driver builtins out of scope", "cases listed under a dynamic quarantine (decided on the reference execution) take no part in the verdict and are counted"],
        "floor": {"quick": 60, "thorough": 3000},
        "case_timeout_s": 40,
        "hang_is_violation": false,
        "crash_is_violation": false,
        "budget_quick": args.cases(500, 30000),
    })
}

pub fn run(args: &Args, out: &mut Out) {
    let files = corpus_files(&args.repo);
    let ncorpus = files.len();
    let nmut = if args.thorough() { ncorpus * 8 } else { ncorpus / 2 };
    let ngen = args.cases(360, 30000);
    let fam = super::progcase::family_cases();
    let total = ncorpus + nmut + ngen + fam.len();
    let exec = exec_with(args);
    drive(
        args,
        out,
        total,
        |idx, rng| {
            if idx >= ncorpus + nmut + ngen {
                return fam.get(idx - ncorpus - nmut - ngen).cloned();
            }
            if idx < ncorpus {
                corpus_case(args, &files[idx], rng, false)
            } else if idx < ncorpus + nmut {
                let f = &files[rng.below(ncorpus.max(1))];
                corpus_case(args, f, rng, true)
            } else {
                let finite = rng.chance(1, 2);
                Some(gen_case(args, rng, finite))
            }
        },
        exec,
    );
}

pub fn replay(args: &Args, out: &mut Out, case: &Value) {
    let exec = exec_with(args);
    replay_one::<Case>(out, case, exec);
}
