//! C01 — not implemented yet.
use crate::util::{Args, Out};
use serde_json::{Value, json};

pub fn meta(_args: &Args) -> Value {
    json!({"level": "exploration", "rule": "not implemented", "floor": {"quick": 1000000, "thorough": 1000000}})
}
pub fn run(_args: &Args, _out: &mut Out) {}
pub fn replay(_args: &Args, _out: &mut Out, _case: &Value) {}
