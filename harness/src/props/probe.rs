//! Developer tool: run a source file on both back ends and print outputs.
use crate::run::{Backend, run_program};
use crate::util::Args;

pub fn main(args: &Args) {
    if args.extra.contains_key("keylayout") {
        use mimium_lang::runtime::vm::heap::{HeapObject, HeapStorage};
        let mut h = HeapStorage::default();
        let k1 = h.insert(HeapObject::new(1));
        let k2 = h.insert(HeapObject::new(1));
        let r1: u64 = unsafe { std::mem::transmute_copy(&k1) };
        let r2: u64 = unsafe { std::mem::transmute_copy(&k2) };
        println!("k1 transmuted = {r1:#x}, k2 = {r2:#x}");
        h.remove(k1);
        let k3 = h.insert(HeapObject::new(1));
        let r3: u64 = unsafe { std::mem::transmute_copy(&k3) };
        println!("k3 (reuses slot of k1) = {r3:#x}");
        return;
    }
    let file = args.extra.get("file").expect("--file");
    let n: usize = args.extra.get("n").map(|s| s.parse().unwrap()).unwrap_or(8);
    let sched = args.extra.get("sched").map(|s| s == "1").unwrap_or(false);
    let src = std::fs::read_to_string(file).unwrap();
    let inp = |t: usize, c: usize| (t as f64) * 0.5 + c as f64;
    if args.extra.contains_key("bytecode") {
        match crate::run::Session::build(Backend::Vm, &src, sched, Some(std::path::PathBuf::from(file))) {
            Ok(s) => println!("{}", s.vm().unwrap().prog),
            Err(e) => println!("{}", e.short()),
        }
        return;
    }
    if args.extra.contains_key("counts") {
        for b in [Backend::Vm, Backend::Wasm] {
            match crate::run::Session::build(b, &src, sched, Some(std::path::PathBuf::from(file))) {
                Ok(mut s) => {
                    let mut v = vec![];
                    for t in 0..n {
                        let _ = s.step(&vec![0.5; s.io.input as usize]);
                        if t == 0 || t + 1 == n / 2 || t + 1 == n {
                            v.push((t + 1, s.live_counts()));
                        }
                    }
                    println!("{} (closures, heap, arrays) at samples: {:?}", b.name(), v);
                }
                Err(e) => println!("{}: {}", b.name(), e.short()),
            }
        }
        return;
    }
    if args.extra.contains_key("trace") {
        use mimium_lang::verif;
        verif::configure(verif::Config { record_state: true, assert_bounds: false, step_budget: 0 });
        for b in [Backend::Vm, Backend::Wasm] {
            let _ = verif::take_state_events();
            match crate::run::Session::build(b, &src, sched, Some(std::path::PathBuf::from(file))) {
                Ok(mut s) => {
                    println!("{} skeleton: {:?}", b.name(), s.skeleton);
                    let _ = verif::take_state_events();
                    for t in 0..n.min(3) {
                        let r = s.step(&vec![0.5; s.io.input as usize]);
                        println!("  sample {t}: {:?}", r.map(|x| x.out));
                        for e in verif::take_state_events() {
                            println!("     {:?} ctx={} pos={} size={} len={}", e.kind, e.ctx_fn, e.pos, e.size, e.len);
                        }
                        println!("     words: {:?}", s.state_words());
                    }
                }
                Err(e) => println!("{}: {}", b.name(), e.short()),
            }
        }
        return;
    }
    for b in [Backend::Vm, Backend::Wasm] {
        let path = Some(std::path::PathBuf::from(file));
        match run_program(b, &src, sched, n, &inp, true, path) {
            Ok(r) => {
                println!("{}: ch={} out={:?}", b.name(), r.channels, r.out);
                println!("   state_last={:?} total={:?}", r.states.last(), r.total_state_size);
            }
            Err(e) => {
                println!("{}: ERR {}", b.name(), e.short());
                if let crate::run::RunError::Build(crate::run::BuildError::Rejected(ds)) = &e {
                    for d in ds {
                        println!("   diag: {}", d.message);
                        for (s0, e0, _p, m) in &d.labels {
                            let a = (*s0).min(src.len());
                            let bb = (*e0).min(src.len()).max(a);
                            println!("      [{s0}..{e0}] {m:?} text={:?}", src.get(a..bb));
                        }
                    }
                }
            }
        }
    }
}
