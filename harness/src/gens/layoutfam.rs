//! Enumerated family "every state word is audible": one stateful function whose `self` has a
//! given (nested) tuple shape, read through a pattern down to the float leaves and written back
//! with a distinct increment per leaf, next to another state cell (counter / mem / delay) placed
//! before or after it in the function itself or in the caller, with one or two call sites. The
//! dsp result mixes every leaf of every site and the neighbouring cell with distinct weights, so
//! a cell that is too small, too large, misplaced or shared with its neighbour changes a sample.
//! Built as G-AST: the reference interpreter is the oracle (C02); C01 / C05 run the same texts.

use super::core::{BinOp, Block, CallStyle, E, FnDef, Param, Pat, Program, Stmt, Ty};

fn f() -> Ty {
    Ty::F
}
fn t(v: Vec<Ty>) -> Ty {
    Ty::Tup(v)
}

pub fn shapes() -> Vec<(&'static str, Ty)> {
    vec![
        ("f", f()),
        ("ff", t(vec![f(), f()])),
        ("fff", t(vec![f(), f(), f()])),
        ("(ff)f", t(vec![t(vec![f(), f()]), f()])),
        ("f(ff)", t(vec![f(), t(vec![f(), f()])])),
        ("(ff)(ff)", t(vec![t(vec![f(), f()]), t(vec![f(), f()])])),
        ("f((ff)f)", t(vec![f(), t(vec![t(vec![f(), f()]), f()])])),
        ("((ff)f)f", t(vec![t(vec![t(vec![f(), f()]), f()]), f()])),
    ]
}

#[derive(Clone, Copy, PartialEq, Debug)]
pub enum Neighbour {
    None,
    Counter,
    Mem,
    Delay,
}
#[derive(Clone, Copy, PartialEq, Debug)]
pub enum Place {
    /// in the stateful function, after `self` was read
    InFn,
    /// in dsp, before the call
    CallerBefore,
    /// in dsp, after the call(s)
    CallerAfter,
}

struct B {
    site: u32,
    var: u32,
}
impl B {
    fn site(&mut self) -> u32 {
        self.site += 1;
        self.site
    }
    fn var(&mut self, p: &str) -> String {
        self.var += 1;
        format!("{p}{}", self.var)
    }
    /// pattern down to the leaves; returns the leaf variable names in layout order
    fn pat(&mut self, ty: &Ty, prefix: &str, leaves: &mut Vec<String>) -> Pat {
        match ty {
            Ty::Tup(ts) => Pat::Tup(ts.iter().map(|t| self.pat(t, prefix, leaves)).collect()),
            _ => {
                let n = self.var(prefix);
                leaves.push(n.clone());
                Pat::Var(n)
            }
        }
    }
    fn neighbour(&mut self, k: Neighbour) -> E {
        let x = E::Bin(BinOp::Add, Box::new(E::Now), Box::new(E::Num(1.0, false)));
        match k {
            Neighbour::None => E::Num(0.0, false),
            Neighbour::Counter => E::CallFn { name: "cnt".into(), args: vec![], style: CallStyle::Positional, site: self.site() },
            Neighbour::Mem => E::Mem(Box::new(x), self.site()),
            Neighbour::Delay => E::Delay(4, Box::new(x), Box::new(E::Num(2.0, false)), self.site()),
        }
    }
}

fn num(v: f64) -> E {
    E::Num(v, false)
}
fn var(n: &str) -> E {
    E::Var(n.to_string())
}
fn add(a: E, b: E) -> E {
    E::Bin(BinOp::Add, Box::new(a), Box::new(b))
}
fn mul(a: E, b: E) -> E {
    E::Bin(BinOp::Mul, Box::new(a), Box::new(b))
}

/// the value written back: leaf i becomes leaf_i + (i+1)*x (+ extra on leaf 0)
fn rebuild(ty: &Ty, leaves: &[String], i: &mut usize, extra: &Option<String>) -> E {
    match ty {
        Ty::Tup(ts) => E::Tuple(ts.iter().map(|t| rebuild(t, leaves, i, extra)).collect()),
        _ => {
            let k = *i;
            *i += 1;
            let mut e = add(var(&leaves[k]), mul(num((k + 1) as f64), var("x")));
            if k == 0
                && let Some(x) = extra
            {
                e = add(e, var(x));
            }
            e
        }
    }
}

pub fn build(shape: &Ty, nb: Neighbour, place: Place, sites: usize) -> Program {
    let mut b = B { site: 0, var: 0 };
    let cnt = FnDef {
        name: "cnt".into(),
        params: vec![],
        ret: Ty::F,
        ret_annot: false,
        body: Block { stmts: vec![], result: add(E::SelfE, num(1.0)) },
        stateful: true,
    };
    // acc
    let mut leaves = vec![];
    let mut stmts = vec![];
    let p = b.pat(shape, "s", &mut leaves);
    stmts.push(Stmt::Let(p, None, E::SelfE));
    let mut extra = None;
    if nb != Neighbour::None && place == Place::InFn {
        let v = b.var("nb");
        let e = b.neighbour(nb);
        stmts.push(Stmt::Let(Pat::Var(v.clone()), None, e));
        extra = Some(v);
    }
    let result = rebuild(shape, &leaves, &mut 0, &extra);
    let acc = FnDef {
        name: "acc".into(),
        params: vec![Param { name: "x".into(), ty: Ty::F, annot: false, default: None }],
        ret: shape.clone(),
        ret_annot: *shape != Ty::F,
        body: Block { stmts, result },
        stateful: true,
    };
    // dsp
    let mut stmts = vec![];
    let mut terms: Vec<E> = vec![];
    let mut weight = 1.0f64;
    let mut nbv = None;
    if nb != Neighbour::None && place == Place::CallerBefore {
        let v = b.var("nb");
        let e = b.neighbour(nb);
        stmts.push(Stmt::Let(Pat::Var(v.clone()), None, e));
        nbv = Some(v);
    }
    for s in 0..sites {
        let mut ls = vec![];
        let p = b.pat(shape, "r", &mut ls);
        let arg = if s == 0 { 1.0 } else { 0.5 };
        let call = E::CallFn { name: "acc".into(), args: vec![num(arg)], style: CallStyle::Positional, site: b.site() };
        stmts.push(Stmt::Let(p, None, call));
        for l in ls {
            terms.push(mul(var(&l), num(weight)));
            weight *= 8.0;
        }
    }
    if nb != Neighbour::None && place == Place::CallerAfter {
        let v = b.var("nb");
        let e = b.neighbour(nb);
        stmts.push(Stmt::Let(Pat::Var(v.clone()), None, e));
        nbv = Some(v);
    }
    if let Some(v) = nbv {
        terms.push(mul(var(&v), num(weight)));
    }
    let mut it = terms.into_iter();
    let first = it.next().unwrap();
    let result = it.fold(first, add);
    let dsp = FnDef { name: "dsp".into(), params: vec![], ret: Ty::F, ret_annot: false, body: Block { stmts, result }, stateful: true };
    let mut fns = vec![];
    if nb == Neighbour::Counter {
        fns.push(cnt);
    }
    fns.push(acc);
    Program {
        pre_globals: vec![],
        fns,
        globals: vec![],
        dsp,
        features: vec!["family:state-words-audible".into(), "self".into(), if *shape == Ty::F { "self".into() } else { "self_tuple".into() }],
    }
}

/// (tag, program) for every member of the family
pub fn family() -> Vec<(String, Program)> {
    let mut v = vec![];
    for (sn, sh) in shapes() {
        for sites in [1usize, 2] {
            v.push((format!("{sn}/alone/sites{sites}"), build(&sh, Neighbour::None, Place::InFn, sites)));
            for nb in [Neighbour::Counter, Neighbour::Mem, Neighbour::Delay] {
                for pl in [Place::InFn, Place::CallerBefore, Place::CallerAfter] {
                    v.push((format!("{sn}/{nb:?}/{pl:?}/sites{sites}"), build(&sh, nb, pl, sites)));
                }
            }
        }
    }
    v
}
