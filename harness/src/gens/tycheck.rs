//! Type checker for the G-AST (every binder carries its type, so this is plain
//! checking, no inference). Used to keep minimised witnesses inside the set of
//! well-typed programs the generator could have produced.

use super::core::*;
use std::collections::HashMap;

#[derive(Clone)]
struct Env {
    vars: Vec<(String, Ty)>,
}
impl Env {
    fn get(&self, n: &str) -> Option<&Ty> {
        self.vars.iter().rev().find(|v| v.0 == n).map(|v| &v.1)
    }
}

struct Ck<'p> {
    fns: HashMap<&'p str, &'p FnDef>,
    self_ty: Option<Ty>,
}

fn bind(p: &Pat, t: &Ty, env: &mut Env) -> Option<()> {
    match (p, t) {
        (Pat::Var(n), t) => {
            env.vars.push((n.clone(), t.clone()));
            Some(())
        }
        (Pat::Tup(ps), Ty::Tup(ts)) if ps.len() == ts.len() => {
            for (p, t) in ps.iter().zip(ts.iter()) {
                bind(p, t, env)?;
            }
            Some(())
        }
        (Pat::Rec(fs), Ty::Rec(ts)) => {
            for (f, b) in fs {
                let t = ts.iter().find(|x| &x.0 == f)?;
                env.vars.push((b.clone(), t.1.clone()));
            }
            Some(())
        }
        _ => None,
    }
}

/// record types are equal up to field order in literals; the generator keeps the
/// declared order in types, so compare as sets of (name,type) with equal length
fn same(a: &Ty, b: &Ty) -> bool {
    match (a, b) {
        (Ty::F, Ty::F) => true,
        (Ty::Tup(x), Ty::Tup(y)) => x.len() == y.len() && x.iter().zip(y).all(|(p, q)| same(p, q)),
        (Ty::Rec(x), Ty::Rec(y)) => {
            x.len() == y.len() && x.iter().all(|(n, t)| y.iter().any(|(m, u)| n == m && same(t, u)))
        }
        (Ty::Fun(a1, r1), Ty::Fun(a2, r2)) => {
            a1.len() == a2.len() && a1.iter().zip(a2).all(|(p, q)| same(p, q)) && same(r1, r2)
        }
        _ => false,
    }
}

impl<'p> Ck<'p> {
    fn block(&self, b: &Block, env: &Env) -> Option<Ty> {
        let mut env = env.clone();
        for s in &b.stmts {
            match s {
                Stmt::Let(p, annot, e) => {
                    let t = self.expr(e, &env)?;
                    if let Some(a) = annot
                        && !same(a, &t)
                    {
                        return None;
                    }
                    bind(p, &t, &mut env)?;
                }
                Stmt::Assign(n, e) => {
                    let t = self.expr(e, &env)?;
                    if !same(env.get(n)?, &t) || t != Ty::F {
                        return None;
                    }
                }
            }
        }
        self.expr(&b.result, &env)
    }
    fn float(&self, e: &E, env: &Env) -> Option<()> {
        (self.expr(e, env)? == Ty::F).then_some(())
    }
    fn call(&self, f: &FnDef, args: &[E], style: CallStyle, env: &Env) -> Option<Ty> {
        match (style, args.first()) {
            (CallStyle::Positional, _) => {
                if f.params.len() != args.len() {
                    return None;
                }
                for (p, a) in f.params.iter().zip(args) {
                    if !same(&p.ty, &self.expr(a, env)?) {
                        return None;
                    }
                }
            }
            (_, Some(E::Record(fs))) => {
                for p in &f.params {
                    match fs.iter().find(|x| x.0 == p.name) {
                        Some((_, a)) => {
                            if !same(&p.ty, &self.expr(a, env)?) {
                                return None;
                            }
                        }
                        None => {
                            p.default?;
                        }
                    }
                }
                if fs.iter().any(|(n, _)| !f.params.iter().any(|p| &p.name == n)) {
                    return None;
                }
            }
            _ => return None,
        }
        Some(f.ret.clone())
    }
    fn expr(&self, e: &E, env: &Env) -> Option<Ty> {
        Some(match e {
            E::Num(..) | E::Now | E::SampleRate => Ty::F,
            E::Var(n) => env.get(n)?.clone(),
            E::Bin(_, a, b) => {
                self.float(a, env)?;
                self.float(b, env)?;
                Ty::F
            }
            E::Neg(a) | E::Not(a) | E::Mem(a, _) => {
                self.float(a, env)?;
                Ty::F
            }
            E::Builtin(n, args) => {
                let arity = if matches!(n.as_str(), "min" | "max") { 2 } else { 1 };
                if args.len() != arity {
                    return None;
                }
                for a in args {
                    self.float(a, env)?;
                }
                Ty::F
            }
            E::CallFn { name, args, style, .. } => self.call(self.fns.get(name.as_str())?, args, *style, env)?,
            E::PipeFn { arg, name, .. } => {
                let f = self.fns.get(name.as_str())?;
                if f.params.len() != 1 || !same(&f.params[0].ty, &self.expr(arg, env)?) {
                    return None;
                }
                f.ret.clone()
            }
            E::CallVal(f, args) => match self.expr(f, env)? {
                Ty::Fun(ps, r) if ps.len() == args.len() => {
                    for (p, a) in ps.iter().zip(args) {
                        if !same(p, &self.expr(a, env)?) {
                            return None;
                        }
                    }
                    *r
                }
                _ => return None,
            },
            E::PipeVal(arg, f) => match self.expr(f, env)? {
                Ty::Fun(ps, r) if ps.len() == 1 && same(&ps[0], &self.expr(arg, env)?) => *r,
                _ => return None,
            },
            E::If(c, a, b) => {
                self.float(c, env)?;
                let ta = self.expr(a, env)?;
                let tb = self.expr(b, env)?;
                if !same(&ta, &tb) {
                    return None;
                }
                ta
            }
            E::Tuple(es) => {
                if es.len() < 2 {
                    return None;
                }
                Ty::Tup(es.iter().map(|x| self.expr(x, env)).collect::<Option<Vec<_>>>()?)
            }
            E::Proj(t, i) => match self.expr(t, env)? {
                Ty::Tup(ts) => ts.get(*i)?.clone(),
                _ => return None,
            },
            E::Record(fs) => {
                if fs.is_empty() {
                    return None;
                }
                Ty::Rec(fs.iter().map(|(n, x)| Some((n.clone(), self.expr(x, env)?))).collect::<Option<Vec<_>>>()?)
            }
            E::Field(r, f) => match self.expr(r, env)? {
                Ty::Rec(ts) => ts.iter().find(|x| &x.0 == f)?.1.clone(),
                _ => return None,
            },
            E::Lambda(ps, body) => {
                let mut inner = env.clone();
                for p in ps {
                    inner.vars.push((p.name.clone(), p.ty.clone()));
                }
                let no_self = Ck { fns: self.fns.clone(), self_ty: None };
                let r = no_self.block(body, &inner)?;
                Ty::Fun(ps.iter().map(|p| p.ty.clone()).collect(), Box::new(r))
            }
            E::FnRef(n) => {
                let f = self.fns.get(n.as_str())?;
                if f.stateful || f.params.iter().any(|p| p.default.is_some()) {
                    return None;
                }
                Ty::Fun(f.params.iter().map(|p| p.ty.clone()).collect(), Box::new(f.ret.clone()))
            }
            E::Block(b) => self.block(b, env)?,
            E::SelfE => self.self_ty.clone()?,
            E::Delay(n, x, t, _) => {
                if *n < 2 {
                    return None;
                }
                self.float(x, env)?;
                self.float(t, env)?;
                Ty::F
            }
        })
    }
}

/// Is `p` a well-typed program of the generated language (dsp returns a float or a flat tuple of floats)?
pub fn well_typed(p: &Program) -> bool {
    let mut fns: HashMap<&str, &FnDef> = HashMap::new();
    let mut genv = Env { vars: vec![] };
    fn ck<'a>(fns: &HashMap<&'a str, &'a FnDef>, self_ty: Option<Ty>) -> Ck<'a> {
        Ck { fns: fns.clone(), self_ty }
    }
    for (n, t, e) in &p.pre_globals {
        match ck(&fns, None).expr(e, &genv) {
            Some(te) if same(&te, t) => genv.vars.push((n.clone(), t.clone())),
            _ => return false,
        }
    }
    for f in &p.fns {
        let mut env = genv.clone();
        for prm in &f.params {
            env.vars.push((prm.name.clone(), prm.ty.clone()));
        }
        // a function may call itself (bounded recursion helper)
        let mut fns2 = fns.clone();
        fns2.insert(f.name.as_str(), f);
        let self_ty = if f.ret.is_data() { Some(f.ret.clone()) } else { None };
        match ck(&fns2, self_ty).block(&f.body, &env) {
            Some(t) if same(&t, &f.ret) => {}
            _ => return false,
        }
        fns.insert(f.name.as_str(), f);
    }
    for (n, t, e) in &p.globals {
        match ck(&fns, None).expr(e, &genv) {
            Some(te) if same(&te, t) => genv.vars.push((n.clone(), t.clone())),
            _ => return false,
        }
    }
    let mut env = genv.clone();
    for prm in &p.dsp.params {
        env.vars.push((prm.name.clone(), prm.ty.clone()));
    }
    let ok_ret = match &p.dsp.ret {
        Ty::F => true,
        Ty::Tup(ts) => ts.iter().all(|t| *t == Ty::F),
        _ => false,
    };
    if !ok_ret {
        return false;
    }
    matches!(ck(&fns, Some(p.dsp.ret.clone())).block(&p.dsp.body, &env), Some(t) if same(&t, &p.dsp.ret))
}
