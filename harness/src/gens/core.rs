//! Core-language program generator: its own AST (G-AST), a printer to mimium
//! source and a typed, feature-switchable random generator. The reference
//! interpreter (`refsem`) evaluates the same G-AST; nothing here shares code with
//! the compiler under test.

use crate::util::Rng;
use serde::{Deserialize, Serialize};

#[derive(Clone, Debug, PartialEq, Serialize, Deserialize)]
pub enum Ty {
    F,
    Tup(Vec<Ty>),
    Rec(Vec<(String, Ty)>),
    Fun(Vec<Ty>, Box<Ty>),
}

impl Ty {
    pub fn print(&self) -> String {
        match self {
            Ty::F => "float".into(),
            Ty::Tup(v) => format!("({})", v.iter().map(|t| t.print()).collect::<Vec<_>>().join(",")),
            Ty::Rec(v) => format!(
                "{{{}}}",
                v.iter().map(|(n, t)| format!("{n}:{}", t.print())).collect::<Vec<_>>().join(", ")
            ),
            Ty::Fun(a, r) => {
                format!("({})->{}", a.iter().map(|t| t.print()).collect::<Vec<_>>().join(","), r.print())
            }
        }
    }
    pub fn words(&self) -> usize {
        match self {
            Ty::F | Ty::Fun(..) => 1,
            Ty::Tup(v) => v.iter().map(|t| t.words()).sum(),
            Ty::Rec(v) => v.iter().map(|(_, t)| t.words()).sum(),
        }
    }
    pub fn is_data(&self) -> bool {
        match self {
            Ty::F => true,
            Ty::Tup(v) => v.iter().all(|t| t.is_data()),
            Ty::Rec(v) => v.iter().all(|(_, t)| t.is_data()),
            Ty::Fun(..) => false,
        }
    }
}

#[derive(Clone, Copy, Debug, PartialEq, Eq, Hash, Serialize, Deserialize)]
pub enum BinOp {
    Add,
    Sub,
    Mul,
    Div,
    Mod,
    Pow,
    Lt,
    Le,
    Gt,
    Ge,
    Eq,
    Ne,
    And,
    Or,
}
impl BinOp {
    pub fn sym(self) -> &'static str {
        match self {
            BinOp::Add => "+",
            BinOp::Sub => "-",
            BinOp::Mul => "*",
            BinOp::Div => "/",
            BinOp::Mod => "%",
            BinOp::Pow => "^",
            BinOp::Lt => "<",
            BinOp::Le => "<=",
            BinOp::Gt => ">",
            BinOp::Ge => ">=",
            BinOp::Eq => "==",
            BinOp::Ne => "!=",
            BinOp::And => "&&",
            BinOp::Or => "||",
        }
    }
}

#[derive(Clone, Debug, PartialEq, Serialize, Deserialize)]
pub enum Pat {
    Var(String),
    Tup(Vec<Pat>),
    /// record pattern `{field = binder, ..}`
    Rec(Vec<(String, String)>),
}

#[derive(Clone, Debug, PartialEq, Serialize, Deserialize)]
pub struct Param {
    pub name: String,
    pub ty: Ty,
    /// print the type annotation
    pub annot: bool,
    pub default: Option<f64>,
}

/// How a call's arguments are written.
#[derive(Clone, Copy, Debug, PartialEq, Eq, Serialize, Deserialize)]
pub enum CallStyle {
    Positional,
    /// `f({a = e, b = e})` naming every non-defaulted parameter, defaulted ones omitted
    RecordOmitDefaults,
    /// `f({a = e, ..})`
    RecordDotDot,
}

#[derive(Clone, Debug, PartialEq, Serialize, Deserialize)]
pub enum E {
    /// literal; `int_spelling` prints `3` instead of `3.0`
    Num(f64, bool),
    Var(String),
    Bin(BinOp, Box<E>, Box<E>),
    Neg(Box<E>),
    Not(Box<E>),
    /// math builtin by name
    Builtin(String, Vec<E>),
    /// call of a named global function; `site` identifies the textual call site
    CallFn { name: String, args: Vec<E>, style: CallStyle, site: u32 },
    /// call of a function value held in a variable / produced by an expression
    CallVal(Box<E>, Vec<E>),
    /// `arg |> f` with a named global function (site as for CallFn)
    PipeFn { arg: Box<E>, name: String, site: u32 },
    /// `arg |> v` with a function value in a variable
    PipeVal(Box<E>, Box<E>),
    If(Box<E>, Box<E>, Box<E>),
    Tuple(Vec<E>),
    Proj(Box<E>, usize),
    Record(Vec<(String, E)>),
    Field(Box<E>, String),
    Lambda(Vec<Param>, Box<Block>),
    /// reference to a named global function used as a value
    FnRef(String),
    Block(Box<Block>),
    SelfE,
    Mem(Box<E>, u32),
    /// delay(n, input, time)
    Delay(u32, Box<E>, Box<E>, u32),
    Now,
    SampleRate,
}

#[derive(Clone, Debug, PartialEq, Serialize, Deserialize)]
pub enum Stmt {
    Let(Pat, Option<Ty>, E),
    Assign(String, E),
}

#[derive(Clone, Debug, PartialEq, Serialize, Deserialize)]
pub struct Block {
    pub stmts: Vec<Stmt>,
    pub result: E,
}

#[derive(Clone, Debug, PartialEq, Serialize, Deserialize)]
pub struct FnDef {
    pub name: String,
    pub params: Vec<Param>,
    pub ret: Ty,
    pub ret_annot: bool,
    pub body: Block,
    /// uses self/mem/delay or calls a stateful function
    pub stateful: bool,
}

#[derive(Clone, Debug, PartialEq, Serialize, Deserialize)]
pub struct Program {
    /// top-level data `let`s printed before the functions (functions may read them)
    pub pre_globals: Vec<(String, Ty, E)>,
    pub fns: Vec<FnDef>,
    /// top-level `let name = expr`, evaluated once, after the functions are defined
    pub globals: Vec<(String, Ty, E)>,
    pub dsp: FnDef,
    /// features exercised (for evidence)
    pub features: Vec<String>,
}

// ------------------------------------------------------------------ printer

pub fn fmt_num(v: f64, int_spelling: bool) -> String {
    if int_spelling && v.fract() == 0.0 && v.abs() < 1e9 && v >= 0.0 {
        format!("{}", v as i64)
    } else {
        let s = format!("{v:?}");
        // no exponent syntax in the language: Display never uses one and still round-trips
        if s.contains('e') { format!("{v}") } else { s }
    }
}

pub struct Printer {
    pub out: String,
    indent: usize,
    /// when set, expressions are wrapped in redundant parentheses pseudo-randomly (C16)
    pub paren_state: Option<u64>,
}

impl Printer {
    pub fn new() -> Self {
        Printer { out: String::new(), indent: 0, paren_state: None }
    }
    fn nl(&mut self) {
        self.out.push('\n');
        for _ in 0..self.indent {
            self.out.push_str("  ");
        }
    }
    pub fn pat(p: &Pat) -> String {
        match p {
            Pat::Var(v) => v.clone(),
            Pat::Tup(v) => format!("({})", v.iter().map(Self::pat).collect::<Vec<_>>().join(", ")),
            Pat::Rec(v) => {
                format!("{{{}}}", v.iter().map(|(f, b)| format!("{f} = {b}")).collect::<Vec<_>>().join(", "))
            }
        }
    }
    fn params(ps: &[Param]) -> String {
        ps.iter()
            .map(|p| {
                let mut s = p.name.clone();
                if p.annot {
                    s.push(':');
                    s.push_str(&p.ty.print());
                }
                if let Some(d) = p.default {
                    s.push_str(" = ");
                    s.push_str(&fmt_num(d, false));
                }
                s
            })
            .collect::<Vec<_>>()
            .join(", ")
    }
    pub fn block(&mut self, b: &Block) {
        self.out.push('{');
        self.indent += 1;
        for s in &b.stmts {
            self.nl();
            match s {
                Stmt::Let(p, t, e) => {
                    self.out.push_str("let ");
                    self.out.push_str(&Self::pat(p));
                    if let Some(t) = t {
                        self.out.push(':');
                        self.out.push_str(&t.print());
                    }
                    self.out.push_str(" = ");
                    self.expr(e);
                }
                Stmt::Assign(n, e) => {
                    self.out.push_str(n);
                    self.out.push_str(" = ");
                    self.expr(e);
                }
            }
        }
        self.nl();
        self.expr(&b.result);
        self.indent -= 1;
        self.nl();
        self.out.push('}');
    }
    fn args(&mut self, args: &[E]) {
        for (i, a) in args.iter().enumerate() {
            if i > 0 {
                self.out.push_str(", ");
            }
            self.expr(a);
        }
    }
    pub fn expr(&mut self, e: &E) {
        let wrap = match self.paren_state.as_mut() {
            Some(st) => {
                *st = st.wrapping_mul(6364136223846793005).wrapping_add(1442695040888963407);
                (*st >> 33) % 5 == 0
            }
            None => false,
        };
        if wrap {
            self.out.push('(');
            self.expr_inner(e);
            self.out.push(')');
        } else {
            self.expr_inner(e);
        }
    }
    fn expr_inner(&mut self, e: &E) {
        match e {
            E::Num(v, i) => self.out.push_str(&fmt_num(*v, *i)),
            E::Var(v) => self.out.push_str(v),
            E::Bin(op, a, b) => {
                self.out.push('(');
                self.expr(a);
                self.out.push(' ');
                self.out.push_str(op.sym());
                self.out.push(' ');
                self.expr(b);
                self.out.push(')');
            }
            E::Neg(a) => {
                self.out.push_str("(-");
                self.expr(a);
                self.out.push(')');
            }
            E::Not(a) => {
                self.out.push_str("not(");
                self.expr(a);
                self.out.push(')');
            }
            E::Builtin(n, args) => {
                self.out.push_str(n);
                self.out.push('(');
                self.args(args);
                self.out.push(')');
            }
            E::CallFn { name, args, style, .. } => {
                self.out.push_str(name);
                self.out.push('(');
                match (style, args.first()) {
                    (CallStyle::Positional, _) => self.args(args),
                    (_, Some(E::Record(fs))) => {
                        self.out.push('{');
                        for (i, (n, v)) in fs.iter().enumerate() {
                            if i > 0 {
                                self.out.push_str(", ");
                            }
                            self.out.push_str(n);
                            self.out.push_str(" = ");
                            self.expr(v);
                        }
                        if *style == CallStyle::RecordDotDot {
                            self.out.push_str(if fs.is_empty() { ".." } else { ", .." });
                        }
                        self.out.push('}');
                    }
                    _ => self.args(args),
                }
                self.out.push(')');
            }
            E::CallVal(f, args) => {
                match **f {
                    E::Var(_) => self.expr(f),
                    _ => {
                        self.out.push('(');
                        self.expr(f);
                        self.out.push(')');
                    }
                }
                self.out.push('(');
                self.args(args);
                self.out.push(')');
            }
            E::PipeFn { arg, name, .. } => {
                self.out.push('(');
                self.expr(arg);
                self.out.push_str(" |> ");
                self.out.push_str(name);
                self.out.push(')');
            }
            E::PipeVal(arg, f) => {
                self.out.push('(');
                self.expr(arg);
                self.out.push_str(" |> ");
                self.expr(f);
                self.out.push(')');
            }
            E::If(c, a, b) => {
                self.out.push_str("(if (");
                self.expr(c);
                self.out.push_str(") ");
                self.arm(a);
                self.out.push_str(" else ");
                self.arm(b);
                self.out.push(')');
            }
            E::Tuple(v) => {
                self.out.push('(');
                self.args(v);
                if v.len() == 1 {
                    self.out.push(',');
                }
                self.out.push(')');
            }
            E::Proj(t, i) => {
                self.atom(t);
                self.out.push('.');
                self.out.push_str(&i.to_string());
            }
            E::Record(fs) => {
                self.out.push('{');
                for (i, (n, v)) in fs.iter().enumerate() {
                    if i > 0 {
                        self.out.push_str(", ");
                    }
                    self.out.push_str(n);
                    self.out.push_str(" = ");
                    self.expr(v);
                }
                self.out.push('}');
            }
            E::Field(r, f) => {
                self.atom(r);
                self.out.push('.');
                self.out.push_str(f);
            }
            E::Lambda(ps, body) => {
                self.out.push('|');
                self.out.push_str(&Self::params(ps));
                self.out.push_str("| ");
                self.block(body);
            }
            E::FnRef(n) => self.out.push_str(n),
            E::Block(b) => self.block(b),
            E::SelfE => self.out.push_str("self"),
            E::Mem(a, _) => {
                self.out.push_str("mem(");
                self.expr(a);
                self.out.push(')');
            }
            E::Delay(n, x, t, _) => {
                self.out.push_str(&format!("delay({}, ", fmt_num(*n as f64, false)));
                self.expr(x);
                self.out.push_str(", ");
                self.expr(t);
                self.out.push(')');
            }
            E::Now => self.out.push_str("now"),
            E::SampleRate => self.out.push_str("samplerate"),
        }
    }
    fn atom(&mut self, e: &E) {
        match e {
            E::Var(_) | E::Proj(..) | E::Field(..) => self.expr(e),
            _ => {
                self.out.push('(');
                self.expr(e);
                self.out.push(')');
            }
        }
    }
    fn arm(&mut self, e: &E) {
        match e {
            E::Block(b) => self.block(b),
            _ => {
                self.out.push_str("{ ");
                self.expr(e);
                self.out.push_str(" }");
            }
        }
    }
    pub fn fndef(&mut self, f: &FnDef) {
        self.out.push_str("fn ");
        self.out.push_str(&f.name);
        self.out.push('(');
        self.out.push_str(&Self::params(&f.params));
        self.out.push(')');
        if f.ret_annot {
            self.out.push_str("->");
            self.out.push_str(&f.ret.print());
        }
        self.block(&f.body);
        self.out.push('\n');
    }
}

impl Program {
    pub fn print(&self) -> String {
        self.print_with(None)
    }
    pub fn print_with(&self, paren_state: Option<u64>) -> String {
        let mut p = Printer::new();
        p.paren_state = paren_state;
        for (n, _t, e) in &self.pre_globals {
            p.out.push_str("let ");
            p.out.push_str(n);
            p.out.push_str(" = ");
            p.expr(e);
            p.out.push('\n');
        }
        for f in &self.fns {
            p.fndef(f);
        }
        for (n, _t, e) in &self.globals {
            p.out.push_str("let ");
            p.out.push_str(n);
            p.out.push_str(" = ");
            p.expr(e);
            p.out.push('\n');
        }
        p.fndef(&self.dsp);
        p.out
    }
    pub fn find_fn(&self, name: &str) -> Option<&FnDef> {
        if name == "dsp" { Some(&self.dsp) } else { self.fns.iter().find(|f| f.name == name) }
    }
}

// ------------------------------------------------------------------ generator

/// Feature switches.
#[derive(Clone, Debug, Serialize, Deserialize)]
pub struct Feat {
    pub tuples: bool,
    pub records: bool,
    pub lambdas: bool,
    pub closures_assign: bool,
    pub escaping_closures: bool,
    pub hof: bool,
    pub pipes: bool,
    pub defaults: bool,
    /// `f({a = e, ..})` form for default arguments
    pub defaults_dotdot: bool,
    pub self_: bool,
    pub self_tuple: bool,
    pub mem: bool,
    pub delay: bool,
    pub now: bool,
    pub samplerate: bool,
    pub dsp_input: bool,
    pub math: bool,
    pub modulo: bool,
    pub pow: bool,
    pub div: bool,
    /// logic operators on arbitrary (possibly negative) operands
    pub raw_logic: bool,
    /// closure-valued variables used as values (aliases, arguments), not only called
    pub closure_alias: bool,
    /// delay times outside 1..n-1 (0, negative, >= n, fractional beyond the end): the statement
    /// of C02 leaves their meaning open, the back ends must still agree with each other
    pub hostile_delay_time: bool,
    /// stateful calls inside `if` arms
    pub branch_state: bool,
    /// a float-valued `let v = if (c) { <one stateful call / mem> } else { <literal> }` (or the arms
    /// swapped) as last statement of a stateful function: a cell that is not touched on every
    /// sample (lazily grown storages, hot swaps before the gate opens) outside the shapes of the
    /// `stateful-call-in-branch` defect class
    pub gated_state: bool,
    /// global data (tuples / numbers) read from functions
    pub globals: bool,
    /// many locals in one function (> 256 registers)
    pub many_locals: bool,
    /// bounded numeric recursion (stateless)
    pub recursion: bool,
    pub max_fns: usize,
    pub max_state_depth: usize,
    pub budget: usize,
    pub int_spelling: bool,
    pub annot_floats: bool,
    /// names of defect classes the generator must not produce (static quarantines)
    pub avoid: Vec<String>,
}

impl Feat {
    pub fn avoids(&self, q: &str) -> bool {
        self.avoid.iter().any(|x| x == q)
    }
}

impl Feat {
    pub fn all(budget: usize) -> Feat {
        Feat {
            tuples: true,
            records: true,
            lambdas: true,
            closures_assign: true,
            escaping_closures: true,
            hof: true,
            pipes: true,
            defaults: true,
            defaults_dotdot: false,
            self_: true,
            self_tuple: true,
            gated_state: false,
            mem: true,
            delay: true,
            now: true,
            samplerate: true,
            dsp_input: true,
            math: true,
            modulo: true,
            pow: true,
            div: true,
            raw_logic: false,
            closure_alias: true,
            hostile_delay_time: false,
            branch_state: false,
            globals: true,
            many_locals: false,
            recursion: true,
            max_fns: 6,
            max_state_depth: 3,
            budget,
            int_spelling: true,
            annot_floats: true,
            avoid: vec![],
        }
    }
}

#[derive(Clone, Debug)]
struct Sig {
    name: String,
    params: Vec<Param>,
    ret: Ty,
    stateful: bool,
    /// recursion helper: first param is the decreasing counter
    recursive: bool,
    /// height of the stateful call tree below this function (1 = only own cells)
    depth: usize,
}

#[derive(Clone)]
struct Scope {
    /// (name, type, assignable)
    vars: Vec<(String, Ty, bool)>,
}

pub struct Gen<'a> {
    rng: &'a mut Rng,
    pub feat: Feat,
    sigs: Vec<Sig>,
    globals: Vec<(String, Ty)>,
    next_name: u32,
    next_site: u32,
    used: std::collections::BTreeSet<String>,
    /// context flags
    stateful_ok: bool,
    in_lambda: u32,
    in_branch: u32,
    self_ty: Option<Ty>,
    state_depth_left: usize,
    used_state: bool,
    max_callee_depth: usize,
    in_aggregate: u32,
    /// >0: only side-effect-free, stateless expressions (evaluation order must not matter)
    pure_only: u32,
    /// >0: the expression being generated is an argument of a call
    fun_arg: u32,
}

const LITS: [f64; 22] = [
    0.0, 1.0, 2.0, 3.0, 4.0, 5.0, 7.0, 10.0, 0.5, 0.25, 0.1, 0.3, 1.5, 2.5, 0.01, 100.0, 0.999, 3.7, 12.0, 0.75, 6.0,
    0.2,
];
const MATH1: [&str; 9] = ["sin", "cos", "abs", "sqrt", "floor", "ceil", "round", "tanh", "atan"];
const MATH2: [&str; 2] = ["min", "max"];

impl<'a> Gen<'a> {
    pub fn new(rng: &'a mut Rng, feat: Feat) -> Self {
        Gen {
            rng,
            feat,
            sigs: vec![],
            globals: vec![],
            next_name: 0,
            next_site: 0,
            used: Default::default(),
            stateful_ok: false,
            in_lambda: 0,
            in_branch: 0,
            self_ty: None,
            state_depth_left: 0,
            used_state: false,
            max_callee_depth: 0,
            in_aggregate: 0,
            pure_only: 0,
            fun_arg: 0,
        }
    }
    fn branch_ok(&self) -> bool {
        !(self.in_aggregate > 0 && self.feat.avoids("if-inside-aggregate-literal"))
    }
    fn fresh(&mut self, prefix: &str) -> String {
        self.next_name += 1;
        format!("{prefix}{}", self.next_name)
    }
    fn site(&mut self) -> u32 {
        self.next_site += 1;
        self.next_site
    }
    fn mark(&mut self, f: &str) {
        self.used.insert(f.to_string());
    }
    fn lit(&mut self) -> E {
        let v = *self.rng.pick(&LITS);
        E::Num(v, self.feat.int_spelling && v.fract() == 0.0 && self.rng.chance(1, 2))
    }
    fn rand_data_ty(&mut self, depth: usize) -> Ty {
        let mut w = vec![6u32];
        w.push(if self.feat.tuples && depth < 2 { 2 } else { 0 });
        w.push(if self.feat.records && depth < 2 { 1 } else { 0 });
        match self.rng.weighted(&w) {
            0 => Ty::F,
            1 => {
                let n = self.rng.range(2, 3) as usize;
                Ty::Tup((0..n).map(|_| self.rand_data_ty(depth + 1)).collect())
            }
            _ => {
                let n = self.rng.range(1, 3) as usize;
                let mut names = vec!["p", "q", "r", "s"];
                self.rng.shuffle(&mut names);
                let mut names: Vec<&str> = names[..n].to_vec();
                // field order of record types is canonical (sorted), so that the
                // evaluation order of an unshuffled literal is not in question
                names.sort();
                Ty::Rec(names.iter().map(|n| (n.to_string(), self.rand_data_ty(depth + 1))).collect())
            }
        }
    }

    // ---- expressions

    fn vars_of<'s>(&self, sc: &'s Scope, ty: &Ty) -> Vec<&'s (String, Ty, bool)> {
        sc.vars.iter().filter(|v| &v.1 == ty).collect()
    }

    /// paths into data-typed variables yielding a float: (expr)
    fn float_paths(&self, sc: &Scope) -> Vec<E> {
        fn rec(base: E, ty: &Ty, out: &mut Vec<E>, depth: usize) {
            match ty {
                Ty::F => out.push(base),
                Ty::Tup(v) if depth < 3 => {
                    for (i, t) in v.iter().enumerate() {
                        rec(E::Proj(Box::new(base.clone()), i), t, out, depth + 1);
                    }
                }
                Ty::Rec(v) if depth < 3 => {
                    for (n, t) in v {
                        rec(E::Field(Box::new(base.clone()), n.clone()), t, out, depth + 1);
                    }
                }
                _ => {}
            }
        }
        let mut out = vec![];
        for (n, t, _) in &sc.vars {
            rec(E::Var(n.clone()), t, &mut out, 0);
        }
        if self.feat.globals {
            for (n, t) in &self.globals {
                rec(E::Var(n.clone()), t, &mut out, 0);
            }
        }
        out
    }

    fn state_allowed(&self) -> bool {
        self.stateful_ok && self.pure_only == 0 && self.in_lambda == 0 && (self.in_branch == 0 || self.feat.branch_state)
    }

    pub fn expr(&mut self, ty: &Ty, sc: &Scope, budget: &mut usize) -> E {
        if *budget > 0 {
            *budget -= 1;
        }
        match ty {
            Ty::F => self.expr_f(sc, budget),
            Ty::Tup(ts) => {
                let cands = self.vars_of(sc, ty).into_iter().map(|v| v.0.clone()).collect::<Vec<_>>();
                let mut w = vec![5u32, if cands.is_empty() { 0 } else { 3 }];
                // if / self / call returning this type
                w.push(if *budget > 4 && self.branch_ok() { 1 } else { 0 });
                w.push(
                    if self.self_ty.as_ref() == Some(ty) && self.state_allowed() && !self.feat.avoids("projection-from-self") {
                        3
                    } else {
                        0
                    },
                );
                let fns: Vec<Sig> = self.callable(ty);
                w.push(if !fns.is_empty() && *budget > 2 { 3 } else { 0 });
                match self.rng.weighted(&w) {
                    0 => {
                        self.mark("tuple");
                        self.in_aggregate += 1;
                        let r = E::Tuple(ts.iter().map(|t| self.expr(t, sc, budget)).collect());
                        self.in_aggregate -= 1;
                        r
                    }
                    1 => E::Var(self.rng.pick(&cands).clone()),
                    2 => self.if_expr(ty, sc, budget),
                    3 => {
                        self.mark("self_tuple");
                        self.used_state = true;
                        E::SelfE
                    }
                    _ => {
                        let s = self.rng.pick(&fns).clone();
                        self.call(&s, sc, budget)
                    }
                }
            }
            Ty::Rec(fs) => {
                let cands = self.vars_of(sc, ty).into_iter().map(|v| v.0.clone()).collect::<Vec<_>>();
                let fns: Vec<Sig> = self.callable(ty);
                let w = [5u32, if cands.is_empty() { 0 } else { 3 }, if !fns.is_empty() && *budget > 2 { 3 } else { 0 }];
                match self.rng.weighted(&w) {
                    0 => {
                        self.mark("record");
                        // field order in the literal may differ from the type's order
                        let mut idx: Vec<usize> = (0..fs.len()).collect();
                        let mut shuffled = false;
                        if self.rng.chance(1, 3) {
                            self.rng.shuffle(&mut idx);
                            if idx.iter().enumerate().any(|(i, j)| i != *j) {
                                self.mark("record_shuffled_literal");
                                shuffled = true;
                            }
                        }
                        // the compiler evaluates fields in canonical, not literal, order:
                        // keep the fields of a shuffled literal free of effects
                        self.in_aggregate += 1;
                        self.pure_only += shuffled as u32;
                        let r = E::Record(idx.iter().map(|&i| (fs[i].0.clone(), self.expr(&fs[i].1, sc, budget))).collect());
                        self.pure_only -= shuffled as u32;
                        self.in_aggregate -= 1;
                        r
                    }
                    1 => E::Var(self.rng.pick(&cands).clone()),
                    _ => {
                        let s = self.rng.pick(&fns).clone();
                        self.call(&s, sc, budget)
                    }
                }
            }
            Ty::Fun(args, ret) => {
                let arg_pure = self.fun_arg > 0 && self.feat.avoids("assign-in-closure-passed-as-argument");
                let cands = if arg_pure {
                    vec![]
                } else {
                    let no_globals = self.feat.avoids("closure-valued-global-as-value");
                    self.vars_of(sc, ty)
                        .into_iter()
                        .map(|v| v.0.clone())
                        // globals are named gN: with the quarantine they are only called, never used as values
                        .filter(|n| !(no_globals && n.starts_with('g')))
                        .filter(|_| self.feat.closure_alias)
                        .collect::<Vec<_>>()
                };
                self.pure_only += arg_pure as u32;
                let saved_fun_arg = std::mem::replace(&mut self.fun_arg, 0);
                let r = self.expr_fun(args, ret, ty, sc, budget, cands);
                self.fun_arg = saved_fun_arg;
                self.pure_only -= arg_pure as u32;
                r
            }
        }
    }

    fn expr_fun(&mut self, args: &[Ty], ret: &Ty, ty: &Ty, sc: &Scope, budget: &mut usize, cands: Vec<String>) -> E {
        let _ = ty;
        {
            {
                let named: Vec<String> = self
                    .sigs
                    .iter()
                    .filter(|s| {
                        !s.stateful
                            && !s.recursive
                            && &s.ret == ret
                            && s.params.len() == args.len()
                            && s.params.iter().zip(args.iter()).all(|(p, a)| &p.ty == a && p.default.is_none())
                    })
                    .map(|s| s.name.clone())
                    .collect();
                let w = [
                    if self.feat.lambdas { 4u32 } else { 0 },
                    if cands.is_empty() { 0 } else { 3 },
                    if named.is_empty() { 0 } else { 3 },
                ];
                if w.iter().sum::<u32>() == 0 {
                    return self.lambda(args, ret, sc, budget);
                }
                match self.rng.weighted(&w) {
                    0 => self.lambda(args, ret, sc, budget),
                    1 => E::Var(self.rng.pick(&cands).clone()),
                    _ => {
                        self.mark("fn_as_value");
                        E::FnRef(self.rng.pick(&named).clone())
                    }
                }
            }
        }
    }

    fn lambda(&mut self, args: &[Ty], ret: &Ty, sc: &Scope, budget: &mut usize) -> E {
        self.mark("lambda");
        let params: Vec<Param> = args
            .iter()
            .map(|t| Param {
                name: self.fresh("la"),
                ty: t.clone(),
                annot: *t != Ty::F || (self.feat.annot_floats && self.rng.chance(1, 3)),
                default: None,
            })
            .collect();
        let mut inner = sc.clone();
        if self.feat.avoids("capture-of-destructured-variable") {
            inner.vars.retain(|v| !(v.0.starts_with("dv") || v.0.starts_with("drb")));
        }
        if self.pure_only > 0 && self.feat.avoids("assign-in-closure-passed-as-argument") {
            // a closure passed as an argument closes its upvalues by copy on the VM: a variable it
            // captured and that is assigned later (by anybody) diverges. Such closures capture
            // only what can never be assigned.
            inner.vars.retain(|v| !v.2);
        }
        if self.feat.avoids("capture-of-parameter-after-aggregate-parameter") {
            // parameters (aN) that follow an aggregate-typed parameter are not captured
            let mut seen_aggregate = false;
            inner.vars.retain(|v| {
                let is_param = v.0.starts_with('a');
                let keep = !(is_param && seen_aggregate);
                if is_param && matches!(v.1, Ty::Tup(_) | Ty::Rec(_)) {
                    seen_aggregate = true;
                }
                keep
            });
        }
        if self.feat.avoids("capture-of-aggregate-parameter") {
            // function parameters are named aN (lambda parameters laN)
            inner.vars.retain(|v| !(v.0.starts_with('a') && matches!(v.1, Ty::Tup(_) | Ty::Rec(_))));
        }
        // captured variables stay visible (and assignable: closures share captured cells)
        for p in &params {
            inner.vars.push((p.name.clone(), p.ty.clone(), false));
        }
        self.in_lambda += 1;
        let saved_agg = std::mem::replace(&mut self.in_aggregate, 0);
        let saved_self = self.self_ty.take();
        let body = self.block(ret, &mut inner, budget, 2);
        self.self_ty = saved_self;
        self.in_aggregate = saved_agg;
        self.in_lambda -= 1;
        E::Lambda(params, Box::new(body))
    }

    fn callable(&self, ret: &Ty) -> Vec<Sig> {
        self.sigs
            .iter()
            .filter(|s| &s.ret == ret && !s.recursive && (!s.stateful || (self.state_allowed() && s.depth < self.state_depth_left)))
            .cloned()
            .collect()
    }

    fn call(&mut self, s: &Sig, sc: &Scope, budget: &mut usize) -> E {
        if s.stateful {
            self.used_state = true;
            self.max_callee_depth = self.max_callee_depth.max(s.depth);
            self.mark("stateful_call");
            if self.in_branch > 0 {
                self.mark("stateful_call_in_branch");
            }
        }
        let site = self.site();
        // defaults: choose record style when the callee has defaulted parameters
        let has_def = s.params.iter().any(|p| p.default.is_some());
        if has_def && self.rng.chance(2, 3) {
            self.mark("default_args");
            let dotdot = self.feat.defaults_dotdot && self.rng.chance(1, 2);
            let mut fields = vec![];
            self.in_aggregate += 1;
            self.pure_only += 1;
            for p in &s.params {
                if p.default.is_some() {
                    continue;
                }
                fields.push((p.name.clone(), self.expr(&p.ty, sc, budget)));
            }
            self.pure_only -= 1;
            self.in_aggregate -= 1;
            if dotdot {
                self.mark("default_args_dotdot");
            }
            return E::CallFn {
                name: s.name.clone(),
                args: vec![E::Record(fields)],
                style: if dotdot { CallStyle::RecordDotDot } else { CallStyle::RecordOmitDefaults },
                site,
            };
        }
        self.fun_arg += 1;
        let args: Vec<E> = s.params.iter().map(|p| self.expr(&p.ty, sc, budget)).collect();
        self.fun_arg -= 1;
        if self.feat.pipes && args.len() == 1 && self.rng.chance(1, 4) {
            self.mark("pipe");
            return E::PipeFn { arg: Box::new(args.into_iter().next().unwrap()), name: s.name.clone(), site };
        }
        E::CallFn { name: s.name.clone(), args, style: CallStyle::Positional, site }
    }

    fn if_expr(&mut self, ty: &Ty, sc: &Scope, budget: &mut usize) -> E {
        self.mark("if");
        let c = self.cond(sc, budget);
        self.in_branch += 1;
        let a = self.arm(ty, sc, budget);
        let b = self.arm(ty, sc, budget);
        self.in_branch -= 1;
        E::If(Box::new(c), Box::new(a), Box::new(b))
    }
    fn arm(&mut self, ty: &Ty, sc: &Scope, budget: &mut usize) -> E {
        let e = if self.rng.chance(1, 3) && *budget > 3 {
            let mut inner = sc.clone();
            let blk = self.block(ty, &mut inner, budget, 1);
            E::Block(Box::new(blk))
        } else {
            self.expr(ty, sc, budget)
        };
        self.no_bare_projection(e, ty)
    }
    /// Under the quarantine `bare-projection-result`, an if-arm / function result that is a
    /// bare projection (possibly at the end of a block) is routed through a computation.
    fn no_bare_projection(&mut self, e: E, ty: &Ty) -> E {
        if !self.feat.avoids("bare-projection-result") {
            return e;
        }
        match e {
            E::Proj(..) | E::Field(..) if *ty == Ty::F => E::Bin(BinOp::Mul, Box::new(e), Box::new(E::Num(1.0, false))),
            E::Proj(..) | E::Field(..) => {
                let n = self.fresh("v");
                E::Block(Box::new(Block { stmts: vec![Stmt::Let(Pat::Var(n.clone()), None, e)], result: E::Var(n) }))
            }
            E::Block(mut b) => {
                let r = std::mem::replace(&mut b.result, E::Now);
                b.result = self.no_bare_projection(r, ty);
                E::Block(b)
            }
            other => other,
        }
    }
    fn cond(&mut self, sc: &Scope, budget: &mut usize) -> E {
        let ops = [BinOp::Lt, BinOp::Le, BinOp::Gt, BinOp::Ge, BinOp::Eq, BinOp::Ne];
        let cmp = |g: &mut Self, budget: &mut usize| {
            let op = *g.rng.pick(&ops);
            let paths = g.float_paths(sc);
            if !paths.is_empty() && g.rng.chance(1, 7) {
                // operands that are equal or differ in the last place: x ? x, x ? x + 1e-16, ...
                // (an approximate comparison, or one that mishandles inf - inf, shows here)
                g.mark("near_equal_comparison");
                let a = g.rng.pick(&paths).clone();
                let tiny = *g.rng.pick(&[1e-16, -1e-16, 2e-16, 5e-17, 0.0]);
                let b = match g.rng.below(4) {
                    0 => a.clone(),
                    1 => E::Bin(BinOp::Add, Box::new(a.clone()), Box::new(E::Num(tiny, false))),
                    2 => E::Bin(BinOp::Mul, Box::new(a.clone()), Box::new(E::Num(1.0000000000000002, false))),
                    _ => E::Bin(BinOp::Sub, Box::new(E::Bin(BinOp::Add, Box::new(a.clone()), Box::new(E::Num(0.1, false)))), Box::new(E::Num(0.1, false))),
                };
                return if g.rng.chance(1, 2) { E::Bin(op, Box::new(a), Box::new(b)) } else { E::Bin(op, Box::new(b), Box::new(a)) };
            }
            let a = g.expr_f(sc, budget);
            let b = g.expr_f(sc, budget);
            E::Bin(op, Box::new(a), Box::new(b))
        };
        match self.rng.below(6) {
            0 => {
                self.mark("logic");
                let op = if self.rng.chance(1, 2) { BinOp::And } else { BinOp::Or };
                let a = cmp(self, budget);
                let b = cmp(self, budget);
                E::Bin(op, Box::new(a), Box::new(b))
            }
            1 if !self.feat.avoids("not-builtin") => {
                self.mark("not");
                E::Not(Box::new(cmp(self, budget)))
            }
            _ => cmp(self, budget),
        }
    }

    fn expr_f(&mut self, sc: &Scope, budget: &mut usize) -> E {
        let paths = self.float_paths(sc);
        if *budget == 0 {
            return if !paths.is_empty() && self.rng.chance(2, 3) { self.rng.pick(&paths).clone() } else { self.lit() };
        }
        let st = self.state_allowed();
        let fns = self.callable(&Ty::F);
        let fvals: Vec<(String, Vec<Ty>)> = sc
            .vars
            .iter()
            .filter_map(|(n, t, _)| match t {
                Ty::Fun(a, r) if **r == Ty::F => Some((n.clone(), a.clone())),
                _ => None,
            })
            .collect();
        let rec_fns: Vec<Sig> = self.sigs.iter().filter(|s| s.recursive).cloned().collect();
        let w = [
            4u32,                                                                  // 0 literal
            if paths.is_empty() { 0 } else { 8 },                                  // 1 var/path
            8,                                                                     // 2 arithmetic
            2,                                                                     // 3 comparison
            if self.feat.math { 3 } else { 0 },                                    // 4 math builtin
            if self.branch_ok() { 2 } else { 0 },                                  // 5 if
            if fns.is_empty() { 0 } else { 7 },                                    // 6 call named
            if fvals.is_empty() || self.pure_only > 0 { 0 } else { 4 },            // 7 call value
            2,                                                                     // 8 block
            if st && self.self_ty == Some(Ty::F) && self.feat.self_ { 5 } else { 0 }, // 9 self
            if st && self.feat.mem { 3 } else { 0 },                               // 10 mem
            if st && self.feat.delay { 3 } else { 0 },                             // 11 delay
            if self.feat.now { 1 } else { 0 },                                     // 12 now
            if self.feat.samplerate { 1 } else { 0 },                              // 13 samplerate
            1,                                                                     // 14 neg
            if self.feat.raw_logic { 2 } else { 0 },                               // 15 raw logic
            if self.feat.lambdas && self.feat.hof { 1 } else { 0 },                // 16 immediate lambda call
            if rec_fns.is_empty() { 0 } else { 2 },                                // 17 bounded recursion
        ];
        match self.rng.weighted(&w) {
            0 => self.lit(),
            1 => self.rng.pick(&paths).clone(),
            2 => {
                let mut ops = vec![BinOp::Add, BinOp::Sub, BinOp::Mul, BinOp::Add, BinOp::Mul];
                if self.feat.div {
                    ops.push(BinOp::Div);
                }
                if self.feat.modulo {
                    ops.push(BinOp::Mod);
                }
                if self.feat.pow {
                    ops.push(BinOp::Pow);
                }
                let op = *self.rng.pick(&ops);
                self.mark(match op {
                    BinOp::Div => "div",
                    BinOp::Mod => "modulo",
                    BinOp::Pow => "pow",
                    _ => "arith",
                });
                let a = self.expr_f(sc, budget);
                let b = match op {
                    // keep exponents small and literal so values stay finite most of the time
                    BinOp::Pow => E::Num(*self.rng.pick(&[2.0, 3.0, 0.5, 1.0]), false),
                    _ => self.expr_f(sc, budget),
                };
                E::Bin(op, Box::new(a), Box::new(b))
            }
            3 => {
                self.mark("comparison");
                self.cond(sc, budget)
            }
            4 => {
                self.mark("math");
                if self.rng.chance(1, 4) {
                    let n = *self.rng.pick(&MATH2);
                    let a = self.expr_f(sc, budget);
                    let b = self.expr_f(sc, budget);
                    E::Builtin(n.into(), vec![a, b])
                } else {
                    let n = *self.rng.pick(&MATH1);
                    let a = self.expr_f(sc, budget);
                    E::Builtin(n.into(), vec![a])
                }
            }
            5 => self.if_expr(&Ty::F, sc, budget),
            6 => {
                let s = self.rng.pick(&fns).clone();
                self.call(&s, sc, budget)
            }
            7 => {
                self.mark("call_fn_value");
                let (n, a) = self.rng.pick(&fvals).clone();
                self.fun_arg += 1;
                let args: Vec<E> = a.iter().map(|t| self.expr(t, sc, budget)).collect();
                self.fun_arg -= 1;
                if self.feat.pipes && args.len() == 1 && self.rng.chance(1, 4) {
                    self.mark("pipe");
                    E::PipeVal(Box::new(args.into_iter().next().unwrap()), Box::new(E::Var(n)))
                } else {
                    E::CallVal(Box::new(E::Var(n)), args)
                }
            }
            8 => {
                self.mark("block");
                let mut inner = sc.clone();
                let mut blk = self.block(&Ty::F, &mut inner, budget, 2);
                if matches!(blk.stmts.first(), Some(Stmt::Assign(..))) {
                    // `{ x = e ...` would be read as a record literal
                    let n = self.fresh("v");
                    blk.stmts.insert(0, Stmt::Let(Pat::Var(n), None, E::Num(0.0, false)));
                }
                E::Block(Box::new(blk))
            }
            9 => {
                self.mark("self");
                self.used_state = true;
                E::SelfE
            }
            10 => {
                self.mark("mem");
                self.used_state = true;
                let a = self.expr_f(sc, budget);
                let s = self.site();
                E::Mem(Box::new(a), s)
            }
            11 => {
                self.mark("delay");
                self.used_state = true;
                let n = *self.rng.pick(&[2u32, 3, 4, 5, 8, 16]);
                let x = self.expr_f(sc, budget);
                // 1 <= t <= n-1, finite by construction
                let t = if self.feat.hostile_delay_time && self.rng.chance(1, 3) {
                    self.mark("delay_hostile_time");
                    if self.rng.chance(1, 2) {
                        let c = *self.rng.pick(&[0.0, -1.0, 0.5, n as f64 - 0.5, n as f64, n as f64 + 0.5, n as f64 + 1.0, 2.0 * n as f64, 1e9]);
                        E::Num(c, false)
                    } else {
                        // grows past the end as the run proceeds
                        let e = self.expr_f(sc, &mut 1);
                        E::Bin(BinOp::Mul, Box::new(E::Builtin("abs".into(), vec![e])), Box::new(E::Num(*self.rng.pick(&[0.5, 1.5, 3.0]), false)))
                    }
                } else if self.rng.chance(1, 2) {
                    E::Num(self.rng.range(1, n as i64 - 1) as f64 + if self.rng.chance(1, 3) { 0.5 } else { 0.0 }, false)
                } else {
                    // 1 + (|e| mod (n-2)) stays in range for any finite e; NaN/inf inputs are excluded by the callers
                    let e = self.expr_f(sc, &mut 1);
                    self.mark("delay_variable_time");
                    E::Builtin(
                        "min".into(),
                        vec![
                            E::Bin(BinOp::Add, Box::new(E::Num(1.0, false)), Box::new(E::Builtin("abs".into(), vec![e]))),
                            E::Num((n - 1) as f64, false),
                        ],
                    )
                };
                let s = self.site();
                E::Delay(n, Box::new(x), Box::new(t), s)
            }
            12 => {
                self.mark("now");
                E::Now
            }
            13 => {
                self.mark("samplerate");
                E::SampleRate
            }
            14 => E::Neg(Box::new(self.expr_f(sc, budget))),
            15 => {
                self.mark("raw_logic");
                let op = if self.rng.chance(1, 2) { BinOp::And } else { BinOp::Or };
                let a = self.expr_f(sc, budget);
                let b = self.expr_f(sc, budget);
                E::Bin(op, Box::new(a), Box::new(b))
            }
            16 => {
                self.mark("immediate_lambda_call");
                let l = self.lambda(&[Ty::F], &Ty::F, sc, budget);
                let a = self.expr_f(sc, budget);
                E::CallVal(Box::new(l), vec![a])
            }
            _ => {
                self.mark("recursion");
                let s = self.rng.pick(&rec_fns).clone();
                let n = self.rng.range(0, 6) as f64;
                let mut args = vec![E::Num(n, false)];
                for p in &s.params[1..] {
                    args.push(self.expr(&p.ty, sc, budget));
                }
                let site = self.site();
                E::CallFn { name: s.name.clone(), args, style: CallStyle::Positional, site }
            }
        }
    }

    /// A block producing `ty`: some statements, then the result.
    fn block(&mut self, ty: &Ty, sc: &mut Scope, budget: &mut usize, max_stmts: usize) -> Block {
        let n = self.rng.below(max_stmts + 1);
        let mut stmts = vec![];
        for _ in 0..n {
            if *budget == 0 {
                break;
            }
            stmts.push(self.stmt(sc, budget));
        }
        let result = self.expr(ty, sc, budget);
        Block { stmts, result }
    }

    fn bind_pat(&mut self, ty: &Ty, sc: &mut Scope, depth: usize) -> Pat {
        match ty {
            Ty::Tup(ts) if depth < 2 && self.rng.chance(1, 2) => {
                self.mark("let_tuple_pattern");
                if depth > 0 {
                    self.mark("let_nested_tuple_pattern");
                }
                Pat::Tup(ts.iter().map(|t| self.bind_pat(t, sc, depth + 1)).collect())
            }
            Ty::Rec(fs) if depth == 0 && self.rng.chance(1, 2) => {
                self.mark("let_record_pattern");
                Pat::Rec(
                    fs.iter()
                        .map(|(f, t)| {
                            let b = self.fresh("drb");
                            sc.vars.push((b.clone(), t.clone(), *t == Ty::F));
                            (f.clone(), b)
                        })
                        .collect(),
                )
            }
            // `_` for an element of a tuple pattern that is not used afterwards
            _ if depth > 0 && self.rng.chance(1, 4) => {
                self.mark("let_placeholder_in_tuple_pattern");
                Pat::Var("_".into())
            }
            _ => {
                let n = self.fresh(if depth > 0 { "dv" } else { "v" });
                sc.vars.push((n.clone(), ty.clone(), *ty == Ty::F));
                Pat::Var(n)
            }
        }
    }

    /// pattern for a value of type `t`: a variable, or (deep) nested tuple patterns down to the leaves
    fn leaf_pat(&mut self, t: &Ty, sc: &mut Scope, deep: bool) -> Pat {
        match t {
            Ty::Tup(ts) if deep => Pat::Tup(ts.iter().map(|t| self.leaf_pat(t, sc, deep)).collect()),
            _ => {
                let n = self.fresh("dv");
                sc.vars.push((n.clone(), t.clone(), *t == Ty::F));
                Pat::Var(n)
            }
        }
    }

    fn stmt(&mut self, sc: &mut Scope, budget: &mut usize) -> Stmt {
        let assignable: Vec<String> = sc.vars.iter().filter(|v| v.2).map(|v| v.0.clone()).collect();
        let self_tuple = matches!(self.self_ty, Some(Ty::Tup(_))) && self.state_allowed();
        let w = [
            8u32,
            if self.feat.closures_assign
                && self.pure_only == 0
                && !assignable.is_empty()
                && !(self.in_lambda >= 2 && self.feat.avoids("assign-through-nested-lambda"))
            {
                3
            } else {
                0
            },
            if self.feat.lambdas { 2 } else { 0 },
            if self_tuple { 4 } else { 0 },
        ];
        match self.rng.weighted(&w) {
            3 => {
                // `let (a, b) = self`
                self.mark("self_tuple");
                self.used_state = true;
                let ty = self.self_ty.clone().unwrap();
                let Ty::Tup(ts) = &ty else { unreachable!() };
                if ts.iter().any(|t| *t != Ty::F) {
                    self.mark("self_nested_tuple");
                }
                // the type of `self` is not known to the checker when a pattern variable bound to
                // one of its tuple-typed parts is projected (same class as projection-from-self):
                // under that quarantine the pattern goes down to the float leaves
                let deep = self.feat.avoids("projection-from-self");
                let p = Pat::Tup(ts.iter().map(|t| self.leaf_pat(t, sc, deep)).collect());
                Stmt::Let(p, None, E::SelfE)
            }
            0 => {
                let ty = self.rand_data_ty(0);
                let e = self.expr(&ty, sc, budget);
                let annot = if ty != Ty::F && self.rng.chance(1, 4) || (ty == Ty::F && self.feat.annot_floats && self.rng.chance(1, 6)) {
                    Some(ty.clone())
                } else {
                    None
                };
                let p = if e == E::SelfE && self.feat.avoids("projection-from-self") {
                    match &ty {
                        Ty::Tup(ts) => Pat::Tup(ts.iter().map(|t| self.leaf_pat(t, sc, true)).collect()),
                        _ => self.bind_pat(&ty, sc, 0),
                    }
                } else {
                    self.bind_pat(&ty, sc, 0)
                };
                let annot = if matches!(p, Pat::Var(_)) { annot } else { None };
                Stmt::Let(p, annot, e)
            }
            1 => {
                self.mark("assign");
                if self.in_lambda > 0 {
                    self.mark("assign_captured_in_lambda");
                }
                let n = self.rng.pick(&assignable).clone();
                let e = self.expr_f(sc, budget);
                Stmt::Assign(n, e)
            }
            _ => {
                // bind a local function value
                let nargs = self.rng.range(1, 2) as usize;
                let args = vec![Ty::F; nargs];
                let fty = Ty::Fun(args.clone(), Box::new(Ty::F));
                let e = self.expr(&fty, sc, budget);
                let n = self.fresh("lf");
                sc.vars.push((n.clone(), fty, false));
                Stmt::Let(Pat::Var(n), None, e)
            }
        }
    }

    // ---- definitions

    fn gen_params(&mut self, n: usize, allow_fun: bool, allow_default: bool) -> Vec<Param> {
        let mut ps: Vec<Param> = vec![];
        let mut any_default = false;
        for i in 0..n {
            let ty = if allow_fun && self.feat.hof && self.rng.chance(1, 6) {
                self.mark("hof_param");
                Ty::Fun(vec![Ty::F], Box::new(Ty::F))
            } else {
                self.rand_data_ty(0)
            };
            let default = if allow_default && self.feat.defaults && ty == Ty::F && i > 0 && self.rng.chance(1, 5) {
                any_default = true;
                Some(*self.rng.pick(&[0.5, 1.0, 2.0, 3.0, 100.0]))
            } else {
                None
            };
            let annot = ty != Ty::F || default.is_some() || (self.feat.annot_floats && self.rng.chance(1, 3));
            ps.push(Param { name: self.fresh("a"), ty, annot, default });
        }
        if any_default {
            // record-style calls need every parameter typed (see DESIGN §3a)
            for p in ps.iter_mut() {
                p.annot = true;
            }
            // function-typed params cannot be given by record literal fields reliably; drop them
            for p in ps.iter_mut() {
                if matches!(p.ty, Ty::Fun(..)) {
                    p.ty = Ty::F;
                }
            }
        }
        ps
    }

    fn gen_fn(&mut self, stateful: bool, depth_left: usize) -> FnDef {
        let name = self.fresh(if stateful { "sf" } else { "pf" });
        let np = self.rng.range(0, 3) as usize;
        let np = if stateful { np } else { np.max(1) };
        let params = self.gen_params(np, !stateful, true);
        let ret = if stateful && self.feat.self_tuple && self.feat.tuples && self.rng.chance(1, 5) {
            // flat and nested tuple-valued self (the nested ones are read through `let (a, b) = self`
            // and ordinary projections of a / b): the feed cell is as wide as the flattened value
            let pair = || Ty::Tup(vec![Ty::F, Ty::F]);
            match self.rng.below(6) {
                0 | 1 => pair(),
                2 => Ty::Tup(vec![pair(), Ty::F]),
                3 => Ty::Tup(vec![Ty::F, pair()]),
                4 => Ty::Tup(vec![Ty::F, Ty::F, Ty::F]),
                _ => Ty::Tup(vec![pair(), pair()]),
            }
        } else if self.rng.chance(1, 5) {
            self.rand_data_ty(0)
        } else {
            Ty::F
        };
        let mut sc = Scope { vars: params.iter().map(|p| (p.name.clone(), p.ty.clone(), false)).collect() };
        self.stateful_ok = stateful;
        self.state_depth_left = depth_left;
        fn tuples_only(t: &Ty) -> bool {
            match t {
                Ty::F => true,
                Ty::Tup(ts) => ts.iter().all(tuples_only),
                _ => false,
            }
        }
        let flat = tuples_only(&ret);
        self.self_ty = if stateful
            && ret.is_data()
            && (flat || !self.feat.avoids("projection-from-self"))
            && (ret == Ty::F && self.feat.self_ || ret != Ty::F && self.feat.self_tuple)
        {
            Some(ret.clone())
        } else {
            None
        };
        self.used_state = false;
        self.max_callee_depth = 0;
        let mut budget = self.feat.budget;
        let mut body = self.block(&ret, &mut sc, &mut budget, 3);
        if stateful && !self.used_state {
            // force at least one state cell so the function really is stateful
            let s = self.site();
            self.mark("mem");
            let extra = E::Mem(Box::new(self.expr_f(&sc, &mut 2)), s);
            let n = self.fresh("v");
            body.stmts.push(Stmt::Let(Pat::Var(n), None, extra));
        }
        if stateful && self.feat.gated_state && ret == Ty::F && self.rng.chance(1, 2) {
            let (st, v) = self.gated_state_stmt(&sc);
            body.stmts.push(st);
            let r = std::mem::replace(&mut body.result, E::Now);
            body.result = E::Bin(BinOp::Add, Box::new(r), Box::new(E::Var(v)));
        }
        self.stateful_ok = false;
        self.self_ty = None;
        let uses_self = block_mentions_self(&body);
        if uses_self {
            let r = std::mem::replace(&mut body.result, E::Now);
            body.result = self.no_bare_projection(r, &ret);
        }
        let ret_annot = ret != Ty::F && self.rng.chance(2, 3) || ret == Ty::F && self.rng.chance(1, 4);
        let ret_annot = ret_annot || (uses_self && self.feat.avoids("self-type-unresolved"));
        // tuple-valued self needs the annotation to be inferable in all cases
        let ret_annot = ret_annot || (ret != Ty::F && stateful);
        FnDef { name, params, ret, ret_annot, body, stateful }
    }

    /// `let v = if (gate) { <stateful float expr> } else { <literal> }` (or arms swapped); the gate
    /// depends on `now` (or on a float in scope) so that it changes during a run
    fn gated_state_stmt(&mut self, sc: &Scope) -> (Stmt, String) {
        self.mark("gated_state");
        self.used_state = true;
        let k = *self.rng.pick(&[0.0, 1.0, 2.0, 3.0, 5.0, 8.0, 13.0]);
        let paths = self.float_paths(sc);
        let lhs = if self.feat.now && (paths.is_empty() || self.rng.chance(2, 3)) { E::Now } else if !paths.is_empty() { self.rng.pick(&paths).clone() } else { E::Num(1.0, false) };
        let op = *self.rng.pick(&[BinOp::Gt, BinOp::Ge, BinOp::Lt]);
        let gate = E::Bin(op, Box::new(lhs), Box::new(E::Num(k, false)));
        // the guarded expression: arguments are generated with state switched off (in_branch > 0)
        self.in_branch += 1;
        let sfs: Vec<Sig> = self
            .sigs
            .iter()
            .filter(|s| s.ret == Ty::F && !s.recursive && s.stateful && s.depth < self.state_depth_left)
            .cloned()
            .collect();
        let inner = if !sfs.is_empty() && self.rng.chance(2, 3) {
            let sg = self.rng.pick(&sfs).clone();
            self.call(&sg, sc, &mut 2)
        } else if self.feat.delay && self.rng.chance(1, 3) {
            self.mark("delay");
            let site = self.site();
            let x = self.expr_f(sc, &mut 2);
            E::Delay(4, Box::new(x), Box::new(E::Num(2.0, false)), site)
        } else {
            self.mark("mem");
            let site = self.site();
            let x = self.expr_f(sc, &mut 2);
            E::Mem(Box::new(x), site)
        };
        self.in_branch -= 1;
        let other = self.lit();
        let blk = |e: E| E::Block(Box::new(Block { stmts: vec![], result: e }));
        let e = if self.rng.chance(2, 3) { E::If(Box::new(gate), Box::new(blk(inner)), Box::new(blk(other))) } else { E::If(Box::new(gate), Box::new(blk(other)), Box::new(blk(inner))) };
        let v = self.fresh("v");
        (Stmt::Let(Pat::Var(v.clone()), None, e), v)
    }

    fn gen_recursive_fn(&mut self) -> FnDef {
        // fn r(n, acc) { if (n > 0) r(n - 1, <expr over acc, n>) else acc }
        let name = self.fresh("rf");
        let n = self.fresh("a");
        let acc = self.fresh("a");
        let sc = Scope { vars: vec![(n.clone(), Ty::F, false), (acc.clone(), Ty::F, false)] };
        let step = self.expr_f(&sc, &mut 4);
        let site = self.site();
        let body = Block {
            stmts: vec![],
            result: E::If(
                Box::new(E::Bin(BinOp::Gt, Box::new(E::Var(n.clone())), Box::new(E::Num(0.0, false)))),
                Box::new(E::CallFn {
                    name: name.clone(),
                    args: vec![E::Bin(BinOp::Sub, Box::new(E::Var(n.clone())), Box::new(E::Num(1.0, false))), step],
                    style: CallStyle::Positional,
                    site,
                }),
                Box::new(E::Var(acc.clone())),
            ),
        };
        FnDef {
            name,
            params: vec![
                Param { name: n, ty: Ty::F, annot: true, default: None },
                Param { name: acc, ty: Ty::F, annot: true, default: None },
            ],
            ret: Ty::F,
            ret_annot: true,
            body,
            stateful: false,
        }
    }

    fn sig_of(&self, f: &FnDef, recursive: bool) -> Sig {
        Sig {
            name: f.name.clone(),
            params: f.params.clone(),
            ret: f.ret.clone(),
            stateful: f.stateful,
            recursive,
            depth: if f.stateful { 1 + self.max_callee_depth } else { 0 },
        }
    }

    /// `fn mk(){ let c = init; |d| { c = c + d; c } }` + `let g = mk()`
    fn gen_escaping_closure(&mut self, fns: &mut Vec<FnDef>, globals: &mut Vec<(String, Ty, E)>) {
        self.mark("escaping_closure");
        let mk = self.fresh("mk");
        let c = self.fresh("v");
        let d = self.fresh("la");
        let init = self.lit();
        let sc = Scope { vars: vec![(c.clone(), Ty::F, true), (d.clone(), Ty::F, false)] };
        self.in_lambda += 1;
        let upd = self.expr_f(&sc, &mut 3);
        self.in_lambda -= 1;
        let lam = E::Lambda(
            vec![Param { name: d.clone(), ty: Ty::F, annot: false, default: None }],
            Box::new(Block {
                stmts: vec![Stmt::Assign(c.clone(), E::Bin(BinOp::Add, Box::new(E::Var(c.clone())), Box::new(upd)))],
                result: E::Var(c.clone()),
            }),
        );
        let fty = Ty::Fun(vec![Ty::F], Box::new(Ty::F));
        fns.push(FnDef {
            name: mk.clone(),
            params: vec![],
            ret: fty.clone(),
            ret_annot: false,
            body: Block { stmts: vec![Stmt::Let(Pat::Var(c), None, init)], result: lam },
            stateful: false,
        });
        let g = self.fresh("g");
        let site = self.site();
        globals.push((g.clone(), fty.clone(), E::CallFn { name: mk, args: vec![], style: CallStyle::Positional, site }));
        self.globals.push((g, fty));
    }

    /// `fn mk(){ let k = c0; let g = |x| x*k + c1; let b = |y| g(y); let c = |z| g(z) + g(c2); c }`
    /// + `let h = mk()`: two sibling closures share one captured closure-valued local, one of
    /// them escapes (reference counting of shared upvalue cells).
    fn gen_shared_capture_closure(&mut self, fns: &mut Vec<FnDef>, globals: &mut Vec<(String, Ty, E)>) {
        self.mark("shared_closure_capture");
        let mk = self.fresh("mk");
        let k = self.fresh("v");
        let g = self.fresh("lf");
        let b = self.fresh("lf");
        let c = self.fresh("lf");
        let (x, y, z) = (self.fresh("la"), self.fresh("la"), self.fresh("la"));
        let (c0, c1, c2) = (self.lit(), self.lit(), self.lit());
        let fty = Ty::Fun(vec![Ty::F], Box::new(Ty::F));
        let p = |n: &String| vec![Param { name: n.clone(), ty: Ty::F, annot: false, default: None }];
        let call = |f: &String, a: E| E::CallVal(Box::new(E::Var(f.clone())), vec![a]);
        let g_lam = E::Lambda(
            p(&x),
            Box::new(Block {
                stmts: vec![],
                result: E::Bin(
                    BinOp::Add,
                    Box::new(E::Bin(BinOp::Mul, Box::new(E::Var(x.clone())), Box::new(E::Var(k.clone())))),
                    Box::new(c1),
                ),
            }),
        );
        let b_lam = E::Lambda(p(&y), Box::new(Block { stmts: vec![], result: call(&g, E::Var(y.clone())) }));
        let c_lam = E::Lambda(
            p(&z),
            Box::new(Block { stmts: vec![], result: E::Bin(BinOp::Add, Box::new(call(&g, E::Var(z.clone()))), Box::new(call(&g, c2))) }),
        );
        fns.push(FnDef {
            name: mk.clone(),
            params: vec![],
            ret: fty.clone(),
            ret_annot: false,
            body: Block {
                stmts: vec![
                    Stmt::Let(Pat::Var(k), None, c0),
                    Stmt::Let(Pat::Var(g), None, g_lam),
                    Stmt::Let(Pat::Var(b), None, b_lam),
                    Stmt::Let(Pat::Var(c.clone()), None, c_lam),
                ],
                result: E::Var(c),
            },
            stateful: false,
        });
        let h = self.fresh("g");
        let site = self.site();
        globals.push((h.clone(), fty.clone(), E::CallFn { name: mk, args: vec![], style: CallStyle::Positional, site }));
        self.globals.push((h, fty));
    }

    pub fn program(mut self) -> Program {
        let mut fns: Vec<FnDef> = vec![];
        let mut globals: Vec<(String, Ty, E)> = vec![];
        let mut pre_globals: Vec<(String, Ty, E)> = vec![];
        // global data first (functions may read them)
        if self.feat.globals {
            for _ in 0..self.rng.below(3) {
                let ty = self.rand_data_ty(0);
                let sc = Scope { vars: vec![] };
                let saved = (self.feat.now, self.feat.samplerate);
                self.feat.now = false;
                if self.feat.avoids("samplerate-in-global-init") {
                    self.feat.samplerate = false;
                }
                let e = self.expr(&ty, &sc, &mut 3);
                (self.feat.now, self.feat.samplerate) = saved;
                let n = self.fresh("g");
                self.mark("global");
                pre_globals.push((n.clone(), ty.clone(), e));
                self.globals.push((n, ty));
            }
        }
        let nf = 1 + self.rng.below(self.feat.max_fns.max(1));
        if self.feat.recursion && self.rng.chance(1, 3) {
            let f = self.gen_recursive_fn();
            let sg = self.sig_of(&f, true);
            self.sigs.push(sg);
            fns.push(f);
        }
        let any_state = self.feat.self_ || self.feat.mem || self.feat.delay;
        for _ in 0..nf {
            let stateful = any_state && self.rng.chance(1, 2);
            let f = self.gen_fn(stateful, self.feat.max_state_depth);
            let sg = self.sig_of(&f, false);
            self.sigs.push(sg);
            fns.push(f);
        }
        if self.feat.escaping_closures && self.feat.lambdas && self.feat.closures_assign && self.rng.chance(1, 3) {
            self.gen_escaping_closure(&mut fns, &mut globals);
        }
        if self.feat.escaping_closures && self.feat.lambdas && self.rng.chance(1, 4) {
            self.gen_shared_capture_closure(&mut fns, &mut globals);
        }
        // globals holding function values are callable from dsp through scope lookup
        let mut sc = Scope { vars: vec![] };
        for (n, t) in &self.globals {
            if matches!(t, Ty::Fun(..)) {
                sc.vars.push((n.clone(), t.clone(), false));
            }
        }
        // dsp
        let mut params = vec![];
        if self.feat.dsp_input && self.rng.chance(1, 2) {
            if self.feat.tuples && self.rng.chance(1, 3) {
                self.mark("dsp_input_tuple");
                let n = self.fresh("in");
                params.push(Param { name: n, ty: Ty::Tup(vec![Ty::F, Ty::F]), annot: true, default: None });
            } else {
                self.mark("dsp_input");
                let n = self.fresh("in");
                params.push(Param { name: n, ty: Ty::F, annot: true, default: None });
            }
        }
        for p in &params {
            sc.vars.push((p.name.clone(), p.ty.clone(), false));
        }
        let nch = *self.rng.pick(&[1usize, 1, 1, 2, 2, 3]);
        let ret = if nch == 1 { Ty::F } else { Ty::Tup(vec![Ty::F; nch]) };
        self.stateful_ok = any_state;
        self.state_depth_left = self.feat.max_state_depth + 1;
        self.self_ty = if self.feat.self_ && nch == 1 && self.rng.chance(1, 4) { Some(Ty::F) } else { None };
        let mut budget = self.feat.budget * 2;
        let mut body = self.block(&ret, &mut sc, &mut budget, 4);
        if any_state && self.feat.gated_state && nch == 1 && self.rng.chance(2, 3) {
            let (st, v) = self.gated_state_stmt(&sc);
            body.stmts.push(st);
            let r = std::mem::replace(&mut body.result, E::Now);
            body.result = E::Bin(BinOp::Add, Box::new(r), Box::new(E::Var(v)));
        }
        if self.feat.many_locals {
            self.mark("many_locals");
            let mut extra = vec![];
            let mut acc = E::Num(0.0, false);
            for i in 0..300 {
                let n = self.fresh("ml");
                extra.push(Stmt::Let(Pat::Var(n.clone()), None, E::Num((i % 7) as f64, false)));
                if i % 50 == 0 {
                    acc = E::Bin(BinOp::Add, Box::new(acc), Box::new(E::Var(n)));
                }
            }
            let n = self.fresh("ml");
            extra.push(Stmt::Let(Pat::Var(n), None, acc));
            extra.extend(body.stmts);
            body.stmts = extra;
        }
        let uses_self = block_mentions_self(&body);
        if uses_self {
            let r = std::mem::replace(&mut body.result, E::Now);
            body.result = self.no_bare_projection(r, &ret);
        }
        let ret_annot = uses_self && self.feat.avoids("self-type-unresolved");
        let dsp = FnDef { name: "dsp".into(), params, ret, ret_annot, body, stateful: true };
        Program { pre_globals, fns, globals, dsp, features: self.used.into_iter().collect() }
    }
}

/// does the block mention `self` outside nested lambdas?
pub fn block_mentions_self(b: &Block) -> bool {
    let mut found = false;
    crate::gens::shrink::visit_block_pub(b, &mut |e| {
        if matches!(e, E::SelfE) {
            found = true;
        }
    });
    found
}

pub fn generate(rng: &mut Rng, feat: Feat) -> Program {
    Gen::new(rng, feat).program()
}
