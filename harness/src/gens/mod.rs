pub mod core;
pub mod layoutfam;
pub mod shrink;
pub mod tycheck;
