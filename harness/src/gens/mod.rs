pub mod core;
