pub mod core;
pub mod shrink;
pub mod tycheck;
