//! Greedy structural minimiser for G-AST programs: repeatedly applies single-step
//! reductions and keeps a candidate whenever `pred` still holds (same violation
//! signature). Reductions never invent new constructs, so a minimised witness
//! only contains what the original program contained.

use super::core::*;

fn visit_block<'a>(b: &'a Block, f: &mut dyn FnMut(&'a E)) {
    for s in &b.stmts {
        match s {
            Stmt::Let(_, _, e) | Stmt::Assign(_, e) => visit(e, f),
        }
    }
    visit(&b.result, f);
}

pub fn visit_block_pub<'a>(b: &'a Block, f: &mut dyn FnMut(&'a E)) {
    visit_block(b, f)
}

pub fn visit<'a>(e: &'a E, f: &mut dyn FnMut(&'a E)) {
    f(e);
    match e {
        E::Num(..) | E::Var(_) | E::FnRef(_) | E::SelfE | E::Now | E::SampleRate => {}
        E::Bin(_, a, b) | E::PipeVal(a, b) => {
            visit(a, f);
            visit(b, f);
        }
        E::Neg(a) | E::Not(a) | E::Proj(a, _) | E::Field(a, _) | E::Mem(a, _) => visit(a, f),
        E::PipeFn { arg, .. } => visit(arg, f),
        E::Builtin(_, v) | E::Tuple(v) => v.iter().for_each(|x| visit(x, f)),
        E::CallFn { args, .. } => args.iter().for_each(|x| visit(x, f)),
        E::CallVal(c, v) => {
            visit(c, f);
            v.iter().for_each(|x| visit(x, f));
        }
        E::If(c, a, b) => {
            visit(c, f);
            visit(a, f);
            visit(b, f);
        }
        E::Record(fs) => fs.iter().for_each(|(_, x)| visit(x, f)),
        E::Lambda(_, b) | E::Block(b) => visit_block(b, f),
        E::Delay(_, x, t, _) => {
            visit(x, f);
            visit(t, f);
        }
    }
}

/// Rebuild `e` with the `target`-th node (pre-order, counter `k`) replaced by `with`.
fn replace_nth(e: &E, k: &mut usize, target: usize, with: &E) -> E {
    let me = *k;
    *k += 1;
    if me == target {
        // skip numbering of the replaced subtree
        let mut cnt = 0;
        visit(e, &mut |_| cnt += 1);
        *k += cnt - 1;
        return with.clone();
    }
    let r = |x: &E, k: &mut usize| Box::new(replace_nth(x, k, target, with));
    match e {
        E::Num(..) | E::Var(_) | E::FnRef(_) | E::SelfE | E::Now | E::SampleRate => e.clone(),
        E::Bin(op, a, b) => {
            let a2 = r(a, k);
            let b2 = r(b, k);
            E::Bin(*op, a2, b2)
        }
        E::PipeVal(a, b) => {
            let a2 = r(a, k);
            let b2 = r(b, k);
            E::PipeVal(a2, b2)
        }
        E::Neg(a) => E::Neg(r(a, k)),
        E::Not(a) => E::Not(r(a, k)),
        E::Proj(a, i) => E::Proj(r(a, k), *i),
        E::Field(a, n) => E::Field(r(a, k), n.clone()),
        E::Mem(a, s) => E::Mem(r(a, k), *s),
        E::PipeFn { arg, name, site } => E::PipeFn { arg: r(arg, k), name: name.clone(), site: *site },
        E::Builtin(n, v) => E::Builtin(n.clone(), v.iter().map(|x| replace_nth(x, k, target, with)).collect()),
        E::Tuple(v) => E::Tuple(v.iter().map(|x| replace_nth(x, k, target, with)).collect()),
        E::CallFn { name, args, style, site } => E::CallFn {
            name: name.clone(),
            args: args.iter().map(|x| replace_nth(x, k, target, with)).collect(),
            style: *style,
            site: *site,
        },
        E::CallVal(c, v) => {
            let c2 = r(c, k);
            E::CallVal(c2, v.iter().map(|x| replace_nth(x, k, target, with)).collect())
        }
        E::If(c, a, b) => {
            let c2 = r(c, k);
            let a2 = r(a, k);
            let b2 = r(b, k);
            E::If(c2, a2, b2)
        }
        E::Record(fs) => E::Record(fs.iter().map(|(n, x)| (n.clone(), replace_nth(x, k, target, with))).collect()),
        E::Lambda(ps, b) => E::Lambda(ps.clone(), Box::new(replace_block(b, k, target, with))),
        E::Block(b) => E::Block(Box::new(replace_block(b, k, target, with))),
        E::Delay(n, x, t, s) => {
            let x2 = r(x, k);
            let t2 = r(t, k);
            E::Delay(*n, x2, t2, *s)
        }
    }
}
fn replace_block(b: &Block, k: &mut usize, target: usize, with: &E) -> Block {
    Block {
        stmts: b
            .stmts
            .iter()
            .map(|s| match s {
                Stmt::Let(p, t, e) => Stmt::Let(p.clone(), t.clone(), replace_nth(e, k, target, with)),
                Stmt::Assign(n, e) => Stmt::Assign(n.clone(), replace_nth(e, k, target, with)),
            })
            .collect(),
        result: replace_nth(&b.result, k, target, with),
    }
}

/// Drop the `target`-th statement (counted over all blocks, pre-order) of `e`.
fn drop_stmt(e: &E, k: &mut usize, target: usize) -> E {
    let d = |x: &E, k: &mut usize| Box::new(drop_stmt(x, k, target));
    match e {
        E::Num(..) | E::Var(_) | E::FnRef(_) | E::SelfE | E::Now | E::SampleRate => e.clone(),
        E::Bin(op, a, b) => {
            let a2 = d(a, k);
            let b2 = d(b, k);
            E::Bin(*op, a2, b2)
        }
        E::PipeVal(a, b) => {
            let a2 = d(a, k);
            let b2 = d(b, k);
            E::PipeVal(a2, b2)
        }
        E::Neg(a) => E::Neg(d(a, k)),
        E::Not(a) => E::Not(d(a, k)),
        E::Proj(a, i) => E::Proj(d(a, k), *i),
        E::Field(a, n) => E::Field(d(a, k), n.clone()),
        E::Mem(a, s) => E::Mem(d(a, k), *s),
        E::PipeFn { arg, name, site } => E::PipeFn { arg: d(arg, k), name: name.clone(), site: *site },
        E::Builtin(n, v) => E::Builtin(n.clone(), v.iter().map(|x| drop_stmt(x, k, target)).collect()),
        E::Tuple(v) => E::Tuple(v.iter().map(|x| drop_stmt(x, k, target)).collect()),
        E::CallFn { name, args, style, site } => E::CallFn {
            name: name.clone(),
            args: args.iter().map(|x| drop_stmt(x, k, target)).collect(),
            style: *style,
            site: *site,
        },
        E::CallVal(c, v) => {
            let c2 = d(c, k);
            E::CallVal(c2, v.iter().map(|x| drop_stmt(x, k, target)).collect())
        }
        E::If(c, a, b) => {
            let c2 = d(c, k);
            let a2 = d(a, k);
            let b2 = d(b, k);
            E::If(c2, a2, b2)
        }
        E::Record(fs) => E::Record(fs.iter().map(|(n, x)| (n.clone(), drop_stmt(x, k, target))).collect()),
        E::Lambda(ps, b) => E::Lambda(ps.clone(), Box::new(drop_stmt_block(b, k, target))),
        E::Block(b) => E::Block(Box::new(drop_stmt_block(b, k, target))),
        E::Delay(n, x, t, s) => {
            let x2 = d(x, k);
            let t2 = d(t, k);
            E::Delay(*n, x2, t2, *s)
        }
    }
}
fn drop_stmt_block(b: &Block, k: &mut usize, target: usize) -> Block {
    let mut stmts = vec![];
    for s in &b.stmts {
        let me = *k;
        *k += 1;
        let s2 = match s {
            Stmt::Let(p, t, e) => Stmt::Let(p.clone(), t.clone(), drop_stmt(e, k, target)),
            Stmt::Assign(n, e) => Stmt::Assign(n.clone(), drop_stmt(e, k, target)),
        };
        if me != target {
            stmts.push(s2);
        }
    }
    Block { stmts, result: drop_stmt(&b.result, k, target) }
}
fn count_stmts(b: &Block) -> usize {
    let mut n = b.stmts.len();
    let mut f = |e: &E| {
        if let E::Lambda(_, bb) | E::Block(bb) = e {
            n += bb.stmts.len();
        }
    };
    visit_block(b, &mut f);
    n
}

fn size(p: &Program) -> usize {
    let mut n = 0;
    let mut f = |_: &E| n += 1;
    for (_, _, e) in p.pre_globals.iter().chain(p.globals.iter()) {
        visit(e, &mut f);
    }
    for fd in p.fns.iter().chain(std::iter::once(&p.dsp)) {
        visit_block(&fd.body, &mut f);
    }
    n + p.fns.len() * 3 + p.fns.iter().map(|f| f.params.len()).sum::<usize>()
}

/// All single-step reductions of the body of one item.
fn body_variants(b: &Block) -> Vec<Block> {
    let mut out = vec![];
    // drop statements
    let ns = count_stmts(b);
    for t in 0..ns {
        out.push(drop_stmt_block(b, &mut 0, t));
    }
    // replace nodes by their children or by a literal
    let mut nodes: Vec<&E> = vec![];
    visit_block(b, &mut |e| nodes.push(e));
    for (i, node) in nodes.iter().enumerate() {
        let mut cands: Vec<E> = vec![];
        match node {
            E::Num(v, _) => {
                if *v != 1.0 {
                    cands.push(E::Num(1.0, false));
                }
            }
            E::Var(_) | E::FnRef(_) => cands.push(E::Num(1.0, false)),
            E::Block(bb) if bb.stmts.is_empty() => cands.push(bb.result.clone()),
            other => {
                cands.push(E::Num(1.0, false));
                // direct children
                let mut first = true;
                let mut kids: Vec<E> = vec![];
                let mut depth_guard = 0;
                visit(other, &mut |c| {
                    if first {
                        first = false;
                        return;
                    }
                    depth_guard += 1;
                    if kids.len() < 6 && depth_guard < 40 {
                        kids.push(c.clone());
                    }
                });
                cands.extend(kids);
            }
        }
        for c in cands {
            let mut k = 0;
            out.push(replace_block(b, &mut k, i, &c));
        }
    }
    out
}

fn mentions(p: &Program, name: &str, skip_fn: Option<usize>) -> bool {
    let mut found = false;
    let mut f = |e: &E| match e {
        E::Var(n) | E::FnRef(n) if n == name => found = true,
        E::CallFn { name: n, .. } | E::PipeFn { name: n, .. } if n == name => found = true,
        _ => {}
    };
    for (_, _, e) in p.pre_globals.iter().chain(p.globals.iter()) {
        visit(e, &mut f);
    }
    for (i, fd) in p.fns.iter().enumerate() {
        if Some(i) == skip_fn {
            continue;
        }
        visit_block(&fd.body, &mut f);
    }
    visit_block(&p.dsp.body, &mut f);
    found
}

/// Minimise `p` while `pred` holds. `max_evals` bounds the work.
pub fn shrink(p: &Program, pred: &mut dyn FnMut(&Program) -> bool, max_evals: usize) -> Program {
    let mut cur = p.clone();
    let mut evals = 0;
    loop {
        let mut progressed = false;
        // 1. whole items
        let mut i = 0;
        while i < cur.fns.len() {
            if !mentions(&cur, &cur.fns[i].name.clone(), Some(i)) {
                let mut c = cur.clone();
                c.fns.remove(i);
                evals += 1;
                if pred(&c) {
                    cur = c;
                    progressed = true;
                    continue;
                }
            }
            i += 1;
        }
        for which in 0..2 {
            let mut i = 0;
            loop {
                let len = if which == 0 { cur.pre_globals.len() } else { cur.globals.len() };
                if i >= len {
                    break;
                }
                let name = if which == 0 { cur.pre_globals[i].0.clone() } else { cur.globals[i].0.clone() };
                // a global may mention itself only in later items; removal is tried when nothing else mentions it
                let mut c = cur.clone();
                if which == 0 {
                    c.pre_globals.remove(i);
                } else {
                    c.globals.remove(i);
                }
                if !mentions(&c, &name, None) {
                    evals += 1;
                    if pred(&c) {
                        cur = c;
                        progressed = true;
                        continue;
                    }
                }
                i += 1;
            }
        }
        // unused dsp params
        let mut i = 0;
        while i < cur.dsp.params.len() {
            let mut c = cur.clone();
            let name = c.dsp.params.remove(i).name;
            if !mentions(&c, &name, None) {
                evals += 1;
                if pred(&c) {
                    cur = c;
                    progressed = true;
                    continue;
                }
            }
            i += 1;
        }
        // 2. bodies (largest first is not needed; just go through them)
        let nitems = cur.fns.len() + 1 + cur.pre_globals.len() + cur.globals.len();
        for item in 0..nitems {
            'again: loop {
                if evals > max_evals {
                    return cur;
                }
                let nf = cur.fns.len();
                let npg = cur.pre_globals.len();
                let body: Block = if item < nf {
                    cur.fns[item].body.clone()
                } else if item == nf {
                    cur.dsp.body.clone()
                } else if item < nf + 1 + npg {
                    Block { stmts: vec![], result: cur.pre_globals[item - nf - 1].2.clone() }
                } else if item - nf - 1 - npg < cur.globals.len() {
                    Block { stmts: vec![], result: cur.globals[item - nf - 1 - npg].2.clone() }
                } else {
                    break;
                };
                let before = size(&cur);
                for v in body_variants(&body) {
                    let mut c = cur.clone();
                    if item < nf {
                        c.fns[item].body = v;
                    } else if item == nf {
                        c.dsp.body = v;
                    } else if item < nf + 1 + npg {
                        c.pre_globals[item - nf - 1].2 = v.result;
                    } else {
                        c.globals[item - nf - 1 - npg].2 = v.result;
                    }
                    if size(&c) >= before {
                        continue;
                    }
                    evals += 1;
                    if evals > max_evals {
                        return cur;
                    }
                    if pred(&c) {
                        cur = c;
                        progressed = true;
                        continue 'again;
                    }
                }
                break;
            }
        }
        if !progressed || evals > max_evals {
            return cur;
        }
    }
}


/// Does some function of `p` contain a variable that one lambda assigns while another lambda
/// (neither nested in the other) also mentions it? (Names are unique per program.)
/// On the VM such a variable diverges once one of the closures has been closed (known finding).
pub fn assigns_variable_captured_by_another_closure(p: &Program) -> bool {
    fn names_assigned_or_used(e: &E, assigned: &mut Vec<String>, used: &mut Vec<String>) {
        visit(e, &mut |x| match x {
            E::Var(n) => used.push(n.clone()),
            E::Lambda(_, b) | E::Block(b) => {
                for s in &b.stmts {
                    if let Stmt::Assign(n, _) = s {
                        assigned.push(n.clone());
                        used.push(n.clone());
                    }
                }
            }
            _ => {}
        });
    }
    // outermost lambdas of a body, each with the names it assigns / mentions (nested lambdas included)
    fn outer_lambdas<'a>(e: &'a E, out: &mut Vec<&'a E>) {
        match e {
            E::Lambda(..) => out.push(e),
            _ => {
                // one level down without entering lambdas
                let mut kids: Vec<&'a E> = vec![];
                match e {
                    E::Bin(_, a, b) | E::PipeVal(a, b) => {
                        kids.push(a);
                        kids.push(b);
                    }
                    E::Neg(a) | E::Not(a) | E::Proj(a, _) | E::Field(a, _) | E::Mem(a, _) => kids.push(a),
                    E::PipeFn { arg, .. } => kids.push(arg),
                    E::Builtin(_, v) | E::Tuple(v) => kids.extend(v.iter()),
                    E::CallFn { args, .. } => kids.extend(args.iter()),
                    E::CallVal(c, v) => {
                        kids.push(c);
                        kids.extend(v.iter());
                    }
                    E::If(c, a, b) => {
                        kids.push(c);
                        kids.push(a);
                        kids.push(b);
                    }
                    E::Record(fs) => kids.extend(fs.iter().map(|f| &f.1)),
                    E::Block(b) => {
                        for s in &b.stmts {
                            match s {
                                Stmt::Let(_, _, x) | Stmt::Assign(_, x) => kids.push(x),
                            }
                        }
                        kids.push(&b.result);
                    }
                    E::Delay(_, x, t, _) => {
                        kids.push(x);
                        kids.push(t);
                    }
                    _ => {}
                }
                for k in kids {
                    outer_lambdas(k, out);
                }
            }
        }
    }
    let check_body = |b: &Block| -> bool {
        let mut lams: Vec<&E> = vec![];
        for s in &b.stmts {
            match s {
                Stmt::Let(_, _, x) | Stmt::Assign(_, x) => outer_lambdas(x, &mut lams),
            }
        }
        outer_lambdas(&b.result, &mut lams);
        let info: Vec<(Vec<String>, Vec<String>)> = lams
            .iter()
            .map(|l| {
                let (mut a, mut u) = (vec![], vec![]);
                names_assigned_or_used(l, &mut a, &mut u);
                (a, u)
            })
            .collect();
        for (i, (assigned, _)) in info.iter().enumerate() {
            for n in assigned {
                if info.iter().enumerate().any(|(j, (_, used))| j != i && used.contains(n)) {
                    return true;
                }
            }
        }
        // the function (or enclosing lambda) itself assigns a variable that two of its closures mention:
        // when the first of them is closed the other reads the copy, the frame writes the stack slot
        let mut frame_assigned: Vec<String> = vec![];
        fn frame_assigns(b: &Block, out: &mut Vec<String>) {
            fn in_expr(e: &E, out: &mut Vec<String>) {
                match e {
                    E::Lambda(..) => {}
                    E::Block(b) => frame_assigns(b, out),
                    E::Bin(_, a, b) | E::PipeVal(a, b) => {
                        in_expr(a, out);
                        in_expr(b, out);
                    }
                    E::Neg(a) | E::Not(a) | E::Proj(a, _) | E::Field(a, _) | E::Mem(a, _) => in_expr(a, out),
                    E::PipeFn { arg, .. } => in_expr(arg, out),
                    E::Builtin(_, v) | E::Tuple(v) => v.iter().for_each(|x| in_expr(x, out)),
                    E::CallFn { args, .. } => args.iter().for_each(|x| in_expr(x, out)),
                    E::CallVal(c, v) => {
                        in_expr(c, out);
                        v.iter().for_each(|x| in_expr(x, out));
                    }
                    E::If(c, a, b) => {
                        in_expr(c, out);
                        in_expr(a, out);
                        in_expr(b, out);
                    }
                    E::Record(fs) => fs.iter().for_each(|f| in_expr(&f.1, out)),
                    E::Delay(_, x, t, _) => {
                        in_expr(x, out);
                        in_expr(t, out);
                    }
                    _ => {}
                }
            }
            for s in &b.stmts {
                match s {
                    Stmt::Assign(n, x) => {
                        out.push(n.clone());
                        in_expr(x, out);
                    }
                    Stmt::Let(_, _, x) => in_expr(x, out),
                }
            }
            in_expr(&b.result, out);
        }
        frame_assigns(b, &mut frame_assigned);
        for n in &frame_assigned {
            if info.iter().filter(|(_, used)| used.contains(n)).count() >= 2 {
                return true;
            }
        }
        // a closure that assigns a captured variable and is also used as a value (bound to a second
        // name, passed on, stored): the scope exit of the other holder closes its upvalues
        let mut bound: Vec<(&String, &E)> = vec![];
        fn let_bound_lambdas<'a>(b: &'a Block, out: &mut Vec<(&'a String, &'a E)>) {
            for s in &b.stmts {
                if let Stmt::Let(Pat::Var(n), _, x @ E::Lambda(..)) = s {
                    out.push((n, x));
                }
            }
            visit_block(b, &mut |x| {
                if let E::Block(ib) = x {
                    for s in &ib.stmts {
                        if let Stmt::Let(Pat::Var(n), _, l @ E::Lambda(..)) = s {
                            out.push((n, l));
                        }
                    }
                }
            });
        }
        let_bound_lambdas(b, &mut bound);
        for (name, lam) in bound {
            let (mut a, mut u) = (vec![], vec![]);
            names_assigned_or_used(lam, &mut a, &mut u);
            if a.is_empty() {
                continue;
            }
            let (mut total, mut callee) = (0usize, 0usize);
            visit_block(b, &mut |x| match x {
                E::Var(n) if n == name => total += 1,
                E::CallVal(c, _) if matches!(&**c, E::Var(n) if n == name) => callee += 1,
                E::PipeVal(_, f) if matches!(&**f, E::Var(n) if n == name) => callee += 1,
                _ => {}
            });
            if total > callee {
                return true;
            }
        }
        false
    };
    let mut bodies: Vec<&Block> = p.fns.iter().map(|f| &f.body).chain(std::iter::once(&p.dsp.body)).collect();
    // lambda bodies at any depth are bodies too
    let mut extra: Vec<&Block> = vec![];
    for b in &bodies {
        visit_block(b, &mut |x| {
            if let E::Lambda(_, lb) = x {
                extra.push(lb);
            }
        });
    }
    bodies.extend(extra);
    bodies.iter().any(|b| check_body(b))
}
