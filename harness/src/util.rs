//! Shared plumbing: PRNG, event stream, panic capture, hashing.

use serde_json::{Value, json};
use std::cell::RefCell;
use std::collections::{BTreeMap, BTreeSet};
use std::io::Write;
use std::panic::{AssertUnwindSafe, catch_unwind};

// ---------------------------------------------------------------- PRNG

#[derive(Clone, Debug)]
pub struct Rng(pub u64);

pub fn splitmix(x: &mut u64) -> u64 {
    *x = x.wrapping_add(0x9E37_79B9_7F4A_7C15);
    let mut z = *x;
    z = (z ^ (z >> 30)).wrapping_mul(0xBF58_476D_1CE4_E5B9);
    z = (z ^ (z >> 27)).wrapping_mul(0x94D0_49BB_1331_11EB);
    z ^ (z >> 31)
}

impl Rng {
    pub fn new(seed: u64) -> Self {
        let mut s = seed ^ 0xA076_1D64_78BD_642F;
        let _ = splitmix(&mut s);
        Rng(s)
    }
    /// Derive an independent stream.
    pub fn derive(seed: u64, a: u64, b: u64) -> Self {
        let mut s = seed;
        let x = splitmix(&mut s) ^ a.wrapping_mul(0xD6E8_FEB8_6659_FD93);
        let mut s2 = x;
        let y = splitmix(&mut s2) ^ b.wrapping_mul(0xCA5A_8268_9512_1157);
        Rng::new(y)
    }
    pub fn next(&mut self) -> u64 {
        splitmix(&mut self.0)
    }
    /// uniform in 0..n (n>0)
    pub fn below(&mut self, n: usize) -> usize {
        (self.next() % (n as u64)) as usize
    }
    pub fn range(&mut self, lo: i64, hi_incl: i64) -> i64 {
        lo + (self.next() % ((hi_incl - lo + 1) as u64)) as i64
    }
    pub fn chance(&mut self, num: u32, den: u32) -> bool {
        (self.next() % den as u64) < num as u64
    }
    pub fn pick<'a, T>(&mut self, xs: &'a [T]) -> &'a T {
        &xs[self.below(xs.len())]
    }
    pub fn unit(&mut self) -> f64 {
        (self.next() >> 11) as f64 / (1u64 << 53) as f64
    }
    /// Weighted choice: returns index.
    pub fn weighted(&mut self, w: &[u32]) -> usize {
        let tot: u32 = w.iter().sum();
        let mut r = (self.next() % tot as u64) as u32;
        for (i, x) in w.iter().enumerate() {
            if r < *x {
                return i;
            }
            r -= *x;
        }
        w.len() - 1
    }
    pub fn shuffle<T>(&mut self, xs: &mut [T]) {
        for i in (1..xs.len()).rev() {
            let j = self.below(i + 1);
            xs.swap(i, j);
        }
    }
}

pub fn fnv(s: &[u8]) -> u64 {
    let mut h: u64 = 0xcbf29ce484222325;
    for b in s {
        h ^= *b as u64;
        h = h.wrapping_mul(0x100000001b3);
    }
    h
}
pub fn fp(s: &str) -> String {
    format!("{:016x}", fnv(s.as_bytes()))
}

// ---------------------------------------------------------------- quarantines (process-wide copy of --quarantine)

static QUARANTINE: std::sync::OnceLock<BTreeSet<String>> = std::sync::OnceLock::new();
pub fn set_quarantine(q: &BTreeSet<String>) {
    let _ = QUARANTINE.set(q.clone());
}
static REPO_PATH: std::sync::OnceLock<String> = std::sync::OnceLock::new();
pub fn set_repo_path(p: &str) {
    let _ = REPO_PATH.set(p.trim_end_matches('/').to_string());
}
/// messages that quote a source location name the checkout under test: write it as `/repo`, so that
/// signatures are the same for every checkout (`MMV_REPO`)
pub fn repo_norm(s: &str) -> String {
    match REPO_PATH.get() {
        Some(p) if p != "/repo" && !p.is_empty() => s.replace(p.as_str(), "/repo"),
        _ => s.to_string(),
    }
}
/// is the named defect class listed in KNOWN_FINDINGS (passed by the driver)?
pub fn q(name: &str) -> bool {
    QUARANTINE.get().is_some_and(|s| s.contains(name))
}

// ---------------------------------------------------------------- args

#[derive(Clone, Debug)]
pub struct Args {
    pub prop: String,
    pub tier: String,
    pub seed: u64,
    pub shard: usize,
    pub nshards: usize,
    pub start: usize,
    pub only: Option<usize>,
    pub out: Option<String>,
    pub replay: Option<String>,
    pub quarantine: BTreeSet<String>,
    pub budget: Option<usize>,
    pub repo: String,
    pub extra: BTreeMap<String, String>,
}

impl Args {
    pub fn parse(argv: &[String]) -> Args {
        let mut a = Args {
            prop: argv.get(1).cloned().unwrap_or_default(),
            tier: "quick".into(),
            seed: 1,
            shard: 0,
            nshards: 1,
            start: 0,
            only: None,
            out: None,
            replay: None,
            quarantine: BTreeSet::new(),
            budget: None,
            repo: "/repo".into(),
            extra: BTreeMap::new(),
        };
        let mut i = 2;
        while i < argv.len() {
            let k = argv[i].as_str();
            let v = argv.get(i + 1).cloned().unwrap_or_default();
            match k {
                "--tier" => a.tier = v,
                "--seed" => a.seed = v.parse().unwrap_or(1),
                "--shard" => {
                    let mut it = v.split('/');
                    a.shard = it.next().unwrap().parse().unwrap();
                    a.nshards = it.next().unwrap().parse().unwrap();
                }
                "--start" => a.start = v.parse().unwrap(),
                "--only" => a.only = Some(v.parse().unwrap()),
                "--out" => a.out = Some(v),
                "--replay" => a.replay = Some(v),
                "--quarantine" => {
                    a.quarantine = v.split(',').filter(|s| !s.is_empty()).map(String::from).collect()
                }
                "--budget" => a.budget = Some(v.parse().unwrap()),
                "--repo" => a.repo = v,
                _ => {
                    if let Some(name) = k.strip_prefix("--") {
                        a.extra.insert(name.to_string(), v);
                    }
                }
            }
            i += 2;
        }
        a
    }
    pub fn thorough(&self) -> bool {
        self.tier == "thorough"
    }
    pub fn q(&self, name: &str) -> bool {
        self.quarantine.contains(name)
    }
    /// number of cases: `quick`/`thorough` defaults unless --budget given.
    pub fn cases(&self, quick: usize, thorough: usize) -> usize {
        self.budget.unwrap_or(if self.thorough() { thorough } else { quick })
    }
    /// Case indices handled by this worker.
    pub fn my_cases(&self, total: usize) -> Vec<usize> {
        if let Some(o) = self.only {
            return vec![o];
        }
        (0..total).filter(|i| i % self.nshards == self.shard && *i >= self.start).collect()
    }
    pub fn case_rng(&self, idx: usize) -> Rng {
        Rng::derive(self.seed, fnv(self.prop.as_bytes()), idx as u64)
    }
}

// ---------------------------------------------------------------- event stream

pub struct Out {
    w: Box<dyn Write>,
    pub counters: BTreeMap<String, u64>,
    pub sets: BTreeMap<String, BTreeSet<String>>,
    samples: usize,
    pub max_samples: usize,
    pub violations: u64,
}

impl Out {
    pub fn new(path: Option<&str>) -> Out {
        let w: Box<dyn Write> = match path {
            Some(p) => Box::new(
                std::fs::OpenOptions::new().create(true).append(true).open(p).expect("open out"),
            ),
            None => Box::new(std::io::stdout()),
        };
        Out { w, counters: BTreeMap::new(), sets: BTreeMap::new(), samples: 0, max_samples: 3, violations: 0 }
    }
    pub fn emit(&mut self, v: Value) {
        let _ = writeln!(self.w, "{}", v);
        let _ = self.w.flush();
    }
    pub fn begin(&mut self, idx: usize, case: &Value) {
        self.emit(json!({"ev":"begin","idx":idx,"case":case}));
    }
    /// `fp`: fingerprint of the case artefact; `nontrivial`: by the property's rule.
    pub fn end(&mut self, idx: usize, fp: &str, nontrivial: bool) {
        self.emit(json!({"ev":"end","idx":idx,"fp":fp,"nt":nontrivial}));
    }
    pub fn violation(&mut self, idx: usize, sig: &str, detail: &str, case: &Value) {
        self.violations += 1;
        self.emit(json!({"ev":"violation","idx":idx,"sig":sig,"detail":detail,"case":case}));
    }
    pub fn inconclusive(&mut self, idx: usize, why: &str) {
        self.count("inconclusive", 1);
        self.emit(json!({"ev":"inconclusive","idx":idx,"why":why}));
    }
    pub fn quarantined(&mut self, idx: usize, name: &str) {
        self.count(&format!("quarantined:{name}"), 1);
        self.emit(json!({"ev":"quarantined","idx":idx,"name":name}));
    }
    pub fn sample(&mut self, case: &Value) {
        if self.samples < self.max_samples {
            self.samples += 1;
            self.emit(json!({"ev":"sample","case":case}));
        }
    }
    pub fn count(&mut self, k: &str, n: u64) {
        *self.counters.entry(k.to_string()).or_insert(0) += n;
    }
    pub fn set(&mut self, k: &str, v: impl Into<String>) {
        let s = self.sets.entry(k.to_string()).or_default();
        if s.len() < 5000 {
            s.insert(v.into());
        }
    }
    pub fn finish(&mut self) {
        let c = self.counters.clone();
        let s: BTreeMap<String, Vec<String>> =
            self.sets.iter().map(|(k, v)| (k.clone(), v.iter().cloned().collect())).collect();
        self.emit(json!({"ev":"summary","counters":c,"sets":s}));
    }
}

/// Where a worker currently is inside the open case; written to the event stream so that the
/// supervisor can attribute a process death to a phase (`crash:<SIGNAL>/<phase>`).
static PHASE_FILE: std::sync::OnceLock<Option<String>> = std::sync::OnceLock::new();
pub fn set_phase_file(path: Option<&str>) {
    let _ = PHASE_FILE.set(path.map(String::from));
}
pub fn phase(name: &str) {
    if let Some(Some(p)) = PHASE_FILE.get()
        && let Ok(mut f) = std::fs::OpenOptions::new().append(true).open(p)
    {
        let _ = writeln!(f, "{}", json!({"ev":"phase","phase":name}));
    }
}

// ---------------------------------------------------------------- panic capture

thread_local! {
    static LAST_PANIC: RefCell<Option<(String,String)>> = const { RefCell::new(None) };
}

pub fn install_panic_hook() {
    std::panic::set_hook(Box::new(|info| {
        let loc = info.location().map(|l| format!("{}:{}", l.file(), l.line())).unwrap_or_default();
        let msg = if let Some(s) = info.payload().downcast_ref::<&str>() {
            s.to_string()
        } else if let Some(s) = info.payload().downcast_ref::<String>() {
            s.clone()
        } else {
            "<non-string panic>".to_string()
        };
        LAST_PANIC.with(|p| *p.borrow_mut() = Some((loc, msg)));
    }));
}

#[derive(Debug, Clone)]
pub struct Panic {
    pub loc: String,
    pub msg: String,
}
impl Panic {
    /// Normalised signature: file (repo relative, no line) + message with digits collapsed.
    pub fn sig(&self) -> String {
        let file = self.loc.split(':').next().unwrap_or("");
        let file = file.rsplit("crates/").next().unwrap_or(file);
        let mut m = String::new();
        let mut last_digit = false;
        for c in self.msg.chars().take(120) {
            if c.is_ascii_digit() {
                if !last_digit {
                    m.push('N');
                }
                last_digit = true;
            } else {
                last_digit = false;
                m.push(if c == '\n' { ' ' } else { c });
            }
        }
        format!("panic@{file}: {m}")
    }
    pub fn is_verif_tag(&self) -> Option<&str> {
        if self.msg.starts_with("VERIF-OOB") {
            Some("VERIF-OOB")
        } else if self.msg.starts_with("VERIF-STEPS") {
            Some("VERIF-STEPS")
        } else {
            None
        }
    }
}

pub fn catch<R>(f: impl FnOnce() -> R) -> Result<R, Panic> {
    LAST_PANIC.with(|p| *p.borrow_mut() = None);
    match catch_unwind(AssertUnwindSafe(f)) {
        Ok(r) => Ok(r),
        Err(e) => {
            let (loc, msg) = LAST_PANIC.with(|p| p.borrow_mut().take()).unwrap_or_else(|| {
                let msg = if let Some(s) = e.downcast_ref::<&str>() {
                    s.to_string()
                } else if let Some(s) = e.downcast_ref::<String>() {
                    s.clone()
                } else {
                    "<unknown>".into()
                };
                (String::new(), msg)
            });
            Err(Panic { loc, msg })
        }
    }
}

/// Run `f` on a fresh thread with the given stack size; panics are captured.
pub fn on_thread<R: Send + 'static>(
    stack: usize,
    f: impl FnOnce() -> R + Send + 'static,
) -> Result<R, Panic> {
    let h = std::thread::Builder::new()
        .stack_size(stack)
        .spawn(move || {
            hooks_default();
            catch(f)
        })
        .expect("spawn");
    match h.join() {
        Ok(r) => r,
        Err(_) => Err(Panic { loc: String::new(), msg: "thread died".into() }),
    }
}

/// Send the repository's own stderr chatter to /dev/null.
pub fn silence_stderr() {
    if std::env::var("MMV_VERBOSE").is_ok() {
        return;
    }
    unsafe {
        let fd = libc::open(c"/dev/null".as_ptr(), libc::O_WRONLY);
        if fd >= 0 {
            libc::dup2(fd, 2);
            libc::close(fd);
        }
    }
}

/// serde_json refuses documents nested deeper than 128 levels; generated programs (G-AST) are deeper
pub fn parse_json_deep(txt: &str) -> Result<Value, serde_json::Error> {
    use serde::Deserialize;
    let mut de = serde_json::Deserializer::from_str(txt);
    de.disable_recursion_limit();
    Value::deserialize(&mut de)
}

pub fn bits_eq(a: f64, b: f64) -> bool {
    (a.is_nan() && b.is_nan()) || a.to_bits() == b.to_bits()
}

pub fn f64s_to_json(v: &[f64]) -> Value {
    Value::Array(v.iter().map(|x| Value::String(format!("{x:?}"))).collect())
}

/// Index of first difference (NaN==NaN) or None.
pub fn first_diff(a: &[f64], b: &[f64]) -> Option<usize> {
    if a.len() != b.len() {
        return Some(a.len().min(b.len()));
    }
    (0..a.len()).find(|&i| !bits_eq(a[i], b[i]))
}

/// Default hook configuration of a worker thread.
pub fn hooks_default() {
    mimium_lang::verif::configure(mimium_lang::verif::Config {
        record_state: false,
        assert_bounds: true,
        step_budget: 200_000_000,
    });
}
